"""Python mirror of coq/theories/Mux/Val.v: value encoding, the catalogue of user functions
(as JSON-able terms -> Python callables and -> Coq terms)."""
import math

class EmptyReport(Exception):
    """a user-defined exception class whose instances are falsy (a report of offending fields that can be empty):
    `if error:` is not `if error is not None:`"""
    def __len__(self):
        return 0


EXN = {'TypeError': 1, 'ValueError': 2, 'ZeroDivisionError': 3, 'IndexError': 4, 'OverflowError': 5,
       'RecursionError': 6, 'MemoryError': 7, 'KeyError': 8, 'AssertionError': 10, 'AttributeError': 11, 'StopIteration': 12,
       'EmptyReport': 13}
EXN_CLS = {1: TypeError, 2: ValueError, 3: ZeroDivisionError, 4: IndexError, 5: OverflowError, 9: RuntimeError,
           6: RecursionError, 7: MemoryError, 8: KeyError, 10: AssertionError, 11: AttributeError, 12: StopIteration,
           13: EmptyReport}


def exn_code(e):
    return EXN.get(type(e).__name__, 9)


# ------------------------------------------------------------------ values
def enc(v):
    """Python value -> canonical JSON-able encoding (total; snapshot of mutable values)."""
    if v is None:
        return ['n']
    if v is True or v is False:
        return ['b', 1 if v else 0]
    if isinstance(v, int):
        return ['i', int(v)]
    if isinstance(v, float):
        if v != v:
            return ['f', 'nan']
        if v in (math.inf, -math.inf):
            return ['f', 'inf' if v > 0 else '-inf']
        m, e = math.frexp(abs(v))
        mant = int(m * (1 << 53))
        return ['f', 1 if math.copysign(1.0, v) < 0 else 0, mant, e - 53]
    if isinstance(v, str):
        return ['s', v]
    if isinstance(v, tuple):
        return ['t', [enc(x) for x in v]]
    if isinstance(v, list):
        return ['l', [enc(x) for x in v]]
    if isinstance(v, BaseException):
        return ['x', exn_code(v)]
    try:
        return ['l', [enc(x) for x in v]]      # deque, array, set(sorted) ...
    except TypeError:
        return ['?', type(v).__name__]


def dec(e):
    t = e[0]
    if t == 'n':
        return None
    if t == 'b':
        return bool(e[1])
    if t == 'i':
        return int(e[1])
    if t == 'f':
        if e[1] == 'nan':
            return math.nan
        if e[1] == 'inf':
            return math.inf
        if e[1] == '-inf':
            return -math.inf
        x = math.ldexp(float(e[2]), e[3])
        return -x if e[1] else x
    if t == 's':
        return e[1]
    if t == 't':
        return tuple(dec(x) for x in e[1])
    if t == 'l':
        return [dec(x) for x in e[1]]
    if t == 'x':
        return 'exception#%s' % e[1]
    if t == '?':
        return '<%s object>' % e[1]
    raise ValueError(e)


def coq_val(e):
    t = e[0]
    if t == 'n':
        return 'VNone'
    if t == 'b':
        return '(VBool %s)' % ('true' if e[1] else 'false')
    if t == 'i':
        return '(VInt (%d)%%Z)' % e[1]
    if t == 'f':
        if e[1] == 'nan':
            return '(VFloat PrimFloat.nan)'
        if e[1] == 'inf':
            return '(VFloat PrimFloat.infinity)'
        if e[1] == '-inf':
            return '(VFloat PrimFloat.neg_infinity)'
        return '(VFloat (mkf %s (%d)%%Z (%d)%%Z))' % ('true' if e[1] else 'false', e[2], e[3])
    if t == 's':
        return '(VStr [%s]%%Z)' % ';'.join(str(ord(c)) for c in e[1]) if e[1] else '(VStr [])'
    if t == 't':
        return '(VTuple [%s])' % '; '.join(coq_val(x) for x in e[1])
    if t == 'l':
        return '(VList [%s])' % '; '.join(coq_val(x) for x in e[1])
    if t == 'x':
        return '(VInt (%d)%%Z)' % e[1]
    return '(VStr [63]%Z)'


# ------------------------------------------------------------------ unary functions
def py_fn(t):
    k = t[0]
    if k == 'id':
        return lambda x: x
    if k == 'const':
        c = dec(t[1])
        return lambda x: c
    if k in ('add', 'sub', 'rsub', 'mul', 'div', 'gt', 'lt', 'eq'):
        c = dec(t[1])
        return {
            'add': lambda x: x + c, 'sub': lambda x: x - c, 'rsub': lambda x: c - x, 'mul': lambda x: x * c,
            'div': lambda x: x / c, 'gt': lambda x: x > c, 'lt': lambda x: x < c, 'eq': lambda x: x == c,
        }[k]
    if k == 'mod':
        m = t[1]
        return lambda x: x % m
    if k == 'floordiv':
        m = t[1]
        return lambda x: x // m
    if k == 'neg':
        return lambda x: -x
    if k == 'isodd':
        return lambda x: x % 2 == 1
    if k == 'isnone':
        return lambda x: x is None
    if k == 'not':
        return lambda x: not x
    if k == 'nth':
        n = t[1]
        return lambda x: x[n]
    if k == 'len':
        return lambda x: len(x)
    if k == 'tofloat':
        return lambda x: float(x)
    if k == 'sqrt':
        return lambda x: math.sqrt(x)
    if k == 'pair':
        f, g = py_fn(t[1]), py_fn(t[2])
        return lambda x: (f(x), g(x))
    if k == 'comp':
        f, g = py_fn(t[1]), py_fn(t[2])
        return lambda x: g(f(x))
    if k == 'raiseif':
        p, cls = py_fn(t[1]), EXN_CLS[t[2]]

        def _raiseif(x):
            if p(x):
                raise cls('injected')
            return x
        return _raiseif
    if k == 'istrue':
        return lambda x: x is True
    if k == 'noneif':
        p = py_fn(t[1])
        return lambda x: None if p(x) else x
    if k == 'nanif':         # Python only: NaN (a value that is != itself) where the condition holds, else the item
        import math
        pn = py_fn(t[1])
        shared = t[2] if len(t) > 2 else 1
        return (lambda x: (math.nan if shared else float('nan')) if pn(x) else x)
    if k == 'tostr':         # Python only: a string built at run time (equal strings are not identical objects)
        return lambda x: 's%d' % x
    if k == 'torange':       # Python only (no Coq model): an iterable that is neither list nor tuple
        return lambda x: range(abs(x) % 4)
    if k == 'todeque':
        import collections
        return lambda x: collections.deque([x, x])
    if k == 'star':
        a = py_fn2(t[1])
        return lambda x: a(x[0], x[1])
    raise ValueError(t)


def coq_fn(t):
    k = t[0]
    simple = {'id': 'FId', 'neg': 'FNeg', 'isodd': 'FIsOdd', 'isnone': 'FIsNone', 'not': 'FNot', 'len': 'FLen',
              'tofloat': 'FToFloat', 'sqrt': 'FSqrt', 'istrue': 'FIsTrue', 'meanout': 'FMeanOut',
              'varout': 'FVarOut', 'sqrtopt': 'FSqrtOpt', 'batchterm': 'FBatchTerm'}
    if k in simple:
        return simple[k]
    if k in ('const', 'add', 'sub', 'rsub', 'mul', 'div', 'gt', 'lt', 'eq'):
        return '(%s %s)' % ({'const': 'FConst', 'add': 'FAdd', 'sub': 'FSub', 'rsub': 'FRSub', 'mul': 'FMul',
                              'div': 'FDiv', 'gt': 'FGt', 'lt': 'FLt', 'eq': 'FEq'}[k], coq_val(t[1]))
    if k == 'mod':
        return '(FMod (%d)%%Z)' % t[1]
    if k == 'floordiv':
        return '(FFloorDiv (%d)%%Z)' % t[1]
    if k == 'nth':
        return '(FNth %d%%nat)' % t[1]
    if k == 'pair':
        return '(FPair %s %s)' % (coq_fn(t[1]), coq_fn(t[2]))
    if k == 'comp':
        return '(FComp %s %s)' % (coq_fn(t[1]), coq_fn(t[2]))
    if k == 'raiseif':
        return '(FRaiseIf %s (%d)%%Z)' % (coq_fn(t[1]), t[2])
    if k == 'clip':
        return '(FClip %s %s)' % (coq_val(t[1]), coq_val(t[2]))
    if k == 'fillnone':
        return '(FFillNone %s)' % coq_val(t[1])
    if k == 'noneif':
        return '(FNoneIf %s)' % coq_fn(t[1])
    if k == 'star':
        return '(FStar %s)' % coq_fn2(t[1])
    raise ValueError(t)


# ------------------------------------------------------------------ binary functions (accumulators)
def py_fn2(t):
    k = t[0]
    if k == 'add':
        return lambda a, x: a + x
    if k == 'sub':
        return lambda a, x: a - x
    if k == 'mul':
        return lambda a, x: a * x
    if k == 'max':
        return lambda a, x: max(a, x)
    if k == 'min':
        return lambda a, x: min(a, x)
    if k == 'count':
        return lambda a, x: a + 1
    if k == 'append':
        def _append(a, x):      # mutates and returns its accumulator, like rxsci's own to_list
            a.append(x)
            return a
        return _append
    if k == 'snd':
        return lambda a, x: x
    if k == 'fst':
        return lambda a, x: a
    if k == 'lt':
        return lambda a, x: a < x
    if k == 'le':
        return lambda a, x: a <= x
    if k == 'ne':
        return lambda a, x: a != x
    if k == 'pair':
        return lambda a, x: (a, x)
    if k == 'key':
        a2, f = py_fn2(t[1]), py_fn(t[2])
        return lambda a, x: a2(a, f(x))
    if k == 'post':
        a2, f = py_fn2(t[1]), py_fn(t[2])
        return lambda a, x: f(a2(a, x))
    if k == 'raiseif':
        p, cls, a2 = py_fn(t[1]), EXN_CLS[t[2]], py_fn2(t[3])

        def _raiseif(a, x):
            if p(x):
                raise cls('injected')
            return a2(a, x)
        return _raiseif
    raise ValueError(t)


def coq_fn2(t):
    k = t[0]
    simple = {'add': 'A2Add', 'sub': 'A2Sub', 'mul': 'A2Mul', 'max': 'A2Max', 'min': 'A2Min', 'count': 'A2Count',
              'append': 'A2Append', 'snd': 'A2Snd', 'fst': 'A2Fst', 'lt': 'A2Lt', 'le': 'A2Le', 'ne': 'A2Ne',
              'pair': 'A2Pair'}
    if k in simple:
        return simple[k]
    if k == 'key':
        return '(A2Key %s %s)' % (coq_fn2(t[1]), coq_fn(t[2]))
    if k == 'post':
        return '(A2Post %s %s)' % (coq_fn2(t[1]), coq_fn(t[2]))
    if k == 'raiseif':
        return '(A2RaiseIf %s (%d)%%Z %s)' % (coq_fn(t[1]), t[2], coq_fn2(t[3]))
    if k in ('minacc', 'maxacc', 'sumacc', 'meanacc', 'varacc', 'duc'):
        return '(%s %s)' % ({'minacc': 'A2MinAcc', 'maxacc': 'A2MaxAcc', 'sumacc': 'A2SumAcc', 'meanacc': 'A2MeanAcc',
                              'varacc': 'A2VarAcc', 'duc': 'A2Duc'}[k], coq_fn(t[1]))
    if k == 'batch':
        return '(A2Batch (%d)%%Z)' % t[1]
    raise ValueError(t)
