"""Writes MANIFEST.json from the list of property modules that exist (harness/props/Cxx.py with CLAIM)."""
import importlib
import json
import os
import sys

VERIF = os.path.dirname(os.path.dirname(os.path.abspath(__file__)))
sys.path.insert(0, VERIF)
ALL = ['C%02d' % i for i in range(1, 21)]


def main():
    checks, na = [], []
    allowed = set(open(os.path.join(VERIF, 'harness', 'claimed.txt')).read().split())
    for pid in ALL:
        path = os.path.join(VERIF, 'harness', 'props', pid + '.py')
        claim = None
        if os.path.exists(path):
            src = open(path).read()
            ns = {}
            # CLAIM is a literal dict at the end of the module, evaluated without importing rxsci
            if '\nCLAIM = ' in src and pid in allowed:
                exec('CLAIM = ' + src.split('\nCLAIM = ', 1)[1], ns)
                claim = ns['CLAIM']
        if claim is None:
            na.append({'property_id': pid, 'reason': 'check not built yet in this round (planned: Coq model + '
                       'correspondence as described in DESIGN.md s.6); nothing is claimed for it'})
            continue
        checks.append({
            'property_id': pid,
            'quick_cmd': './check %s --tier quick' % pid,
            'thorough_cmd': './check %s --tier thorough' % pid,
            'evidence_file': '/verif/evidence/%s.json' % pid,
            'replay_cmd_template': './check %s --replay {path}' % pid,
            'engine': 'coq-proof+correspondence',
            'level_claimed': {'category': 'proof', 'text': claim['text'], 'design_ref': claim.get('design_ref', 'DESIGN.md s.6 ' + pid)},
            'level_note': claim['note'],
            'technique': claim.get('technique', 'Coq 8.16 theorems about a hand-written executable model + vm_compute correspondence against /repo'),
        })
    man = {
        'version': 1,
        'setup_cmd': 'cd /verif/coq && bash build.sh',
        'hooks': {'guard': 'RXSCI_VERIF', 'enable': 'no source hooks are needed: boundaries are observed with harness-defined tap operators; ./check exports RXSCI_VERIF=1 for uniformity',
                  'baseline_off_cmd': 'cd /repo && /venv/bin/python -m pytest -ra -q -p no:cacheprovider --timeout=900 --continue-on-collection-errors',
                  'source_commits': [], 'add_only': True},
        'engines': [{'name': 'coq-proof+correspondence', 'path': '/verif/check',
                     'serves_properties': [c['property_id'] for c in checks],
                     'kind_free_text': 'Coq 8.16.1 development under /verif/coq (theorems in props/Cxx.v, Print Assumptions checked on every run) + correspondence check: the model is evaluated inside Coq (vm_compute) on the inputs the implementation was run on'}],
        'checks': checks,
        'not_applicable': na,
        'notes': 'See DESIGN.md. Known findings / fixed defects: known_findings.json. Seeded changes: seeded/.',
    }
    with open(os.path.join(VERIF, 'MANIFEST.json'), 'w') as f:
        json.dump(man, f, indent=1)
    print('claimed:', [c['property_id'] for c in checks])


if __name__ == '__main__':
    main()
