"""Shared pieces of the property modules that use the multiplexed-operator model (Mux/MuxCorr.v)."""
import json
from harness import muxlib, muxgen

SHARD = 150
COQ_TARGETS = ['theories/Mux/MuxCorr.vo']
CTYPE = 'muxcase'
CHECKER = 'mux_check'
RAISED_IS_FAILURE = True      # see main.safe_oracle
TRUSTED = ['modelled not verified: RxPY synchronous delivery / Subject and publish fan-out order / AutoDetachObserver '
           'stop after on_error; Python dict insertion order, ==/hash on keys; copy.deepcopy freshness of scan seeds; '
           'absence of aliasing between emitted items and operator state',
           'MemoryStore is abstracted to per-slot cells (tied separately by C14)',
           'the refinement theorems are claimed on the errors_handled fragment: an operator that may emit a mux error '
           'is directly followed by a handler or is the last operator before the demux']
HEADS = ('group', 'roll', 'split', 'time_split')


def coq_preamble():
    return muxlib.MUX_PREAMBLE


def coq_term(case, obs):
    return muxlib.coq_muxcase(case['ast'], case['trace'], obs)


def coq_model_expr(case):
    return 'mux_model %s %s' % (muxlib.coq_pipe(strip_taps(case['ast'])), muxlib.coq_trace(case['trace']))


def strip_taps(ast):
    out = []
    for n in ast:
        if n[0] == 'tap':
            continue
        if n[0] == 'tee':
            out.append(['tee', n[1], [strip_taps(b) for b in n[2]]])
        elif n[0] in HEADS:
            out.append(n[:-1] + [strip_taps(n[-1])])
        else:
            out.append(n)
    return out


def with_taps(ast, counter=None, path='out'):
    """a tap after every operator, at the head and tail of every inner pipeline and tee branch;
    returns (ast with taps, {tap id: description})"""
    counter = counter if counter is not None else {'n': 0, 'names': {}}

    def new(desc):
        counter['n'] += 1
        counter['names'][counter['n']] = desc
        return ['tap', counter['n']]

    out = []
    for i, n in enumerate(ast):
        if n[0] == 'tee':
            brs = []
            for bi, b in enumerate(n[2]):
                inner, _ = with_taps(b, counter, '%s/tee%d.branch%d' % (path, i, bi))
                brs.append([new('%s/tee%d.branch%d:head' % (path, i, bi))] + inner)
            out.append(['tee', n[1], brs])
        elif n[0] in HEADS:
            inner, _ = with_taps(n[-1], counter, '%s/%s%d' % (path, n[0], i))
            out.append(n[:-1] + [[new('%s/%s%d:head' % (path, n[0], i))] + inner])
        else:
            out.append(n)
        out.append(new('%s:after %s#%d' % (path, n[0], i)))
    return out, counter['names']


def kinds(ast, acc=None):
    acc = set() if acc is None else acc
    for n in ast:
        acc.add(n[0])
        if n[0] == 'tee':
            for b in n[2]:
                kinds(b, acc)
        elif n[0] in HEADS:
            kinds(n[-1], acc)
    return acc


def depth(ast):
    d = 0
    for n in ast:
        if n[0] == 'tee':
            d = max(d, 1 + max([depth(b) for b in n[2]] or [0]))
        elif n[0] in HEADS:
            d = max(d, 1 + depth(n[-1]))
    return d


def has_fatal(steps):
    return any(o[0] == 'fatal' for st in steps for o in st)


def op_histogram(cases):
    hist = {}
    for c in cases:
        for k in kinds(c['ast']):
            hist[k] = hist.get(k, 0) + 1
    return hist


def lifetime_positions(trace):
    """[{key, items, pos: [positions of its Next events], create, done}] in creation order"""
    occ, cur = [], {}
    for p, e in enumerate(trace):
        k = tuple(e[1])
        if e[0] == 'c':
            cur[k] = {'key': list(k), 'items': [], 'pos': [], 'create': p, 'done': None}
            occ.append(cur[k])
        elif e[0] == 'n':
            cur[k]['items'].append(e[2])
            cur[k]['pos'].append(p)
        elif e[0] == 'd':
            cur[k]['done'] = p
    return occ


def single_trace(items, key=(0,)):
    key = list(key)
    return [['c', key]] + [['n', key, x] for x in items] + [['d', key]]


def protocol_violation(log):
    """Monitors one boundary trace (list of tap events). Returns None or a description."""
    live = {}
    for i, e in enumerate(log):
        t = e[0]
        if t in ('completed', 'fatal'):
            if t == 'completed' and live:
                return 'stream completed with live keys %s' % sorted(live)
            continue
        k = tuple(e[1])
        if t == 'c':
            if k in live:
                return 'event %d: second creation of live key %s' % (i, list(k))
            for k2 in live:
                if k2[0] == k[0]:
                    return 'event %d: key %s created while key %s with the same slot index %d is live' % (
                        i, list(k), list(k2), k[0])
            live[k] = True
        elif t in ('n', 'e'):
            if k not in live:
                return 'event %d: %s for key %s which is not live' % (i, 'item' if t == 'n' else 'error', list(k))
        elif t == 'd':
            if k not in live:
                return 'event %d: completion of key %s which is not live' % (i, list(k))
            del live[k]
    return None


def protocol_violation_with_errors(log):
    """Boundary monitor for traces in which mux errors reach composite operators.  rxsci's operators release a
    key's state on OnErrorMux but the key may go on (rs.error.ignore downstream), so an error leaves the key
    in a state where BOTH continuations are legal: more events for it, or its re-creation.  Still breaches:
    any event for a key that was never created or was completed, creating a live key that has not errored,
    two live non-errored keys sharing a slot index, a key neither completed nor errored at stream completion."""
    live, errored = {}, set()
    for i, e in enumerate(log):
        t = e[0]
        if t in ('completed', 'fatal'):
            left = [k for k in live if k not in errored]
            if t == 'completed' and left:
                return 'stream completed with live keys %s' % sorted(left)
            continue
        k = tuple(e[1])
        if t == 'c':
            if k in live and k not in errored:
                return 'event %d: second creation of live key %s' % (i, list(k))
            for k2 in live:
                if k2 != k and k2[0] == k[0] and k2 not in errored:
                    return 'event %d: key %s created while key %s with the same slot index %d is live' % (
                        i, list(k), list(k2), k[0])
            live[k] = True
            errored.discard(k)
        elif t in ('n', 'e', 'd'):
            if k not in live:
                return 'event %d: %s for key %s which is not live' % (
                    i, {'n': 'item', 'e': 'error', 'd': 'completion'}[t], list(k))
            if t == 'e':
                errored.add(k)
            elif t == 'd':
                del live[k]
                errored.discard(k)
    return None


def short(xs, n=160):
    from harness.pyval import dec
    try:
        return json.dumps([dec(x) for x in xs], default=repr)[:n]
    except Exception:
        return json.dumps(xs, default=repr)[:n]


def cut_fatal(steps):
    out, dead = [], False
    for st in steps:
        cur = []
        for o in st:
            if dead:
                break
            cur.append(o)
            if o[0] == 'fatal':
                dead = True
        out.append(cur)
    return out


def entry_point_mismatch(ast, items, stateless=False):
    """rs.state.with_memory_store(pipeline) / rs.ops.multiplex(pipeline) on a PLAIN source must behave like the
    pipeline on the explicit trace Create (0,), items, Completed (0,) followed by demux_observable: items in the
    same steps, an unhandled mux error as on_error in its step, completion after the last item."""
    ast = strip_taps(ast)
    if 'route' in kinds(ast):
        return None           # the dead-letter observable is a separate channel
    ref = muxlib.run_mux(ast, single_trace(items))['steps']

    def norm(steps):
        out = []
        for st in steps:
            cur = []
            for o in st:
                cur.append(['fatal', o[2]] if o[0] == 'e' else o)
            out.append(cur)
        return cut_fatal(out)
    for entry in (['memory_store', 'multiplex'] if stateless else ['memory_store']):
        try:
            got = muxlib.run_mux_plain_source(ast, items, entry)['steps']
        except Exception as e:
            return '%s raised %s' % (entry, type(e).__name__)
        if norm(got) != norm(ref):
            return 'with_%s on a plain source emits %s; the pipeline on the explicit mux trace emits %s' % (
                entry, json.dumps(norm(got))[:220], json.dumps(norm(ref))[:220])
    return None


def reapplication_mismatch(ast, trace, runs=2):
    """The operator values of the pipeline are built once and applied to `runs` fresh sources (with a fresh store
    each): every application must behave like the first (tee_map included: each application publishes anew)."""
    ast = strip_taps(ast)
    try:
        rs_ = muxlib.run_mux_twice(ast, trace, runs=runs, reapply=True)
    except Exception as e:
        return 'applying the operator values a second time raised %s: %s' % (type(e).__name__, str(e)[:120])
    for j in range(1, len(rs_)):
        if rs_[j] != rs_[0]:
            p = next((i for i, (a, b) in enumerate(zip(rs_[0]['steps'], rs_[j]['steps'])) if a != b), None)
            if p is None:
                return 'application %d of the same operator values ends with %s, the first with %s' % (
                    j + 1, json.dumps(rs_[j]['final'])[:160], json.dumps(rs_[0]['final'])[:160])
            return 'application %d of the same operator values emits %s while event %d is pushed, the first application emitted %s' % (
                j + 1, json.dumps(rs_[j]['steps'][p])[:200], p, json.dumps(rs_[0]['steps'][p])[:200])
    return None


def resubscription_mismatch(ast, trace, runs=2):
    """One pipeline object subscribed several times in sequence (cold source replaying the trace): every
    subscription must emit what the first one emitted, dead letters and their completion included.
    tee_map is excluded: it is built on publish(), whose connectable cannot be subscribed again once completed
    (on the unchanged code a second subscription of any tee_map completes empty, plain or multiplexed)."""
    ast = strip_taps(ast)
    if 'tee' in kinds(ast) or 'dist_describe' in kinds(ast):     # describe() is a tee_map inside
        return None
    try:
        rs_ = muxlib.run_mux_twice(ast, trace, runs=runs)
    except Exception as e:
        return 're-subscription raised %s: %s' % (type(e).__name__, str(e)[:120])
    for j in range(1, len(rs_)):
        if rs_[j] != rs_[0]:
            p = next((i for i, (a, b) in enumerate(zip(rs_[0]['steps'], rs_[j]['steps'])) if a != b), None)
            if p is None:
                return 'subscription %d of the same pipeline ends with %s, the first with %s' % (
                    j + 1, json.dumps(rs_[j]['final'])[:160], json.dumps(rs_[0]['final'])[:160])
            return 'subscription %d of the same pipeline emits %s while event %d is pushed, the first subscription emitted %s' % (
                j + 1, json.dumps(rs_[j]['steps'][p])[:200], p, json.dumps(rs_[0]['steps'][p])[:200])
    return None


def hostile_environment_failure(case, obs):
    """Generic judgements for every mux module: the delivered stream is well-formed; and an environment behaviour every keyed pipeline must tolerate, tried on a deterministic quarter of the cases of
    every mux module (tee_map excluded: publish() is single-use): the pipeline object is subscribed a second time;
    on another quarter (tee_map included) the operator VALUES are built once and applied to two sources.
    (A subscriber that mutates what it receives is NOT a sound generic test: operators legitimately keep references
    to the items they were given - lag, distinct_until_changed, a running max - so it is applied only where the
    emitted value is created by the operator itself: the reduce results of C09.)"""
    import zlib
    if not isinstance(case, dict) or 'ast' not in case or 'trace' not in case or case.get('errthru'):
        return None
    if 'raised' in obs or 'steps' not in obs:
        return None
    ast = strip_taps(case['ast'])
    ks = kinds(ast)
    alien = [o for st in obs['steps'] for o in st if o[0] == '?']
    if alien:
        return {'sig': 'environment:not-a-mux-event', 'what': 'the subscriber of the multiplexed pipeline was handed objects that '
                'are not mux events: %s' % json.dumps(alien[:3])}
    # the stream handed to the subscriber is itself a boundary (C03): on a well-formed input without source errors
    # it must be well-formed whatever the pipeline - e.g. a result delivered after its key's completion
    if not any(e[0] == 'e' for e in case['trace']) and not has_fatal(obs['steps']):
        final = [o for st in obs['steps'] for o in st if o[0] in ('c', 'n', 'd', 'e')]
        v = protocol_violation(final)
        if v:
            return {'sig': 'environment:output-protocol', 'what': 'stream delivered to the subscriber: ' + v}
    sel = zlib.crc32(json.dumps([ast, case['trace']], sort_keys=True, default=repr).encode()) % 4
    if 'dist_describe' in ks:
        ks = set(ks) | {'tee'}     # rs.math.dist.describe is a tee_map inside
    if sel == 1 or (sel == 2 and 'tee' in ks):
        # operator values stored and used in a second pipeline (tee_map included)
        m = reapplication_mismatch(ast, case['trace'])
        if m:
            return {'sig': 'environment:operator-values-applied-twice', 'what': m}
    if 'tee' in ks:
        return None
    if sel == 0:
        m = resubscription_mismatch(ast, case['trace'])
        if m:
            return {'sig': 'environment:re-subscription', 'what': m}
    return None
