"""Pipelines of rxsci multiplexed operators as JSON-able ASTs: -> real rxsci operators, -> Coq terms
(Mux/Syntax.v), a Subject-driven runner that records what is emitted while each input event is pushed,
taps for internal boundaries, and typed random generators."""
import contextlib
import io
import rx
from rx.subject import Subject
import rxsci as rs

from harness.pyval import enc, dec, coq_val, py_fn, coq_fn, py_fn2, coq_fn2, exn_code

# ------------------------------------------------------------------------------------------------
# AST -> real operators
# ------------------------------------------------------------------------------------------------


class Ctx(object):
    """per-run context: error router, taps"""

    def __init__(self, record, defer_dead=False):
        self.record = record
        self.router = None
        self.errors = None
        self.defer_dead = defer_dead      # the caller subscribes the dead-letter observable itself (once per run)
        self.taps = {}

    def subscribe_dead(self):
        if self.errors is not None:
            return self.errors.subscribe(on_next=lambda e: self.record(['dead', exn_code(e)]),
                                         on_completed=lambda: self.record(['dead_completed']))
        return None

    def route(self):
        if self.router is None:
            self.errors, route_errors = rs.error.create_error_router()
            self.router = route_errors
            if not self.defer_dead:
                self.subscribe_dead()
        return self.router()


def key_list(k):
    out = []
    while isinstance(k, tuple) and len(k) == 2 and isinstance(k[1], tuple):
        out.append(k[0])
        k = k[1]
    out.append(k[0])
    return out


def key_tuple(l):
    k = (l[-1],)
    for i in reversed(l[:-1]):
        k = (i, k)
    return k


def tap(ctx, tid):
    """pass-through MuxObservable operator recording every mux event at this boundary"""
    log = ctx.taps.setdefault(tid, [])

    def _tap(source):
        def on_subscribe(observer, scheduler):
            def on_next(i):
                t = type(i)
                if t is rs.OnNextMux:
                    log.append(['n', key_list(i.key), enc(i.item)])
                elif t is rs.OnCreateMux:
                    log.append(['c', key_list(i.key)])
                elif t is rs.OnCompletedMux:
                    log.append(['d', key_list(i.key)])
                elif t is rs.OnErrorMux:
                    log.append(['e', key_list(i.key), exn_code(i.error)])
                observer.on_next(i)

            def on_error(e):
                log.append(['fatal', exn_code(e)])
                observer.on_error(e)

            def on_completed():
                log.append(['completed'])
                observer.on_completed()
            return source.subscribe(on_next=on_next, on_error=on_error, on_completed=on_completed, scheduler=scheduler)
        return rs.MuxObservable(on_subscribe)
    return _tap


class HList(list):
    """a mutable accumulator that is HASHABLE (by identity), as instances of ordinary classes are: a value seed of this
    kind must be copied per key like any other value seed (hashable does not mean immutable)"""
    __hash__ = object.__hash__


def seed_of(node):
    """scan seed: value (deep-copied per key by rxsci), factory, or ('hvalue') a value that is a hashable mutable object"""
    v = dec(node[2])
    if len(node) > 5 and node[5] == 'factory':
        return lambda: dec(node[2])
    if len(node) > 5 and node[5] == 'hvalue' and isinstance(v, list):
        return HList(v)
    return v


def ipar(node, v):
    """an integer parameter of an operator; a node that ends with the marker 'np64' gets it as numpy.int64 (sizes
    computed with numpy are int-like but not `int`: `x is True`, `type(x) is int` and friends behave differently)"""
    if node[-1] == 'np64':
        import numpy
        return numpy.int64(v)
    return v


def build(ast, ctx, mux=True):
    """list of AST nodes -> list of rxsci operators (mux=False: same operators for a plain Observable)"""
    ops = []
    for n in ast:
        k = n[0]
        if k == 'map':
            ops.append(rs.ops.map(py_fn(n[1])))
        elif k == 'filter':
            ops.append(rs.ops.filter(py_fn(n[1])))
        elif k == 'flat_map':
            ops.append(rs.ops.flat_map())
        elif k == 'scan':
            ops.append(rs.ops.scan(py_fn2(n[1]), seed=seed_of(n), reduce=bool(n[3]),
                                   terminator=py_fn(n[4]) if n[4] else None))
        elif k == 'first':
            ops.append(rs.ops.first())
        elif k == 'last':
            ops.append(rs.ops.last())
        elif k == 'take':
            ops.append(rs.ops.take(ipar(n, n[1])))
        elif k == 'distinct':
            ops.append(rs.ops.distinct(py_fn(n[1]) if n[1] else None))
        elif k == 'lag':
            ops.append(rs.data.lag(ipar(n, n[1])))
        elif k == 'pad_start':
            ops.append(rs.data.pad_start(ipar(n, n[1]), dec(n[2])))
        elif k == 'pad_end':
            ops.append(rs.data.pad_end(ipar(n, n[1]), dec(n[2])))
        elif k == 'start_with':
            ops.append(rs.ops.start_with([dec(v) for v in n[1]]))
        elif k == 'assert':
            ops.append(rs.ops.assert_(py_fn(n[1])))
        elif k == 'assert1':
            ops.append(rs.ops.assert_1(py_fn2(n[1])))
        elif k == 'ignore':
            ops.append(rs.error.ignore())
        elif k == 'errmap':
            f = py_fn(n[1])
            ops.append(rs.error.map(lambda e, f=f: f(exn_code(e))))
        elif k == 'route':
            ops.append(ctx.route())
        elif k == 'tee':
            ops.append(rs.ops.tee_map(*[rx.pipe(*build(b, ctx, mux)) for b in n[2]], join=n[1]))
        elif k == 'group':
            ops.append(rs.ops.group_by(py_fn(n[1]), rx.pipe(*build(n[2], ctx))))
        elif k == 'roll':
            ops.append(rs.data.roll(n[1], n[2], rx.pipe(*build(n[3], ctx))))
        elif k == 'split':
            ops.append(rs.data.split(py_fn(n[1]), rx.pipe(*build(n[2], ctx))))
        elif k == 'time_split':
            ops.append(rs.data.time_split(time_mapper=py_fn(n[1]), active_timeout=n[2], inactive_timeout=n[3],
                                          closing_mapper=py_fn(n[4]) if n[4] else None,
                                          include_closing_item=bool(n[5]), pipeline=rx.pipe(*build(n[6], ctx))))
        elif k == 'count':
            ops.append(rs.ops.count(reduce=bool(n[1])))
        elif k in ('sum', 'mean', 'min', 'max', 'variance', 'stddev'):
            f = getattr(rs.math, k)
            ops.append(f(py_fn(n[1]), reduce=bool(n[2])) if n[1] else f(reduce=bool(n[2])))
        elif k in ('fvariance', 'fstddev'):
            f = getattr(rs.math.formal, k[1:])
            ops.append(f(py_fn(n[1]), reduce=bool(n[2])) if n[1] else f(reduce=bool(n[2])))
        elif k == 'to_list':
            ops.append(rs.data.to_list())
        elif k == 'to_array':
            ops.append(rs.data.to_array(n[1]))
        elif k == 'dist_update':
            # rs.math.dist.update: scan(distogram.update, seed=factory); the Distogram is snapshot at once (it is
            # the operator's own mutable state in streaming mode).  Python only: no Coq model of distogram.
            ops.append(rs.math.dist.update(bin_count=n[1], reduce=bool(n[2])))
            ops.append(rs.ops.map(lambda d: ([list(b) for b in d.bins], d.min, d.max)))
        elif k == 'dist_describe':
            # rs.math.dist.describe (the in-library user of tee_map) over the streaming update; Python only
            ops.append(rs.math.dist.update(bin_count=n[1], reduce=False))
            ops.append(rs.math.dist.describe(quantiles=list(n[2])))
            ops.append(rs.ops.map(lambda t: tuple(t)))
        elif k == 'dist_metric':
            ops.append(rs.math.dist.update(bin_count=n[1], reduce=False))
            ops.append({'min': rs.math.dist.min, 'max': rs.math.dist.max, 'mean': rs.math.dist.mean,
                        'stddev': rs.math.dist.stddev}[n[2]]() if n[2] != 'quantile' else rs.math.dist.quantile(n[3]))
        elif k == 'batch':
            ops.append(rs.data.batch(ipar(n, n[1])))
        elif k == 'duc':
            ops.append(rs.ops.distinct_until_changed(py_fn(n[1]) if n[1] else None))
        elif k == 'identity':
            ops.append(rs.ops.identity())
        elif k == 'starmap':
            ops.append(rs.ops.starmap(py_fn2(n[1])))
        elif k == 'clip':
            ops.append(rs.data.clip(dec(n[1]), dec(n[2])))
        elif k == 'fill_none':
            ops.append(rs.data.fill_none(dec(n[1])))
        elif k == 'do_action':
            ops.append(rs.ops.do_action(on_next=lambda i: None))
        elif k == 'tap':
            ops.append(tap(ctx, n[1]))
        else:
            raise ValueError(n)
    return ops


# ------------------------------------------------------------------------------------------------
# AST -> Coq (Mux/Syntax.v `op`); derived operators are expanded as rxsci defines them
# ------------------------------------------------------------------------------------------------
def sty(seed_enc, factory):
    if factory:
        return 'TObj'
    return {'i': 'TInt', 'f': 'TFloat', 'b': 'TBool'}.get(seed_enc[0], 'TObj')


def cb(b):
    return 'true' if b else 'false'


def copt(x, f):
    return 'None' if x is None else '(Some %s)' % f(x)


ID = ['id']


def coq_ops(ast):
    out = []
    for n in ast:
        k = n[0]
        km = lambda i: coq_fn(n[i] if n[i] else ID)
        if k == 'map':
            out.append('OMap %s' % coq_fn(n[1]))
        elif k == 'filter':
            out.append('OFilter %s' % coq_fn(n[1]))
        elif k == 'flat_map':
            out.append('OFlatMap')
        elif k == 'scan':
            out.append('OScan %s %s %s %s %s' % (coq_fn2(n[1]), coq_val(n[2]),
                                               sty(n[2], len(n) > 5 and n[5] == 'factory'), cb(n[3]),
                                               copt(n[4], coq_fn)))
        elif k == 'first':
            out.append('OFirst')
        elif k == 'last':
            out.append('OLast')
        elif k == 'take':
            out.append('OTake (%d)%%Z' % n[1])
        elif k == 'distinct':
            out.append('ODistinct %s' % km(1))
        elif k == 'lag':
            out.append('OLag %d%%nat' % n[1])
        elif k == 'pad_start':
            out.append('OPadStart %d%%nat %s' % (n[1], coq_val(n[2])))
        elif k == 'pad_end':
            out.append('OPadEnd %d%%nat %s' % (n[1], coq_val(n[2])))
        elif k == 'start_with':
            out.append('OStartWith [%s]' % '; '.join(coq_val(v) for v in n[1]))
        elif k == 'assert':
            out.append('OAssert %s' % coq_fn(n[1]))
        elif k == 'assert1':
            out.append('OAssert1 %s' % coq_fn2(n[1]))
        elif k == 'ignore':
            out.append('OIgnore')
        elif k == 'errmap':
            out.append('OErrMap %s' % coq_fn(n[1]))
        elif k == 'route':
            out.append('ORoute')
        elif k == 'tee':
            out.append('OTee %s [%s]' % ({'zip': 'Zip', 'merge': 'Merge', 'combine_latest': 'Combine'}[n[1]],
                                        '; '.join(coq_pipe(b) for b in n[2])))
        elif k == 'group':
            out.append('OGroup %s %s' % (coq_fn(n[1]), coq_pipe(n[2])))
        elif k == 'roll':
            out.append('ORoll %d%%nat %d%%nat %s' % (n[1], n[2], coq_pipe(n[3])))
        elif k == 'split':
            out.append('OSplit %s %s' % (coq_fn(n[1]), coq_pipe(n[2])))
        elif k == 'time_split':
            out.append('OTimeSplit %s %s %s %s %s %s' % (
                coq_fn(n[1]), copt(n[2], lambda z: '(%d)%%Z' % z), copt(n[3], lambda z: '(%d)%%Z' % z),
                copt(n[4], coq_fn), cb(n[5]), coq_pipe(n[6])))
        elif k == 'count':
            out.append('OScan A2Count (VInt 0%%Z) TInt %s None' % cb(n[1]))
        elif k == 'sum':
            out.append('OScan (A2SumAcc %s) (VFloat PrimFloat.zero) TFloat %s None' % (km(1), cb(n[2])))
        elif k == 'mean':
            out.append('OScan (A2MeanAcc %s) (VTuple [VInt 0%%Z; VInt 0%%Z]) TObj %s None' % (km(1), cb(n[2])))
            out.append('OMap FMeanOut')
        elif k in ('min', 'max'):
            out.append('OScan (%s %s) VNone TObj %s None' % ('A2MinAcc' if k == 'min' else 'A2MaxAcc', km(1), cb(n[2])))
        elif k in ('variance', 'stddev'):
            out.append('OScan (A2VarAcc %s) (VTuple [VNone; VInt 0%%Z; VInt 0%%Z]) TObj %s None' % (km(1), cb(n[2])))
            out.append('OMap FVarOut')
            if k == 'stddev':
                out.append('OMap FSqrtOpt')
        elif k == 'to_list':
            out.append('OScan A2Append (VList []) TObj true None')
        elif k == 'to_array' and n[1] in ('q', 'd'):
            out.append('OScan (A2ArrAppend %s) (VList []) TObj true None' % ('true' if n[1] == 'd' else 'false'))
        elif k == 'batch':
            out.append('OScan (A2Batch (%d)%%Z) (VTuple [VList []; VBool false]) TObj false (Some FBatchTerm)' % n[1])
            out.append('OFilter (FComp (FNth 1%nat) (FEq (VBool true)))')
            out.append('OMap (FNth 0%nat)')
        elif k == 'duc':
            out.append('OScan (A2Duc %s) (VTuple [VBool false; VNone; VNone; VBool false]) TObj false None' % km(1))
            out.append('OFilter (FComp (FNth 0%nat) FIsTrue)')
            out.append('OMap (FNth 1%nat)')
        elif k in ('identity', 'do_action'):
            out.append('OMap FId')
        elif k == 'starmap':
            out.append('OMap (FStar %s)' % coq_fn2(n[1]))
        elif k == 'clip':
            out.append('OMap (FClip %s %s)' % (coq_val(n[1]), coq_val(n[2])))
        elif k == 'fill_none':
            out.append('OMap (FFillNone %s)' % coq_val(n[1]))
        elif k == 'tap':
            pass
        else:
            raise ValueError('no Coq model for %r' % (n,))
    return out


def coq_pipe(ast):
    return '[' + '; '.join(coq_ops(ast)) + ']'


def coq_key(k):
    return '[' + ';'.join(str(i) for i in k) + ']%nat'


def coq_trace(trace):
    out = []
    for e in trace:
        if e[0] == 'c':
            out.append('Create %s' % coq_key(e[1]))
        elif e[0] == 'n':
            out.append('Next %s (It %s)' % (coq_key(e[1]), coq_val(e[2])))
        elif e[0] == 'd':
            out.append('Done %s' % coq_key(e[1]))
        elif e[0] == 'e':
            out.append('Next %s (IErr (%d)%%Z)' % (coq_key(e[1]), e[2]))
    return '[' + '; '.join(out) + ']'


def coq_oev(o):
    t = o[0]
    if t == 'c':
        return 'OC %s' % coq_key(o[1])
    if t == 'n':
        return 'ON %s %s' % (coq_key(o[1]), coq_val(o[2]))
    if t == 'd':
        return 'OD %s' % coq_key(o[1])
    if t == 'e':
        return 'OE %s (%d)%%Z' % (coq_key(o[1]), o[2])
    if t == 'fatal':
        return 'OF (%d)%%Z' % o[1]
    if t == 'dead':
        return 'ODl (%d)%%Z' % o[1]
    raise ValueError(o)


def coq_steps(steps):
    return '[' + '; '.join('[' + '; '.join(coq_oev(o) for o in st if o[0] not in ('completed', 'dead_completed')) + ']'
                           for st in steps) + ']'


MUX_PREAMBLE = ('From Coq Require Import List ZArith Bool PrimFloat.\nImport ListNotations.\n'
                'From RxVerif Require Import Base.Corr Mux.Val Mux.Sim Mux.SimExt Mux.Ops Mux.Syntax Mux.MuxCorr.\n')


MODEL_TRACE_LIMIT = 300      # longer traces (the scale families) are judged by the oracles only


def coq_muxcase(ast, trace, obs):
    if 'raised' in obs:
        return 'MCRaised'
    if len(trace) > MODEL_TRACE_LIMIT:
        return 'MCSkip'
    try:
        coq_pipe(ast)
    except ValueError:
        return 'MCSkip'
    return 'MC %s %s %s' % (coq_pipe(ast), coq_trace(trace), coq_steps(obs['steps']))


# ------------------------------------------------------------------------------------------------
# running the real code
# ------------------------------------------------------------------------------------------------
def run_mux(ast, trace, taps=False, split_at=None, mutate_emitted=False):
    """Feeds the mux event trace (['c',key] / ['n',key,encval] / ['d',key] / ['e',key,code]) one event at a
    time into cast_as_mux_observable + with_store(pipeline); returns what the subscriber (and the dead-letter
    observable) received while each event was being pushed."""
    cur = []
    ctx = Ctx(cur.append)
    sink = io.StringIO()
    with contextlib.redirect_stdout(sink):
        ops = build(ast, ctx)
        store = rs.state.StoreManager(store_factory=rs.state.MemoryStore)
        src = Subject()

        def on_next(i):
            t = type(i)
            if t is rs.OnNextMux:
                cur.append(['n', key_list(i.key), enc(i.item)])
                if mutate_emitted and type(i.item) is list:
                    # a consumer that changes what it was given in place: must not reach any operator state
                    i.item.append(99)
            elif t is rs.OnCreateMux:
                cur.append(['c', key_list(i.key)])
            elif t is rs.OnCompletedMux:
                cur.append(['d', key_list(i.key)])
            elif t is rs.OnErrorMux:
                cur.append(['e', key_list(i.key), exn_code(i.error)])
            else:
                cur.append(['?', type(i).__name__])

        if split_at is not None and 0 < split_at < len(ops):
            # two chained store scopes, each with its own store and topology
            store2 = rs.state.StoreManager(store_factory=rs.state.MemoryStore)
            piped = src.pipe(rs.cast_as_mux_observable(), rs.state.with_store(store, rx.pipe(*ops[:split_at])),
                             rs.state.with_store(store2, rx.pipe(*ops[split_at:])))
        else:
            piped = src.pipe(rs.cast_as_mux_observable(), rs.state.with_store(store, rx.pipe(*ops)))
        piped.subscribe(
            on_next=on_next, on_error=lambda e: cur.append(['fatal', exn_code(e)]),
            on_completed=lambda: cur.append(['completed']))
        steps = []
        sub = list(cur)
        del cur[:]
        tap_marks = []
        for e in trace:
            if e[0] == 'c':
                src.on_next(rs.OnCreateMux(key_tuple(e[1])))
            elif e[0] == 'n':
                src.on_next(rs.OnNextMux(key_tuple(e[1]), dec(e[2])))
            elif e[0] == 'd':
                src.on_next(rs.OnCompletedMux(key_tuple(e[1])))
            elif e[0] == 'e':
                src.on_next(rs.OnErrorMux(key_tuple(e[1]), pyval_exn(e[2])))
            steps.append(list(cur))
            del cur[:]
            if taps:
                tap_marks.append({tid: len(l) for tid, l in ctx.taps.items()})
        src.on_completed()
        final = list(cur)
    res = {'steps': steps, 'sub': sub, 'final': final}
    if taps:
        res['taps'] = {str(t): l for t, l in ctx.taps.items()}
        res['tap_marks'] = tap_marks
    return res


def run_mux_twice(ast, trace, runs=2, reapply=False):
    """ONE pipeline object (operators, store manager, piped observable, error router built once) subscribed
    `runs` times in sequence to a cold source that replays the trace; every subscription (and every subscription
    of the dead-letter observable) must behave like the first.  Returns [{'steps', 'final'}] per run.
    reapply=True: the operator VALUES are built once (rs.ops.tee_map(...), rs.ops.scan(...), ...) and applied to a
    new source and a new store for every run - operators are functions from observable to observable and a stored
    operator value can be used in more than one pipeline."""
    box = {'cur': []}
    ctx = Ctx(lambda x: box['cur'].append(x), defer_dead=True)
    sink = io.StringIO()
    out = []
    with contextlib.redirect_stdout(sink):
        ops = build(ast, ctx)
        store = rs.state.StoreManager(store_factory=rs.state.MemoryStore)
        stepbox = {'steps': []}

        def source(observer, scheduler):
            for e in trace:
                if e[0] == 'c':
                    observer.on_next(rs.OnCreateMux(key_tuple(e[1])))
                elif e[0] == 'n':
                    observer.on_next(rs.OnNextMux(key_tuple(e[1]), dec(e[2])))
                elif e[0] == 'd':
                    observer.on_next(rs.OnCompletedMux(key_tuple(e[1])))
                elif e[0] == 'e':
                    observer.on_next(rs.OnErrorMux(key_tuple(e[1]), pyval_exn(e[2])))
                stepbox['steps'].append(list(box['cur']))
                del box['cur'][:]
            observer.on_completed()

        def on_next(i):
            t = type(i)
            cur = box['cur']
            if t is rs.OnNextMux:
                cur.append(['n', key_list(i.key), enc(i.item)])
            elif t is rs.OnCreateMux:
                cur.append(['c', key_list(i.key)])
            elif t is rs.OnCompletedMux:
                cur.append(['d', key_list(i.key)])
            elif t is rs.OnErrorMux:
                cur.append(['e', key_list(i.key), exn_code(i.error)])
            else:
                cur.append(['?', type(i).__name__])

        piped = rx.create(source).pipe(rs.cast_as_mux_observable(), rs.state.with_store(store, rx.pipe(*ops)))
        for _ in range(runs):
            if reapply:
                store = rs.state.StoreManager(store_factory=rs.state.MemoryStore)
                piped = rx.create(source).pipe(rs.cast_as_mux_observable(), rs.state.with_store(store, rx.pipe(*ops)))
            box['cur'] = []
            stepbox['steps'] = []
            d = ctx.subscribe_dead()
            piped.subscribe(on_next=on_next, on_error=lambda e: box['cur'].append(['fatal', exn_code(e)]),
                            on_completed=lambda: box['cur'].append(['completed']))
            out.append({'steps': stepbox['steps'], 'final': list(box['cur'])})
            if d is not None:
                d.dispose()
    return out


def run_mux_plain_source(ast, items, entry='memory_store'):
    """The public entry points: a PLAIN source of items through rs.state.with_memory_store(pipeline) (or
    rs.ops.multiplex(pipeline) for stateless pipelines); what the subscriber receives is converted to the same
    per-step format as run_mux on the trace Create (0,), items..., Completed (0,), so that the same Coq case applies."""
    cur = []
    ctx = Ctx(cur.append)
    sink = io.StringIO()
    with contextlib.redirect_stdout(sink):
        ops = build(ast, ctx)
        src = Subject()
        wrapper = rs.state.with_memory_store(rx.pipe(*ops)) if entry == 'memory_store' else rs.ops.multiplex(rx.pipe(*ops))
        src.pipe(wrapper).subscribe(on_next=lambda i: cur.append(['n', [0], enc(i)]),
                                    on_error=lambda e: cur.append(['fatal', exn_code(e)]),
                                    on_completed=lambda: cur.append(['completed']))
        steps = [[['c', [0]]] + list(cur)]
        del cur[:]
        for x in items:
            src.on_next(dec(x))
            steps.append(list(cur))
            del cur[:]
        src.on_completed()
        last = [o for o in cur if o[0] != 'completed']
        if not any(o[0] == 'fatal' for st in steps for o in st) and not any(o[0] == 'fatal' for o in last):
            last.append(['d', [0]])
        steps.append(last)
        final = [o for o in cur if o[0] == 'completed']
    return {'steps': steps, 'sub': [], 'final': final}


def pyval_exn(code):
    from harness.pyval import EXN_CLS
    return EXN_CLS.get(code, RuntimeError)('injected')


def run_plain(ast, items):
    """the same operators on a plain Observable; items are encoded values"""
    cur = []
    ctx = Ctx(cur.append)
    sink = io.StringIO()
    out = {'items': [], 'end': 'none', 'steps': []}
    with contextlib.redirect_stdout(sink):
        ops = build(ast, ctx, mux=False)
        src = Subject()

        def on_error(e):
            if out['end'] == 'none':
                out['end'] = 'error:' + type(e).__name__

        def on_completed():
            if out['end'] == 'none':
                out['end'] = 'completed'
        src.pipe(*ops).subscribe(on_next=lambda i: cur.append(enc(i)), on_error=on_error, on_completed=on_completed)
        out['sub'] = list(cur)
        del cur[:]
        for x in items:
            src.on_next(dec(x))
            out['steps'].append(list(cur))
            del cur[:]
        src.on_completed()
        out['final'] = list(cur)
    out['items'] = out['sub'] + [x for st in out['steps'] for x in st] + out['final']
    return out


def run_plain_twice(ast, items):
    """one piped plain observable (cold source), subscribed twice: [items of 1st subscription, items of 2nd]"""
    ctx = Ctx(lambda x: None)
    sink = io.StringIO()
    outs = []
    with contextlib.redirect_stdout(sink):
        obs = rx.from_([dec(x) for x in items]).pipe(*build(ast, ctx, mux=False))
        for _ in range(2):
            cur = []
            obs.subscribe(on_next=lambda i, cur=cur: cur.append(enc(i)), on_error=lambda e, cur=cur: cur.append(['x', exn_code(e)]))
            outs.append(cur)
    return outs
