"""Runs registered checks against a BEHAVIOUR-PRESERVING refactoring of /repo (refactors/<name>/patch.diff) in a scratch
worktree: every check must exit 0 (a VIOLATION here would be a false alarm of the check - or a refactoring that is not
harmless after all; both are worth knowing).

  python3 harness/reftest.py <name> Cxx [Cyy ...]
"""
import json
import os
import shutil
import subprocess
import sys
import time

VERIF = os.path.dirname(os.path.dirname(os.path.abspath(__file__)))


def sh(cmd, cwd=None, env=None, timeout=3000):
    e = dict(os.environ)
    e.update(env or {})
    r = subprocess.run(cmd, shell=True, cwd=cwd, env=e, stdout=subprocess.PIPE, stderr=subprocess.STDOUT, text=True, timeout=timeout)
    return r.returncode, r.stdout


def main():
    name, pids = sys.argv[1], sys.argv[2:]
    dst = os.path.join(VERIF, 'refactors', name)
    meta = json.load(open(os.path.join(dst, 'meta.json')))
    repo = '/tmp/refrun_%d' % os.getpid()
    sh('git -C /repo worktree remove --force %s' % repo)
    shutil.rmtree(repo, ignore_errors=True)
    rc, out = sh('git -C /repo worktree add --detach %s HEAD' % repo)
    assert rc == 0, out
    rc, out = sh('git -C %s apply %s' % (repo, os.path.join(dst, 'patch.diff')))
    assert rc == 0, out
    res = meta.setdefault('checks', {})
    try:
        for pid in pids:
            t0 = time.time()
            rc, out = sh('./check %s --tier quick --no-proof' % pid, cwd=VERIF, env={'VERIF_REPO': repo})
            vio = [l for l in out.split('\n') if l.startswith('VIOLATION')]
            res[pid] = {'exit': rc, 'violation': vio[0] if vio else None, 'wall_s': round(time.time() - t0, 1)}
            print(name, pid, res[pid])
    finally:
        sh('git -C /repo worktree remove --force %s' % repo)
        shutil.rmtree(repo, ignore_errors=True)
    meta['repo_head'] = sh('git -C /repo rev-parse --short HEAD')[1].strip()
    json.dump(meta, open(os.path.join(dst, 'meta.json'), 'w'), indent=1)


if __name__ == '__main__':
    main()
