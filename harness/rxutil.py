"""Driving rxsci operators synchronously and recording what is emitted at which input position."""
import rx
from rx.subject import Subject


def run_timed(op, inputs, end='completed'):
    """Pushes `inputs` one by one through `op` (an Observable -> Observable function).
    Returns {'steps': [[outputs emitted while input i was pushed] ...], 'sub': [emitted at subscription],
             'final': [emitted at completion], 'end': 'completed' | 'error:<Class>' | 'none'}."""
    src = Subject()
    cur = []
    ending = ['none']

    def on_next(x):
        cur.append(x)

    def on_error(e):
        if ending[0] == 'none':
            ending[0] = 'error:' + type(e).__name__

    def on_completed():
        if ending[0] == 'none':
            ending[0] = 'completed'

    res = {'steps': [], 'sub': None, 'final': None, 'end': None, 'end_at': None}
    op(src).subscribe(on_next=on_next, on_error=on_error, on_completed=on_completed)
    res['sub'], cur = cur, []
    for i, x in enumerate(inputs):
        if ending[0] != 'none' and res['end_at'] is None:
            res['end_at'] = i
        src.on_next(x)
        res['steps'].append(cur)
        cur = []
    if res['end_at'] is None and ending[0] != 'none':
        res['end_at'] = len(inputs)
    if end == 'completed':
        src.on_completed()
    elif end is not None:
        src.on_error(end)
    res['final'] = cur
    res['end'] = ending[0]
    return res
