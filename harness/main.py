"""./check <Cxx> [--tier quick|thorough] [--seed N] [--replay file]

Stages (DESIGN.md s.3): proof stage, correspondence stage, known findings, search stage (only when the
proof or the correspondence broke), evidence.  Exit 0 = property held on everything explored;
exit 1 + `VIOLATION property=<id> replay=<path>` otherwise."""
import argparse
import glob
import importlib
import json
import os
import random
import sys
import time
import traceback

from harness import core


class CaseTimeout(BaseException):
    """raised by the watchdog inside the code under test; a BaseException so that the `except Exception` blocks of
    the code under test cannot swallow it"""


CASE_LIMIT_S = int(os.environ.get('VERIF_CASE_LIMIT_S', '600'))
_timeouts = [0]   # per case; the slowest legitimate case takes seconds


def with_watchdog(fn, *args):
    """A change that makes an operator loop forever on some input must end in a VIOLATION line, not in a check
    that never returns: every run of the implementation (and every oracle, which may run it again) is bounded."""
    import signal

    def on_alarm(signum, frame):
        raise CaseTimeout()
    old = signal.signal(signal.SIGALRM, on_alarm)
    # once one case has run into the limit the verdict is settled; the remaining cases get a short limit so that a
    # change that hangs on many inputs does not make the check run for hours
    signal.setitimer(signal.ITIMER_REAL, CASE_LIMIT_S if not _timeouts[0] else min(CASE_LIMIT_S, 30))
    try:
        return fn(*args)
    except CaseTimeout:
        _timeouts[0] += 1
        raise
    finally:
        signal.setitimer(signal.ITIMER_REAL, 0)
        signal.signal(signal.SIGALRM, old)


def safe_run(mod, case):
    try:
        return with_watchdog(mod.run_impl, case)
    except CaseTimeout:
        return {'raised': 'Timeout', 'timeout': True,
                'msg': 'the implementation did not finish this case within %d s' % CASE_LIMIT_S, 'tb': []}
    except Exception as e:  # the implementation raised to the caller: an observation like any other
        return {'raised': type(e).__name__, 'msg': str(e)[:200],
                'tb': traceback.format_exc().strip().split('\n')[-3:]}


def safe_oracle(mod, case, obs):
    if isinstance(obs, dict) and obs.get('timeout'):
        return {'sig': 'does-not-terminate', 'what': obs['msg']}
    if isinstance(obs, dict) and 'raised' in obs and getattr(mod, 'RAISED_IS_FAILURE', False):
        # the pipeline let an exception escape to the code that pushes items into it: no output-based judgement
        # is possible and none of the modelled behaviours does that
        return {'sig': 'raised-to-caller:%s' % obs['raised'],
                'what': 'an exception escaped to the caller: %s: %s (%s)' % (
                    obs['raised'], obs.get('msg', ''), ' | '.join(obs.get('tb', [])[-2:])[:200])}
    def judge():
        f = mod.oracle(case, obs)
        if f is None and getattr(mod, 'RAISED_IS_FAILURE', False):
            from harness import muxprop
            f = muxprop.hostile_environment_failure(case, obs)
        return f
    try:
        return with_watchdog(judge)
    except CaseTimeout:
        return {'sig': 'does-not-terminate', 'what': 'a further run of the implementation on this case (re-subscription, '
                're-application, composition or reference run of the oracle) did not finish within %d s' % CASE_LIMIT_S}
    except Exception as e:   # an oracle that cannot judge an observation must not pass silently
        return {'sig': 'oracle-crashed', 'what': 'the oracle could not evaluate this observation: %s: %s' % (
            type(e).__name__, str(e)[:200])}


def match_known(known, fail):
    for k in known:
        if k.get('status') == 'known' and k.get('signature') == fail.get('sig'):
            return k
    return None


def main():
    ap = argparse.ArgumentParser()
    ap.add_argument('pid')
    ap.add_argument('--tier', default=os.environ.get('VERIF_TIER', 'quick'))
    ap.add_argument('--seed', type=int, default=int(os.environ.get('VERIF_SEED', '0') or 0))
    ap.add_argument('--replay')
    ap.add_argument('--no-proof', action='store_true', help='debug: skip the proof stage')
    a = ap.parse_args()
    pid, tier = a.pid, ('thorough' if a.tier == 'thorough' else 'quick')
    t0 = time.time()
    linecov = core.start_line_coverage() if not a.replay else None   # before rxsci is imported
    mod = importlib.import_module('harness.props.' + pid)
    core.workdir(pid)
    known = core.load_known(pid)
    rng = random.Random('%s-%d-%s' % (pid, a.seed, tier))

    # ---- replay mode: one stored case against the current tree ---------------------------------
    if a.replay:
        rp = json.load(open(a.replay))
        case = rp.get('case')
        if case is None:
            core.log('replay file names a broken obligation, not an input: ' + str(rp.get('broken')))
            pr = core.proof_stage(pid)
            core.log('proof stage now: ' + ('ok' if pr['ok'] else 'BROKEN ' + '; '.join(pr['errors'])))
            sys.exit(0 if pr['ok'] else 1)
        obs = safe_run(mod, case)
        fail = safe_oracle(mod, case, obs)
        core.coq_build(' '.join(getattr(mod, 'COQ_TARGETS', ['models'])))
        bad, nbad, errs = core.run_shards(pid, mod.coq_preamble(), mod.CTYPE, mod.CHECKER,
                                          [mod.coq_term(case, obs)])
        core.log('case: %s' % json.dumps(case, default=repr)[:2000])
        core.log('implementation: %s' % json.dumps(obs, default=repr)[:2000])
        core.log('oracle: %s' % (fail or 'holds'))
        core.log('model agrees: %s %s' % (not bad and not errs, errs[:1]))
        if fail and not match_known(known, fail):
            print('VIOLATION property=%s replay=%s' % (pid, a.replay))
            sys.exit(1)
        if bad or errs:
            print('VIOLATION property=%s replay=%s no-failing-input-found' % (pid, a.replay))
            sys.exit(1)
        sys.exit(0)

    # ---- 1. proof stage ------------------------------------------------------------------------
    if a.no_proof:
        pr = {'ok': True, 'obligations': 0, 'discharged': 0, 'theorems': [], 'axioms': [], 'errors': []}
    else:
        pr = core.proof_stage(pid, thorough=(tier == 'thorough'))
    core.log('[%s] proof stage: %d/%d theorems, axioms=%s %s' % (
        pid, pr['discharged'], pr['obligations'], pr['axioms'] or 'none (closed under the global context)',
        'OK' if pr['ok'] else 'BROKEN: ' + ' | '.join(pr['errors'])))

    # ---- 2. correspondence stage ---------------------------------------------------------------
    cases = []
    for fn in sorted(glob.glob(os.path.join(core.VERIF, 'corpus', pid, '*.json'))):
        try:
            c = json.load(open(fn))
            c['_corpus'] = os.path.basename(fn)
            cases.append(c)
        except Exception as e:
            core.log('bad corpus file %s: %s' % (fn, e))
    n_corpus = len(cases)
    cases += mod.generate(rng, tier)
    obs = [safe_run(mod, c) for c in cases]
    t_impl = time.time() - t0
    fails = []
    for i, (c, o) in enumerate(zip(cases, obs)):
        f = safe_oracle(mod, c, o)
        if f:
            f['index'] = i
            fails.append(f)
    line_coverage = core.stop_line_coverage(linecov, pid)
    corr_errors, bad, nbad = [], set(), 0
    # the model files are separate from the proof files: they still build when a proof broke
    ok, blog = core.coq_build(' '.join(getattr(mod, 'COQ_TARGETS', ['models'])))
    if not ok:
        corr_errors.append('model files do not build; correspondence not evaluated:\n' + blog[-1500:])
    if not corr_errors:
        # an observation that cannot even be written as a term of the model's language (e.g. an object that is not
        # a mux event reached the subscriber) is a disagreement, never a crash of the check
        terms, where, unprintable = [], [], []
        for ci, (c, o) in enumerate(zip(cases, obs)):
            try:
                terms.append(mod.coq_term(c, o))
                where.append(ci)
            except Exception as e:
                unprintable.append((ci, '%s: %s' % (type(e).__name__, str(e)[:120])))
        bad_sh, nbad, corr_errors = core.run_shards(pid, mod.coq_preamble(), mod.CTYPE, mod.CHECKER, terms,
                                                    shard=getattr(mod, 'SHARD', 300))
        bad = set(where[j] for j in bad_sh) | set(ci for ci, _ in unprintable)
        nbad += len(unprintable)
    core.log('[%s] correspondence: %d cases (%d corpus), %d disagreements, %d evaluation errors; '
             'oracle failures: %d' % (pid, len(cases), n_corpus, nbad, len(corr_errors), len(fails)))

    # ---- 3. known findings ---------------------------------------------------------------------
    new_fails, known_hit = [], {}
    for f in fails:
        k = match_known(known, f)
        if k:
            known_hit.setdefault(k['signature'], (k, f))
        else:
            new_fails.append(f)
    for sig, (k, f) in sorted(known_hit.items()):
        print('KNOWN-FINDING: property=%s %s' % (pid, k.get('what', sig)))

    # ---- 4. search stage (only when something broke and no failing input is at hand) -----------
    searched = 0
    broken = (not pr['ok']) or bool(bad) or bool(corr_errors)
    if broken and not new_fails:
        srng = random.Random('%s-search-%d' % (pid, a.seed))
        seeds = [cases[i] for i in sorted(bad)[:20]]
        budget = time.time() + (600 if tier == 'thorough' else 90)
        pool = []
        if hasattr(mod, 'neighbours'):
            for c in seeds:
                pool += mod.neighbours(c, srng)
        rounds = 0
        while time.time() < budget and not new_fails and rounds < 40:
            if not pool:
                pool = mod.generate(random.Random(srng.random()), 'search')
                rounds += 1
            c = pool.pop()
            o = safe_run(mod, c)
            searched += 1
            f = safe_oracle(mod, c, o)
            if f and not match_known(known, f):
                f['index'] = len(cases)
                cases.append(c)
                obs.append(o)
                new_fails.append(f)
        core.log('[%s] search stage: %d further inputs tried, failing input %s' % (
            pid, searched, 'FOUND' if new_fails else 'not found'))

    # ---- 5. verdict, replay, evidence ----------------------------------------------------------
    violation, replay = False, None
    if new_fails:
        f = min(new_fails, key=lambda f: len(json.dumps(cases[f['index']], default=repr)))
        i = f['index']
        model_says = None
        if hasattr(mod, 'coq_model_expr'):
            try:
                model_says = core.coq_eval(pid, mod.coq_preamble(), mod.coq_model_expr(cases[i]))
            except Exception as e:
                model_says = 'n/a: %s' % e
        replay = core.write_replay(pid, {
            'property': pid, 'kind': 'failing-input', 'case': cases[i], 'implementation': obs[i],
            'oracle': {k: v for k, v in f.items() if k != 'index'}, 'model': model_says,
            'n_failing_inputs_this_run': len(new_fails),
            'correspondence_disagreements': nbad, 'proof_stage': pr['errors']})
        print('VIOLATION property=%s replay=%s' % (pid, replay))
        violation = True
    elif broken:
        first = sorted(bad)[:3]
        model_says = None
        if first and hasattr(mod, 'coq_model_expr'):
            model_says = core.coq_eval(pid, mod.coq_preamble(), mod.coq_model_expr(cases[first[0]]))
        replay = core.write_replay(pid, {
            'property': pid, 'kind': 'broken-obligation',
            'broken': {'theorems': pr['errors'], 'correspondence_cases': len(bad),
                       'evaluation_errors': corr_errors[:3]},
            'case': cases[first[0]] if first else None,
            'implementation': obs[first[0]] if first else None, 'model': model_says,
            'further_inputs_searched': searched})
        print('VIOLATION property=%s replay=%s no-failing-input-found' % (pid, replay))
        violation = True

    nontriv = set()
    for c, o in zip(cases, obs):
        try:
            if mod.nontrivial(c, o):
                nontriv.add(json.dumps(c, sort_keys=True, default=repr))
        except Exception:
            pass
    samples = []
    for c, o in list(zip(cases, obs))[n_corpus:n_corpus + 3]:
        samples.append({'case': c, 'implementation': o})
    cov = {
        'obligations': pr['obligations'], 'discharged': pr['discharged'],
        'checker_cmd': 'cd /verif/coq && bash build.sh props/%s.vo && coqc -Q theories RxVerif -Q props RxProps props/%s.v'
                       % (pid, pid) + ('  &&  coqchk -o RxProps.%s' % pid if tier == 'thorough' else ''),
        'trusted_base': getattr(mod, 'TRUSTED', []) + [
            'Coq 8.16.1 kernel and VM (vm_compute); no native_compute; no extraction',
            'axioms reported by Print Assumptions: %s' % (', '.join(pr['axioms']) or 'none'),
            'correspondence harness (generators, canonicaliser, Coq term printer), CPython 3.12, RxPY 3.2.0'],
        'theorems': pr['theorems'], 'print_assumptions_closed': pr.get('closed'),
        'coqchk': pr.get('coqchk', 'thorough tier only'),
        'evaluations': len(cases) + searched, 'distinct_nontrivial': len(nontriv),
        'rule': getattr(mod, 'RULE', ''),
        'traces_validated_against_impl': len(cases), 'correspondence_disagreements': nbad,
        'correspondence_evaluation_errors': len(corr_errors),
        'oracle_failures': len(fails), 'known_findings_reproduced': sorted(known_hit),
        'corpus_cases': n_corpus, 'search_inputs': searched,
        'distribution': mod.describe(cases, obs) if hasattr(mod, 'describe') else {},
        'samples': samples, 'repo_head': core.git_head(core.REPO), 'verif_head': core.git_head(core.VERIF),
        'replay': replay,
    }
    if line_coverage:
        # which lines of the files the property is anchored in were executed by this run's inputs
        cov['implementation_line_coverage'] = line_coverage
    if hasattr(mod, 'extra_coverage'):
        cov.update(mod.extra_coverage())
    core.write_evidence(pid, tier, a.seed, cov, getattr(mod, 'ASSUMPTIONS', []), time.time() - t0,
                        1 if violation else 0, debug=a.no_proof)
    core.log('[%s] %s in %.1fs (impl %.1fs)' % (pid, 'VIOLATION' if violation else 'ok', time.time() - t0, t_impl))
    sys.exit(1 if violation else 0)


if __name__ == '__main__':
    main()
