#!/bin/bash
# Regenerates every evidence file from a full quick check of /repo's clean working tree and validates the
# evidence files and the manifest against their schemas.  Usage: bash harness/finalize.sh
cd /verif || exit 2
if [ -n "$(git -C /repo status --porcelain)" ]; then echo "/repo is not clean"; git -C /repo status --porcelain; exit 2; fi
python3 harness/gen_manifest.py > /dev/null || exit 2
fail=0
for p in C01 C02 C03 C04 C05 C06 C07 C08 C09 C10 C11 C12 C13 C14 C15 C16 C17 C18 C19 C20; do
  t0=$(date +%s)
  out=$(./check $p --tier quick 2>&1); rc=$?
  echo "$p rc=$rc $(( $(date +%s) - t0 ))s $(echo "$out" | grep -E 'VIOLATION|KNOWN-FINDING' | head -2 | tr '\n' ' ')"
  [ $rc -ne 0 ] && fail=1
done
python3-vt - <<'PY' || fail=1
import json, jsonschema, glob, sys
es = json.load(open('/root/.vp/EVIDENCE.schema.json')); ok = True
for f in sorted(glob.glob('/verif/evidence/C*.json')):
    try:
        e = json.load(open(f)); jsonschema.validate(e, es)
        c = e['coverage']
        assert c['obligations'] >= 1 and c['obligations'] == c['discharged'], (f, c['obligations'], c['discharged'])
    except Exception as ex:
        ok = False; print('EVIDENCE PROBLEM', f, str(ex)[:200])
jsonschema.validate(json.load(open('/verif/MANIFEST.json')), json.load(open('/root/.vp/MANIFEST.schema.json')))
print('evidence and manifest valid' if ok else 'evidence problems')
sys.exit(0 if ok else 1)
PY
exit $fail
