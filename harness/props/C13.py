"""C13 - item-level errors on multiplexed streams are isolated and routable."""
import json
from harness import muxlib, muxgen, muxprop
from harness.muxprop import *  # noqa: F401,F403
from harness.pyval import enc, dec

PID = 'C13'
RULE = ('op in {map, starmap, filter, scan} whose user function raises on a chosen subset of the items (first, last, '
        'consecutive, all, random), followed by one of {ignore, error.map, error router, nothing}, optionally followed by '
        'further (stateful) operators and optionally inside group_by/roll inner pipelines; 1-4 interleaved keys; exception classes of every kind (TypeError ... RecursionError, MemoryError, KeyError, AssertionError, StopIteration); a scale family with more than a thousand failing items through each handler; the same pipeline object, error router and dead-letter observable are also subscribed a second and third time and must behave as the first time. Oracle: the '
        'same pipeline with the NON-raising function on the trace from which the failing items were removed (ignore / '
        'router), with the mapped item in place (error.map), the exceptions in order on the dead-letter observable '
        'which completes with the stream (router), on_error at the failing step (no handler); exactly one mux error per '
        'failing item at the operator output. non-trivial = >= 1 failing and >= 1 passing item in a key; distinct = JSON')
ASSUMPTIONS = ['the raising function is the user function of map/starmap/filter/scan (their try blocks)']


def gen_core(r):
    """(node with raising function, node with the same function not raising, item type out)"""
    bad = ['comp', ['mod', r.randint(2, 4)], ['eq', enc(r.randint(0, 1))]] if r.random() < 0.7 else \
        r.choice([['gt', enc(r.randint(3, 9))], ['lt', enc(r.randint(0, 4))], ['const', enc(True)]])
    # exception classes of every kind a user function may raise (the model treats the class as an opaque code)
    code = r.choice([1, 2, 3, 4, 1, 2, 6, 7, 8, 10, 12, 13, 13])
    k = r.choice(['map', 'filter', 'scan', 'scan', 'map'])
    if k == 'map':
        f = r.choice([['add', enc(1)], ['mul', enc(3)], ['id']])
        return ['map', ['comp', ['raiseif', bad, code], f]], ['map', f], bad, code
    if k == 'filter':
        p = r.choice([['isodd'], ['gt', enc(2)], ['const', enc(True)]])
        return ['filter', ['comp', ['raiseif', bad, code], p]], ['filter', p], bad, code
    a = r.choice([['add'], ['max'], ['count']])
    red = int(r.random() < 0.3)
    return ['scan', ['raiseif', bad, code, a], enc(0), red, None], ['scan', a, enc(0), red, None], bad, code


def generate(rng, tier):
    n = {'quick': 500, 'thorough': 10000, 'search': 300}[tier]
    cases = []
    for _ in range(n):
        raising, clean, bad, code = gen_core(rng)
        handler = rng.choice(['ignore', 'errmap', 'route', 'none', 'ignore', 'route'])
        g = muxgen.Gen(rng, heads=rng.random() < 0.3, tees=False, max_depth=2)
        post = g.pipe(muxgen.INT, 1, rng.choice([0, 0, 1, 2]))[0] if handler != 'none' and raising[0] != 'scan' or handler in ('ignore', 'route') else []
        if handler == 'none':
            post = []          # the oracle checks the mux error at the operator's own output
        if handler == 'errmap' and rng.random() < 0.5:
            post = []
        pre = [rng.choice([['map', ['add', enc(1)]], ['identity'], ['scan', ['add'], enc(0), 0, None]])] if rng.random() < 0.3 else []
        h = {'ignore': [['ignore']], 'errmap': [['errmap', ['mul', enc(-1)]]], 'route': [['route']], 'none': []}[handler]
        ctx = rng.choice(['top', 'top', 'top', 'group', 'roll'])
        core_r, core_c = pre + [raising] + h + post, pre + [clean] + post
        if ctx == 'group':
            ast, ast_c = [['group', ['mod', 2], core_r]], [['group', ['mod', 2], core_c]]
        elif ctx == 'roll':
            w, s = rng.randint(1, 3), rng.randint(1, 3)
            ast, ast_c = [['roll', w, s, core_r]], [['roll', w, s, core_c]]
        else:
            ast, ast_c = core_r, core_c
        trace = muxgen.gen_trace(rng, muxgen.INT)
        if rng.random() < 0.15 and handler in ('ignore', 'route'):
            # the mapped function legitimately returns None for some items (None items pass through `id`)
            bad, code = ['eq', enc(rng.randint(0, 5))], rng.choice([1, 2])
            raising, clean = ['map', ['comp', ['raiseif', bad, code], ['id']]], ['map', ['id']]
            post = rng.choice([[], [['count', 0]], [['to_list']], [['lag', 1]]])
            pre, ctx = [], 'top'
            h = {'ignore': [['ignore']], 'route': [['route']]}[handler]
            ast, ast_c = [raising] + h + post, [clean] + post
            trace = [(['n', e[1], enc(None)] if e[0] == 'n' and rng.random() < 0.35 else e) for e in trace]
        cases.append({'ast': ast, 'clean': ast_c, 'pre': pre, 'head': pre + [raising] + h, 'post': post, 'bad': bad, 'code': code, 'handler': handler, 'ctx': ctx,
                      'trace': trace, 'simple': ctx == 'top' and not pre})
    for si in range({'quick': 8, 'thorough': 150, 'search': 2}[tier]):
        # scale: more than a thousand failing items through one handler, on one or two long keys or hundreds of keys
        raising, clean, bad, code = gen_core(rng)
        bad = rng.choice([['const', enc(True)], ['comp', ['mod', 2], ['eq', enc(1)]], bad])
        if raising[0] == 'scan':
            raising[1][1] = bad
        else:
            raising[1][1][1] = bad
        handler = ['errmap', 'ignore', 'route', 'none'][si % 4]
        h = {'ignore': [['ignore']], 'errmap': [['errmap', ['mul', enc(-1)]]], 'route': [['route']], 'none': []}[handler]
        post = [] if handler in ('none', 'errmap') else rng.choice([[], [['count', 0]]])
        trace = muxgen.gen_trace_scale(rng, rng.choice(['long', 'long2', 'long2', 'many']))
        from harness.pyval import py_fn as _pf
        nfail = sum(1 for e in trace if e[0] == 'n' and _pf(bad)(dec(e[2])))
        if nfail < 1100:
            k0 = trace[0][1]
            extra = [['n', k0, enc(i % 7)] for i in range(2600)]
            dpos = next(i for i, e in enumerate(trace) if e[0] == 'd' and e[1] == k0)
            trace = trace[:dpos] + extra + trace[dpos:]
        cases.append({'ast': [raising] + h + post, 'clean': [clean] + post, 'pre': [], 'head': [raising] + h, 'post': post, 'bad': bad,
                      'code': code, 'handler': handler, 'ctx': 'top', 'trace': trace, 'simple': True, 'scale': True})
    return cases


def run_impl(case):
    from harness.pyval import py_fn
    obs = muxlib.run_mux(case['ast'], case['trace'])
    if case['simple'] and case['handler'] in ('ignore', 'route'):
        bad = py_fn(case['bad'])
        t2 = [e for e in case['trace'] if not (e[0] == 'n' and bad(dec(e[2])))]
        obs['kept'] = [i for i, e in enumerate(case['trace']) if not (e[0] == 'n' and bad(dec(e[2])))]
        obs['ref'] = muxlib.run_mux(case['clean'], t2)['steps']
    if case['simple'] and case['handler'] == 'errmap' and case['post']:
        # sequential composition: (head ; post) on t  must equal  post on (what head emits on t), step by step
        a = muxlib.run_mux(case['head'], case['trace'])['steps']
        obs['stageA'] = a
        t2, owner = [], []
        for i, st in enumerate(a):
            for o in st:
                if o[0] in ('c', 'n', 'd'):
                    t2.append(o)
                    owner.append(i)
        b = muxlib.run_mux(case['post'], t2)['steps']
        comp = [[] for _ in a]
        for j, st in enumerate(b):
            comp[owner[j]] += st
        obs['composed'] = comp
    if len(case['trace']) % 2 == 0:
        # the same pipeline, error router and dead-letter observable subscribed a second and a third time
        from harness import muxprop
        obs['resub'] = muxprop.resubscription_mismatch(case['ast'], case['trace'], runs=3)
    return obs


def oracle(case, obs):
    if 'raised' in obs:
        return {'sig': 'errors:raised', 'what': 'an exception escaped to the caller: %s' % obs['raised']}
    from harness.pyval import py_fn
    if obs.get('resub'):
        return {'sig': 'errors:re-subscription', 'what': obs['resub']}
    bad = py_fn(case['bad'])
    steps = obs['steps']
    if case['ctx'] == 'group' and case['handler'] == 'none' and not case['pre'] and not case.get('scale'):
        # last sentence of C13: no handler inside the group, so the mux error is unhandled where group_by
        # demultiplexes its inner stream: on_error there, at the first failing item; it never travels on as a mux
        # error of the outer key and nothing is emitted after it
        failing = [i for i, e in enumerate(case['trace']) if e[0] == 'n' and bad(dec(e[2]))]
        leaked = [i for i, st in enumerate(steps) if any(o[0] == 'e' for o in st)]
        if leaked:
            return {'sig': 'errors:unhandled-left-the-group', 'what': 'no handler inside the group_by: events %s left it as '
                    'mux errors (%s) instead of on_error where the group is demultiplexed' % (leaked[:5], json.dumps(steps[leaked[0]])[:120])}
        if failing:
            i0 = failing[0]
            fat = [o for o in steps[i0] if o[0] == 'fatal']
            if len(fat) != 1 or fat[0][1] != case['code']:
                return {'sig': 'errors:unhandled-on-error', 'what': 'no handler inside the group_by: first failing event %d emitted '
                        '%s, expected on_error with code %d' % (i0, json.dumps(steps[i0])[:160], case['code'])}
            late = [i for i in range(i0 + 1, len(steps)) if steps[i]]
            if late:
                return {'sig': 'errors:after-on-error', 'what': 'events %s emitted after on_error' % late[:5]}
        return None
    if not case['simple']:
        return None
    failing = [i for i, e in enumerate(case['trace']) if e[0] == 'n' and bad(dec(e[2]))]
    h = case['handler']
    if h == 'none':
        # an unhandled mux error at the end of the pipeline: one OnErrorMux per failing item, at its position
        for i in failing:
            errs = [o for o in steps[i] if o[0] == 'e']
            if len(errs) != 1 or errs[0][2] != case['code'] or errs[0][1] != case['trace'][i][1]:
                return {'sig': 'errors:one-mux-error', 'what': 'failing item at event %d: mux errors emitted %s, expected exactly '
                        'one with code %d for key %s' % (i, errs, case['code'], case['trace'][i][1])}
        others = [i for i in range(len(steps)) if i not in failing and any(o[0] in ('e', 'fatal') for o in steps[i])]
        if others:
            return {'sig': 'errors:spurious', 'what': 'error events at non-failing positions %s' % others[:5]}
        return None
    if h == 'errmap' and case['post']:
        if muxprop.has_fatal(obs['stageA']) or any(o[0] == 'e' for st in obs['stageA'] for o in st):
            return None
        for i, (got, want) in enumerate(zip(steps, obs['composed'])):
            if got != want:
                return {'sig': 'errors:map-composition', 'what': 'error.map followed by %s: event %d emitted %s, but feeding what '
                        'the handler emits into the same operators gives %s' % (json.dumps(case['post'])[:100], i,
                                                                               json.dumps(got)[:160], json.dumps(want)[:160])}
        return None
    if h == 'errmap':
        for i in failing:
            want = [['n', case['trace'][i][1], enc(-case['code'])]]
            if steps[i] != want:
                return {'sig': 'errors:map', 'what': 'error.map at failing event %d: emitted %s, expected the mapped item in '
                        'place %s' % (i, json.dumps(steps[i])[:160], json.dumps(want))}
        return None
    # ignore / route: the stream continues as if the failing items were absent
    main = [[o for o in st if o[0] not in ('dead', 'dead_completed')] for st in steps]
    for j, i in enumerate(obs['kept']):
        if main[i] != obs['ref'][j]:
            return {'sig': 'errors:isolation', 'what': 'handler %s: event %d (%s) emitted %s; without the failing items the '
                    'pipeline emits %s' % (h, i, json.dumps(case['trace'][i])[:60], json.dumps(main[i])[:160], json.dumps(obs['ref'][j])[:160])}
    for i in failing:
        if main[i]:
            return {'sig': 'errors:isolation', 'what': 'handler %s: the failing event %d still emitted %s' % (h, i, json.dumps(main[i])[:160])}
    if h == 'route':
        dead = [(i, o[1]) for i, st in enumerate(steps) for o in st if o[0] == 'dead']
        want = [(i, case['code']) for i in failing]
        if dead != want:
            return {'sig': 'errors:dead-letter', 'what': 'dead-letter observable received %s, expected %s' % (dead[:8], want[:8])}
        if ['dead_completed'] not in obs['final']:
            return {'sig': 'errors:dead-letter-completion', 'what': 'dead-letter observable did not complete with the stream'}
    return None


def nontrivial(case, obs):
    from harness.pyval import py_fn
    bad = py_fn(case['bad'])
    for lt in muxprop.lifetime_positions(case['trace']):
        fl = [bad(dec(x)) for x in lt['items']]
        if any(fl) and not all(fl):
            return True
    return False


def describe(cases, obs):
    from harness.pyval import py_fn
    h, ops, ctx, pat = {}, {}, {}, {'first': 0, 'last': 0, 'consecutive': 0, 'all': 0}
    for c in cases:
        h[c['handler']] = h.get(c['handler'], 0) + 1
        ctx[c['ctx']] = ctx.get(c['ctx'], 0) + 1
        bad = py_fn(c['bad'])
        for lt in muxprop.lifetime_positions(c['trace']):
            fl = [bool(bad(dec(x))) for x in lt['items']]
            if fl:
                pat['first'] += fl[0]
                pat['last'] += fl[-1]
                pat['all'] += all(fl)
                pat['consecutive'] += any(a and b for a, b in zip(fl, fl[1:]))
    return {'handlers': h, 'contexts': ctx, 'failing_patterns_over_lifetimes': pat, 'operators': muxprop.op_histogram(cases)}


CLAIM = {
    'text': 'Theorems (Coq): map/filter emit exactly one mux error per failing item at its position; a failing scan step leaves the accumulator untouched so the item is absent for what follows; with ignore the failing step emits nothing and all others are unchanged; error.map emits the mapped item in place; the router sends the exception to the dead-letter channel in order; without handler the error becomes on_error at the demux in the same step; other keys unaffected (C02). Oracle: the same pipeline with the non-raising function on the trace without the failing items; dead-letter sequence and completion; composition oracle for error.map followed by stateful operators.',
    'note': 'Trusted: Coq kernel+VM; hand-written model; only exceptions raised inside the try blocks of map/starmap/filter/scan are modelled (errors_handled fragment).',
    'technique': 'Coq proof (forward-simulation refinement of a slot-level model by per-key local machines, list-level induction) + vm_compute correspondence against /repo + model-free oracle',
}
