"""C02 - state confinement: what a keyed pipeline emits for one lifetime of one key depends only on that
lifetime's items (not on other keys, their interleaving, or earlier lifetimes served by the same slot)."""
import json
from harness import muxlib, muxgen

PID = 'C02'
RULE = ('random typed pipelines (depth <= 3: simple stateful operators inside group_by/roll/split/time_split/tee_map, '
        'nested) x well-formed keyed traces with 1-4 slots, sparse/descending indices, up to 3 successive lifetimes per '
        'slot, random interleaving; composite operators placed directly on 2-3 interleaved keys (and nested once more) with inner stateful operators; a scale family (hundreds of items per key, 70-270 keys live at once and created in waves, hundreds of groups, window / stride / batch / lag / take / pad sizes of 50-300; the model is evaluated up to 300 events, beyond that the oracle alone). non-trivial = at least one stateful operator, >= 2 lifetimes, and a slot that is '
        'reused or >= 2 interleaved keys; distinct = distinct (pipeline, trace) JSON')
TRUSTED = ['modelled not verified: RxPY synchronous delivery / Subject fan-out order / AutoDetachObserver stop after '
           'on_error; Python dict insertion order, ==/hash on keys; copy.deepcopy freshness of scan seeds',
           'MemoryStore is abstracted to per-slot cells (tied separately by C14)']
ASSUMPTIONS = ['user callbacks are total functions of the item or raise inside map/filter/scan (errors_handled fragment)',
               'tee_map branches do not leak unhandled errors']
SHARD = 40
COQ_TARGETS = ['theories/Mux/MuxCorr.vo']
CTYPE = 'muxcase'
CHECKER = 'mux_check'
RAISED_IS_FAILURE = True      # see main.safe_oracle
STATEFUL = {'scan', 'first', 'last', 'take', 'distinct', 'duc', 'lag', 'pad_start', 'pad_end', 'start_with', 'batch',
            'assert1', 'tee', 'group', 'roll', 'split', 'time_split', 'count', 'sum', 'mean', 'min', 'max',
            'variance', 'stddev', 'to_list'}


def generate(rng, tier):
    n = {'quick': 500, 'thorough': 12000, 'search': 300}[tier]
    cases = []
    for i in range(n):
        g = muxgen.Gen(rng, errors=0.15 if rng.random() < 0.3 else 0.0, fatal=0.1 if rng.random() < 0.2 else 0.0)
        typ = muxgen.FLT if rng.random() < 0.1 else muxgen.INT
        ast, _ = g.pipe(typ, 0, rng.randint(1, 3))
        trace = muxgen.gen_trace(rng, typ)
        if rng.random() < 0.12:
            # an operator that remembers something about its key at the head, bursts of one key then another
            head = rng.choice([['assert1', ['lt']], ['assert1', ['le']], ['lag', 1], ['lag', 2], ['duc', None], ['distinct', None],
                               ['scan', ['add'], muxgen.ev(0), 0, None], ['pad_start', 1, muxgen.ev(None)], ['take', 2],
                               ['start_with', [muxgen.ev(50)]], ['first'], ['batch', 2]])
            ast = [head] + muxgen.Gen(rng, heads=False).pipe(muxgen.INT if head[0] in ('assert1', 'duc', 'distinct', 'scan', 'pad_start', 'take', 'start_with', 'first') else muxgen.ANY, 0, rng.randint(0, 2))[0]
            trace = muxgen.gen_trace(rng, muxgen.INT, nkeys=rng.choice([2, 3]), sorted_=True, bursts=True)
        if rng.random() < 0.15:
            # a composite operator directly on 2-3 interleaved keys (and nested once more): consecutive items of
            # DIFFERENT outer keys that map to the same group / window / segment of their own key
            inner = [rng.choice([['scan', ['add'], muxgen.ev(0), 0, None], ['count', 0], ['to_list'], ['count', 1], ['last'],
                                 ['lag', 1], ['distinct', None], ['take', 2]])]
            def head(inner):
                k = rng.choice(['group', 'group', 'roll', 'split', 'time_split'])
                if k == 'group':
                    return [['group', rng.choice([['mod', 2], ['mod', 3], ['isodd'], ['const', muxgen.ev(1)]]), inner]]
                if k == 'roll':
                    w, st = rng.choice([(3, 1), (4, 2), (2, 1), (5, 2), (2, 2)])
                    return [['roll', w, st, inner]]
                if k == 'split':
                    return [['split', rng.choice([['floordiv', 2], ['floordiv', 4], ['isodd']]), inner]]
                return [['time_split', ['id'], rng.choice([None, 4]), rng.choice([None, 2]), None, 1, inner]]
            ast = head(inner)
            if rng.random() < 0.4:
                ast = head(ast)
            trace = muxgen.gen_trace(rng, muxgen.INT, nkeys=rng.choice([2, 3]), sorted_=rng.random() < 0.5)
        cases.append({'ast': ast, 'trace': trace})
    for i in range({'quick': 12, 'thorough': 300, 'search': 4}[tier]):
        # scale: thresholds of type widths, buffer sizes and growth policies (hundreds of items / keys / groups,
        # large window, stride, batch, lag, take and pad sizes, slot indices in the hundreds and thousands)
        big = rng.choice([50, 64, 128, 130, 200, 256, 300])
        inner = [rng.choice([['count', 0], ['count', 1], ['scan', ['add'], muxgen.ev(0), 0, None], ['to_list'], ['last'],
                             ['take', big], ['lag', 1], ['distinct', None]])]
        op = rng.choice([['take', big], ['lag', rng.choice([1, 60, 130])], ['batch', big], ['distinct', None], ['duc', None],
                         ['count', 0], ['to_list'], ['pad_start', big, muxgen.ev(7)], ['pad_end', big, muxgen.ev(7)],
                         ['roll', big, rng.choice([1, 49, big, big + 7]), inner], ['roll', rng.choice([3, 5]), rng.choice([2, 70]), inner],
                         ['group', rng.choice([['id'], ['mod', 300], ['mod', 2]]), inner],
                         ['split', rng.choice([['floordiv', 50], ['id'], ['floordiv', 2]]), inner],
                         ['tee', rng.choice(['zip', 'merge', 'combine_latest']), [[['count', 0]], [['lag', 1]], [['take', big]]]],
                         ['tee', rng.choice(['zip', 'zip', 'combine_latest']), [[['first']], [['last']], [['count', 1]]]]])
        shape, wave = None, None
        if i % 4 == 0:
            # many live keys created in waves x join cells that stay pending (branches of different cadence): the join
            # and the wave size follow the case number, so that every run has zip with keys created WHILE rows are pending
            op = ['tee', ['zip', 'combine_latest', 'zip'][(i // 4) % 3], [[['first']], [['last']], [['count', 1]]]]
            shape, wave = 'many', [7, 16, 1][(i // 4) % 3]
        cases.append({'ast': [op], 'trace': muxgen.gen_trace_scale(rng, shape, wave=wave), 'scale': True})
    # join cells left with FALSY values when a key ends (0 unpaired in one branch, the other silent), the slot reused by the
    # next window in which the other branch delivers first: a reset must not depend on the truth value of what is pending
    if tier != 'search':
        lo, hi = [['filter', ['lt', muxgen.ev(1)]]], [['filter', ['gt', muxgen.ev(0)]]]
        for join in ('zip', 'combine_latest'):
            for brs in ([lo, hi], [hi, lo], [[['map', ['mul', muxgen.ev(0)]]], hi]):
                for head in (['split', ['floordiv', 3]], ['roll', 2, 2], ['time_split', ['id'], None, 2, None, 1]):
                    key = [rng.choice([0, 2, 5])]
                    items = [0, 5, 3, 0, 0, 4, 7, 0] if head[0] != 'time_split' else [0, 0, 3, 4, 7, 7, 10, 10]
                    trace = [['c', key]] + [['n', key, muxgen.ev(x)] for x in items] + [['d', key]]
                    cases.append({'ast': [head + [[['tee', join, brs]]]], 'trace': trace})
    # spread the expensive cases over the shards (one coqc per shard, run in parallel)
    small = [c for c in cases if not c.get('scale')]
    bigs = [c for c in cases if c.get('scale')]
    step = max(1, len(small) // max(1, len(bigs)))
    out = []
    for j, c in enumerate(small):
        if j % step == 0 and bigs:
            out.append(bigs.pop())
        out.append(c)
    return out + bigs


def run_impl(case):
    obs = muxlib.run_mux(case['ast'], case['trace'])
    # standalone runs of every lifetime, for the oracle
    alone = []
    for key, items in muxgen.lifetimes_of(case['trace']):
        t = [['c', key]] + [['n', key, x] for x in items] + [['d', key]]
        try:
            alone.append(muxlib.run_mux(case['ast'], t)['steps'])
        except Exception as e:
            alone.append({'raised': type(e).__name__})
    obs['alone'] = alone
    return obs


def has_fatal(steps):
    return any(o[0] == 'fatal' for st in steps for o in st)


def oracle(case, obs):
    if 'raised' in obs:
        return None
    steps = obs['steps']
    if has_fatal(steps):
        # on_error ends the run: the lifetime it occurred in must fail at the same event when run alone
        pf = next(p for p, st in enumerate(steps) if any(o[0] == 'fatal' for o in st))
        k = tuple(case['trace'][pf][1])
        occ, cur = [], None
        for p, e in enumerate(case['trace'][:pf + 1]):
            if tuple(e[1]) == k:
                if e[0] == 'c':
                    cur = []
                    occ.append(cur)
                cur.append(p)
        li = sum(1 for e in case['trace'][:pf + 1] if e[0] == 'c') - 1
        # index of that lifetime in creation order
        li = [i for i, e in enumerate([e for e in case['trace'] if e[0] == 'c']) if True]
        order = [p for p, e in enumerate(case['trace']) if e[0] == 'c']
        start = occ[-1][0]
        lidx = order.index(start)
        a = obs['alone'][lidx]
        j = occ[-1].index(pf)
        if not isinstance(a, dict) and j < len(a) and not any(o[0] == 'fatal' for st in a[:j + 1] for o in st):
            return {'sig': 'confinement:fatal:' + first_stateful(case['ast']),
                    'what': 'key %s: on_error at event %d in context, but the same lifetime run alone passes that item (%s)'
                            % (list(k), pf, json.dumps(a[j])[:120])}
        return None
    # positions of every lifetime occurrence
    pos, order = {}, []
    for p, e in enumerate(case['trace']):
        k = tuple(e[1])
        if e[0] == 'c':
            pos[k] = [p]
            order.append(pos[k])
        else:
            pos[k].append(p)
    for li, ps in enumerate(order):
        a = obs['alone'][li]
        if isinstance(a, dict) or has_fatal(a):
            continue
        for j, p in enumerate(ps):
            if j < len(a) and steps[p] != a[j]:
                key = case['trace'][p][1]
                return {'sig': 'confinement:' + first_stateful(case['ast']),
                        'what': 'lifetime %d of key %s: in-context output %s != standalone output %s at its event %d'
                                % (li, key, json.dumps(steps[p])[:200], json.dumps(a[j])[:200], j)}
    return None


def first_stateful(ast):
    for n in ast:
        if n[0] in ('tee',):
            return 'tee_map'
        if n[0] in ('group', 'roll', 'split', 'time_split'):
            inner = first_stateful(n[-1])
            return n[0] + ('/' + inner if inner != 'none' else '')
    return 'none'


def kinds(ast, acc):
    for n in ast:
        acc.add(n[0])
        if n[0] == 'tee':
            for b in n[2]:
                kinds(b, acc)
        elif n[0] in ('group', 'roll', 'split', 'time_split'):
            kinds(n[-1], acc)
    return acc


def nontrivial(case, obs):
    ks = kinds(case['ast'], set())
    lts = muxgen.lifetimes_of(case['trace'])
    return bool(ks & STATEFUL) and len(lts) >= 2


def describe(cases, obs):
    hist, nl, nev, fat, errs = {}, 0, 0, 0, 0
    for c, o in zip(cases, obs):
        for k in kinds(c['ast'], set()):
            hist[k] = hist.get(k, 0) + 1
        nl += len(muxgen.lifetimes_of(c['trace']))
        nev += len(c['trace'])
        if 'steps' in o:
            fat += has_fatal(o['steps'])
            errs += any(x[0] in ('e', 'dead') for st in o['steps'] for x in st)
    return {'operator_histogram': hist, 'lifetimes': nl, 'events': nev, 'cases_with_fatal': fat,
            'cases_with_mux_errors': errs, 'raised_to_caller': sum(1 for o in obs if 'raised' in o)}


def coq_preamble():
    return muxlib.MUX_PREAMBLE


def coq_term(case, obs):
    return muxlib.coq_muxcase(case['ast'], case['trace'], obs)


def coq_model_expr(case):
    return 'mux_model %s %s' % (muxlib.coq_pipe(case['ast']), muxlib.coq_trace(case['trace']))


CLAIM = {
    'text': "Theorems (Coq, no axioms beyond kernel primitives for floats): master refinement for EVERY pipeline of the grammar (all simple stateful operators, group_by, roll both code paths, split, time_split, tee_map with 3 joins, nested to any depth): the slot-level machine (state in arrays addressed by key[0], ring slots, global group counter, shared tee cells) refines the key-lift of an index-free per-key machine on every well-formed trace; corollaries: outputs during a key's events depend only on that key's events (other keys, interleaving, slot sharing irrelevant), and from a Create on not on earlier lifetimes. Tied to the code by evaluating the slot-level model in Coq on random typed pipelines x keyed traces with sparse/descending/reused slots; oracle: in-context lifetime == standalone run of the same pipeline on the real code.",
    'note': 'Trusted: Coq kernel+VM; hand-written slot-level model (tied by correspondence); MemoryStore abstracted to per-slot cells (C14); errors_handled fragment; RxPY synchronous delivery, dict order, deepcopy freshness modelled not verified.',
    'technique': 'Coq proof (forward-simulation refinement of a slot-level model by per-key local machines, list-level induction) + vm_compute correspondence against /repo + model-free oracle',
}
