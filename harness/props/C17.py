"""C17 - incremental text encode/decode is chunk-boundary independent (rxsci/data/codec.py)."""
import itertools
from harness import core
from harness.rxutil import run_timed
from harness.core import c_list, c_nlist, c_bool

PID = 'C17'
RULE = ('cases: (encoding in utf-8/utf-16/utf-32/latin-1, list of strings, byte-level re-chunking of the REFERENCE '
        'encoding of the joined text by the one-shot CPython codec). Strings over the full Unicode range: ASCII, NUL, '
        '2/3/4-byte UTF-8 boundaries (U+7F/80, U+7FF/800, U+FFFF/10000, U+10FFFF), U+D7FF/U+E000 (around the '
        'surrogates), U+FEFF/U+FFFE as characters, combining marks, ZWJ emoji, random scalar values, empty '
        'strings, empty string lists. Chunkings: random cuts anywhere (inside a multi-byte sequence, inside a '
        'surrogate pair, inside the BOM), empty chunks, all-1-byte chunks, one chunk; plus EVERY placement of 1 '
        'and 2 (thorough: 3) cuts of short texts in each encoding. Both rs.data.encode (per-item bytes, final '
        'flush) and rs.data.decode (per-chunk text, final flush) are run and compared with the Coq model step '
        'by step. Malformed input is MODELLED EXPLICITLY, not excluded (separate stream, kinds bad-dec/bad-enc): '
        'invalid/overlong/truncated byte sequences, lone surrogates in the byte stream, missing or big-endian '
        'BOM, strings with lone surrogates or (latin-1) code points >= 256; the model says at which step which '
        'exception class escapes (UnicodeDecodeError / UnicodeError "no BOM" / UnicodeEncodeError) and the '
        'checker compares that too; the oracle only requires of them what CPython\'s one-shot codec says: if '
        'bytes.decode / str.encode of the whole input raises, the wrapper must not complete silently. '
        'non-trivial = well-formed case with >= 2 chunks and at least one cut strictly inside a character or '
        'inside the BOM; distinct = distinct case JSON')
TRUSTED = ['modelled not verified: CPython 3.12 C codecs (utf_8/utf_16/utf_32/latin_1 encode and stateful decode), '
           'Lib/encodings/utf_16.py and utf_32.py (BOM handling of the incremental classes), '
           'codecs.BufferedIncrementalDecoder (carry-over buffer), RxPY Subject synchronous delivery',
           'little-endian host (sys.byteorder == "little"): the incremental utf-16/utf-32 encoders write native order']
ASSUMPTIONS = ['theorems: every string is a list of Unicode scalar values (latin-1: code points < 256) and the chunks '
               'concatenate to exactly the encoder output; malformed input is covered by the correspondence only',
               'incremental=True (the default, and what rxsci/container/json.py uses)']
SHARD = 400
COQ_TARGETS = ['theories/Codec/C17Corr.vo']

ENCS = ['utf-8', 'utf-16', 'utf-32', 'latin-1']
COQ_ENC = {'utf-8': 'EUtf8', 'utf-16': 'EUtf16', 'utf-32': 'EUtf32', 'latin-1': 'ELatin1'}
BOM = {'utf-8': b'', 'latin-1': b'', 'utf-16': b'\xff\xfe', 'utf-32': b'\xff\xfe\x00\x00'}
LE = {'utf-8': 'utf-8', 'latin-1': 'latin-1', 'utf-16': 'utf-16-le', 'utf-32': 'utf-32-le'}
COQ_ERR = {None: 'NoErr', 'UnicodeEncodeError': 'EncodeError', 'UnicodeDecodeError': 'DecodeError',
           'UnicodeError': 'NoBomError'}

# pieces of text (each a str of 1..3 code points)
ALPH = [''.join(chr(c) for c in p) for p in [
    [0x61], [0x5A], [0], [0x7F], [0x80], [0xE9], [0xFF], [0x7FF], [0x800], [0x20AC], [0xD7FF], [0xE000],
    [0xFEFF], [0xFFFE], [0xFFFF], [0x65, 0x301], [0x301], [0x303, 0x323], [0x10000], [0x1F600],
    [0x10FFFF], [0x1F468, 0x200D, 0x1F469], [0x0A], [0x22]]]
ALPH_L1 = ['a', 'Z', '\x00', '\x7f', '\x80', '\xe9', '\xff', '\xa8', '\n', '\xfe\xff']


def rand_scalar(rng):
    while True:
        c = rng.choice([rng.randrange(0x80), rng.randrange(0x800), rng.randrange(0x10000), rng.randrange(0x110000)])
        if not 0xD800 <= c <= 0xDFFF:
            return chr(c)


def piece(rng, enc):
    if enc == 'latin-1':
        return rng.choice(ALPH_L1) if rng.random() < 0.8 else chr(rng.randrange(256))
    return rng.choice(ALPH) if rng.random() < 0.8 else rand_scalar(rng)


def cps(s):
    return [ord(c) for c in s]


def text_of(strs):
    return ''.join(''.join(chr(c) for c in s) for s in strs)


def cut(rng, b, ncuts, empty_prob=0.2):
    pts = sorted(rng.randint(0, len(b)) for _ in range(ncuts))
    out, prev = [], 0
    for p in pts + [len(b)]:
        out.append(list(b[prev:p]))
        prev = p
        if rng.random() < empty_prob:
            out.append([])
    return out


def gen_wf(rng, big=False):
    enc = rng.choice(ENCS)
    n = rng.choice([0, 1, 1, 2, 3, 5, 8] + ([30] if big else []))
    strs = []
    for _ in range(n):
        ln = rng.choice([0, 0, 1, 2, 3, 6])
        strs.append(cps(''.join(piece(rng, enc) for _ in range(ln))))
    ref = text_of(strs).encode(enc)
    r = rng.random()
    if r < 0.15:
        chunks = [[b] for b in ref]                     # 1-byte chunks
    elif r < 0.22:
        chunks = [list(ref)]                            # one chunk
    elif r < 0.27:
        chunks = []                                     # no chunk at all (only valid when ref is empty)
        if ref:
            chunks = [list(ref[:1]), list(ref[1:])]
    else:
        chunks = cut(rng, ref, rng.choice([1, 2, 3, 5, 8, len(ref)]))
    return {'kind': 'wf', 'enc': enc, 'strs': strs, 'chunks': chunks}


BAD_BYTES = {
    'utf-8': [0x41, 0x00, 0x80, 0xBF, 0xC0, 0xC1, 0xC2, 0xDF, 0xE0, 0xED, 0xEF, 0xA0, 0x9F, 0xF0, 0xF4, 0x90, 0x8F,
              0xF5, 0xFF],
    'utf-16': [0xFF, 0xFE, 0xFF, 0xFE, 0x00, 0x41, 0xD8, 0xDB, 0xDC, 0xDF, 0xD7, 0xE0],
    'utf-32': [0xFF, 0xFE, 0x00, 0x00, 0x00, 0x41, 0xD8, 0xDF, 0x10, 0x11, 0x01],
    'latin-1': [0x00, 0x41, 0x80, 0xFF],
}


def gen_bad_dec(rng):
    """byte streams that are not (necessarily) an encoder output"""
    enc = rng.choice(['utf-8', 'utf-8', 'utf-16', 'utf-16', 'utf-32', 'utf-32', 'latin-1'])
    r = rng.random()
    if r < 0.35:      # random bytes from a hostile alphabet
        data = bytes(rng.choice(BAD_BYTES[enc]) for _ in range(rng.randrange(10)))
        if enc in ('utf-16', 'utf-32') and rng.random() < 0.6:
            data = rng.choice([BOM[enc], BOM[enc], BOM[enc][::-1]]) + data
    else:             # a valid stream, damaged: truncated, one byte dropped/changed, BOM removed or big endian
        text = ''.join(piece(rng, enc) for _ in range(rng.choice([1, 2, 3, 5])))
        data = text.encode(enc)
        how = rng.choice(['trunc', 'trunc', 'drop', 'flip', 'nobom', 'be', 'be'])
        if how == 'trunc' and data:
            data = data[:rng.randrange(len(data))]
        elif how == 'drop' and data:
            i = rng.randrange(len(data))
            data = data[:i] + data[i + 1:]
        elif how == 'flip' and data:
            i = rng.randrange(len(data))
            data = data[:i] + bytes([rng.choice(BAD_BYTES[enc])]) + data[i + 1:]
        elif how == 'nobom':
            data = text.encode(LE[enc])
        elif how == 'be' and enc in ('utf-16', 'utf-32'):
            data = BOM[enc][::-1] + text.encode(enc + '-be')
            if rng.random() < 0.3 and data:
                data = data[:rng.randrange(len(data))]
    chunks = cut(rng, data, rng.choice([0, 1, 2, 3, len(data)]))
    if rng.random() < 0.2:
        chunks = [[b] for b in data]
    return {'kind': 'bad-dec', 'enc': enc, 'strs': [], 'chunks': chunks}


def gen_bad_enc(rng):
    """strings the codec cannot encode: lone surrogates; latin-1: code points >= 256"""
    enc = rng.choice(ENCS)
    n = rng.choice([1, 2, 3, 4])
    strs = [cps(''.join(piece(rng, enc) for _ in range(rng.choice([0, 1, 2])))) for _ in range(n)]
    bad = rng.choice([0xD800, 0xDBFF, 0xDC00, 0xDFFF]) if enc != 'latin-1' or rng.random() < 0.3 \
        else rng.choice([256, 0x20AC, 0x1F600])
    s = strs[rng.randrange(n)]
    s.insert(rng.randint(0, len(s)), bad)
    if rng.random() < 0.3:   # a surrogate PAIR written as two code points is still two lone surrogates for Python
        s += [0xD83D, 0xDE00]
    return {'kind': 'bad-enc', 'enc': enc, 'strs': strs, 'chunks': []}


SHORT = [(e, [''.join(chr(c) for c in w) for w in ws]) for e, ws in [
    ('utf-8', [[0x61, 0x1F600], [], [0x65, 0x301]]), ('utf-8', [[0x20AC, 0], [0xE9]]),
    ('utf-16', [[0x61, 0x1F600], [], [0x65, 0x301]]), ('utf-16', [[], [0xFEFF, 0]]),
    ('utf-32', [[], [0x1F600, 0x301]]), ('utf-32', [[0x61]]),
    ('latin-1', [[0x61, 0xFF], [], [0, 0xE9]]),
]]


def exhaustive_cuts(ncuts):
    """every placement of `ncuts` cuts of a few short texts in each encoding"""
    out = []
    for enc, ss in SHORT:
        strs = [cps(s) for s in ss]
        ref = ''.join(ss).encode(enc)
        for pts in itertools.combinations_with_replacement(range(len(ref) + 1), ncuts):
            ch, prev = [], 0
            for q in list(pts) + [len(ref)]:
                ch.append(list(ref[prev:q]))
                prev = q
            out.append({'kind': 'cuts', 'enc': enc, 'strs': strs, 'chunks': ch})
    return out


def fixed_cases():
    """the corner cases of the BOM: no string, only empty strings, first strings empty"""
    out = []
    for enc in ENCS:
        for ss in ([], [''], ['', ''], ['', '', 'a'], [chr(0xFEFF)] if enc != 'latin-1' else [chr(0xFF) + chr(0xFE)]):
            ref = ''.join(ss).encode(enc)
            for chunks in ([list(ref)], [[b] for b in ref], [], [[], list(ref), []]):
                if sum(chunks, []) == list(ref):
                    out.append({'kind': 'wf', 'enc': enc, 'strs': [cps(s) for s in ss], 'chunks': chunks})
    return out


def fixed_bad():
    """malformed streams whose exact error step was checked by hand against CPython (incl. the stateful decoder's
    special case: a truncated UTF-8 surrogate ED A0..BF is kept, not rejected, until more bytes arrive)"""
    streams = {
        'utf-8': [[[0xED, 0xA0]], [[0xED, 0xBF], [0xA0, 0xE0], []], [[0xED, 0xA0, 0x80]], [[0xED], [0xA0], [0x80]],
                  [[0xE0], [0x80]], [[0xE0], [0xA0]], [[0xF4, 0x90]], [[0xF0, 0x8F]], [[0xF0, 0x90, 0x80]],
                  [[0xF0, 0x90, 0x41]], [[0xC1]], [[0xC0, 0x80]], [[0xF5]], [[0x80]], [[0xEF, 0xBB, 0xBF]],
                  [[0xF4, 0x8F, 0xBF], [0xBF]], [[0xF4, 0x8F, 0xBF], [0xC0]]],
        'utf-16': [[[0x41], [0x00]], [[0x00, 0xD8], [0x00], [0xDC]], [[0x00, 0xD8], [0x41, 0x00]],
                   [[0xFE, 0xFF, 0x00], [0x41]], [[0xFF]], [[0xFF, 0xFE], [0x00, 0xDC]], [[0xFF, 0xFE], [0x00, 0xD8, 0x00]],
                   [[0xFF, 0xFE], [0x00, 0xD8, 0x00, 0xD8]], [[0xFF, 0xFE, 0xFF, 0xFE, 0xFE, 0xFF]],
                   [[0xFE], [0xFF, 0xD8, 0x3D, 0xDE], [0x00]], [[0xFE, 0xFF, 0xDC, 0x00]]],
        'utf-32': [[[0xFF, 0xFE, 0x00], [0x00, 0x41, 0x00, 0x00, 0x00, 0xFF]], [[0xFF, 0xFE, 0x00], [0x00, 0x00, 0xD8, 0x00, 0x00]],
                   [[0xFF, 0xFE, 0x00], [0x00, 0x00, 0x00, 0x11, 0x00]], [[0x00, 0x00, 0xFE], [0xFF, 0x00, 0x00, 0x00, 0x41]],
                   [[0x41, 0x00, 0x00], [0x00]], [[0x41, 0x00, 0x00]], [[0x00, 0xD8, 0x00], [0x00]],
                   [[0xFF, 0xFE, 0x00, 0x00, 0xFF, 0xFF, 0x10, 0x00]], [[0x00, 0x00, 0xFE, 0xFF, 0x00, 0x10, 0xFF, 0xFF]]],
        'latin-1': [[[0xFF, 0x00], [], [0x80]]],
    }
    return [{'kind': 'bad-dec', 'enc': e, 'strs': [], 'chunks': ch} for e in ENCS for ch in streams[e]]


def generate(rng, tier):
    n = {'quick': 520, 'thorough': 15000, 'search': 400}[tier]
    cases = []
    for i in range(n):
        r = rng.random()
        cases.append(gen_bad_dec(rng) if r < 0.13 else gen_bad_enc(rng) if r < 0.17 else gen_wf(rng, tier != 'quick'))
    if tier != 'search':
        cases += fixed_cases() + fixed_bad() + exhaustive_cuts(1) + exhaustive_cuts(2)
    else:
        cases += fixed_cases() + fixed_bad()
    if tier == 'thorough':
        cases += exhaustive_cuts(3)
    return cases


def drive(op, inputs):
    """run_timed; when an exception of the codec escapes, the step at which it did is located by re-running
    the prefixes (every run is a fresh subscription, hence a fresh codec object)."""
    try:
        r = run_timed(op, inputs)
        return {'steps': r['steps'] + [r['final']], 'err': None, 'end': r['end']}
    except Exception as e:
        err = type(e).__name__
    prev = {'steps': []}
    for k in range(len(inputs) + 1):
        try:
            r = run_timed(op, inputs[:k], end=None)
        except Exception:
            break                  # input k-1 raised: the emissions before it are those of the previous prefix
        prev = r
    return {'steps': prev['steps'], 'err': err, 'end': 'raised'}


def run_impl(case):
    import rxsci as rs
    enc = case['enc']
    strs = [''.join(chr(c) for c in s) for s in case['strs']]
    e = drive(rs.data.encode(enc), strs)
    d = drive(rs.data.decode(enc), [bytes(c) for c in case['chunks']])
    return {'enc_steps': [[list(b) for b in st] for st in e['steps']], 'enc_err': e['err'], 'enc_end': e['end'],
            'dec_steps': [[cps(t) for t in st] for st in d['steps']], 'dec_err': d['err'], 'dec_end': d['end']}


def oracle(case, obs):
    """C17 itself, judged with CPython's one-shot codecs only (no model)."""
    enc = case['enc']
    if 'raised' in obs:
        return {'sig': 'codec:harness-raised', 'what': 'running encode/decode failed with %s' % obs['raised']}
    got_bytes = b''.join(bytes(o) for st in obs['enc_steps'] for o in st)
    got_text = ''.join(''.join(chr(c) for c in o) for st in obs['dec_steps'] for o in st)
    text = text_of(case['strs'])
    data = bytes(sum(case['chunks'], []))
    kind = case['kind']
    if kind in ('wf', 'cuts'):
        try:
            ref = text.encode(enc)
        except UnicodeError:
            ref = None
        if ref is None or data != ref:      # a mislabelled (e.g. hand-written corpus) case: judge it as malformed
            kind = 'bad-enc' if ref is None else 'bad-dec'
    if kind in ('wf', 'cuts'):
        if obs['enc_err'] or obs['enc_end'] != 'completed':
            return {'sig': enc + ':encode-raised', 'what': 'encode ended with %s/%s on encodable strings'
                    % (obs['enc_err'], obs['enc_end'])}
        if got_bytes != ref:
            le = text.encode(LE[enc])
            nb = len(BOM[enc])
            stripped = b''.join(bytes(o)[nb:] if nb and bytes(o).startswith(BOM[enc]) else bytes(o)
                                for st in obs['enc_steps'] for o in st)
            if BOM[enc] and got_bytes != BOM[enc] + le and (stripped == le or got_bytes == le):
                return {'sig': enc + ':bom-not-once', 'what': 'BOM not written exactly once at the front: %r'
                        % got_bytes[:24]}
            return {'sig': enc + ':encode-bytes', 'what': 'encode output %r != %r' % (got_bytes[:24], ref[:24])}
        if obs['dec_err'] or obs['dec_end'] != 'completed':
            return {'sig': enc + ':decode-raised', 'what': 'decode of a re-chunked valid stream ended with %s/%s'
                    % (obs['dec_err'], obs['dec_end'])}
        if got_text != text:
            return {'sig': enc + ':decode-text', 'what': 'character lost/duplicated/replaced: got %r want %r'
                    % (got_text[:16], text[:16])}
        return None
    if kind == 'bad-enc':
        try:
            text.encode(enc)
        except UnicodeError:
            if obs['enc_err'] is None:
                return {'sig': enc + ':encode-silent', 'what': 'unencodable string did not raise; emitted %r'
                        % got_bytes[:24]}
        return None
    # bad-dec: whatever the chunking, the result must be that of decoding the whole stream
    try:
        whole = data.decode(enc)
    except UnicodeError:
        if obs['dec_err'] is None:
            return {'sig': enc + ':silent-loss', 'what': 'undecodable/truncated stream %r completed silently with %r'
                    % (data[:16], got_text[:16])}
        return None
    has_bom = enc in ('utf-8', 'latin-1') or data[:len(BOM[enc])] in (BOM[enc], BOM[enc][::-1])
    if has_bom:  # (without BOM the incremental utf-16/32 decoders refuse what the one-shot codec accepts)
        if obs['dec_err']:
            return {'sig': enc + ':decode-raised', 'what': 'decodable stream %r raised %s' % (data[:16], obs['dec_err'])}
        if got_text != whole:
            return {'sig': enc + ':decode-text', 'what': 'got %r want %r' % (got_text[:16], whole[:16])}
    return None


def boundaries(case):
    """byte offsets at which a cut does NOT split a character or the BOM"""
    enc = case['enc']
    pos, b = len(BOM[enc]), {0}
    b.add(pos)
    for s in case['strs']:
        for c in s:
            pos += len(chr(c).encode(LE[enc]))
            b.add(pos)
    return b


def cut_offsets(case):
    offs, pos = [], 0
    for c in case['chunks'][:-1]:
        pos += len(c)
        offs.append(pos)
    return offs


def nontrivial(case, obs):
    if case['kind'] not in ('wf', 'cuts') or len(case['chunks']) < 2:
        return False
    b = boundaries(case)
    return any(o not in b for o in cut_offsets(case))


def describe(cases, obs):
    d = {'by_encoding': {}, 'by_kind': {}, 'empty_chunks': 0, 'one_byte_chunkings': 0, 'max_chunks': 0,
         'cuts_inside_character': 0, 'cuts_inside_bom': 0, 'cases_with_astral': 0, 'cases_with_combining': 0,
         'cases_with_empty_string': 0, 'cases_with_no_string': 0, 'first_string_empty_bom_codec': 0,
         'decode_errors_observed': {}, 'encode_errors_observed': 0, 'max_stream_bytes': 0}
    for c, o in zip(cases, obs):
        d['by_encoding'][c['enc']] = d['by_encoding'].get(c['enc'], 0) + 1
        d['by_kind'][c['kind']] = d['by_kind'].get(c['kind'], 0) + 1
        d['empty_chunks'] += sum(1 for ch in c['chunks'] if not ch)
        d['max_chunks'] = max(d['max_chunks'], len(c['chunks']))
        n = sum(len(ch) for ch in c['chunks'])
        d['max_stream_bytes'] = max(d['max_stream_bytes'], n)
        if n >= 2 and all(len(ch) == 1 for ch in c['chunks']):
            d['one_byte_chunkings'] += 1
        if c['kind'] in ('wf', 'cuts'):
            b = boundaries(c)
            nb = len(BOM[c['enc']])
            for off in cut_offsets(c):
                if off not in b:
                    d['cuts_inside_bom' if off < nb else 'cuts_inside_character'] += 1
            flat = [x for s in c['strs'] for x in s]
            d['cases_with_astral'] += any(x >= 0x10000 for x in flat)
            d['cases_with_combining'] += any(0x300 <= x < 0x370 for x in flat)
            d['cases_with_empty_string'] += any(not s for s in c['strs'])
            d['cases_with_no_string'] += not c['strs']
            d['first_string_empty_bom_codec'] += bool(nb and c['strs'] and not c['strs'][0])
        if isinstance(o, dict) and o.get('dec_err'):
            d['decode_errors_observed'][o['dec_err']] = d['decode_errors_observed'].get(o['dec_err'], 0) + 1
        if isinstance(o, dict) and o.get('enc_err'):
            d['encode_errors_observed'] += 1
    return d


def coq_preamble():
    return ('From Coq Require Import List NArith Bool.\nImport ListNotations.\n'
            'From RxVerif Require Import Base.Corr Codec.Utf8 Codec.Wrapper Codec.C17Corr.\n')


CTYPE = 'c17case'
CHECKER = 'c17_check'


def nss(xs):
    return c_list([c_nlist(x) for x in xs])


def coq_term(case, obs):
    if 'raised' in obs or obs['enc_err'] not in COQ_ERR or obs['dec_err'] not in COQ_ERR:
        return 'CRaised'
    return 'CCase %s %s %s %s %s %s %s %s %s' % (
        COQ_ENC[case['enc']],
        nss(case['strs']), c_list([nss(st) for st in obs['enc_steps']]), COQ_ERR[obs['enc_err']],
        c_bool(obs['enc_end'] == 'completed'),
        nss(case['chunks']), c_list([nss(st) for st in obs['dec_steps']]), COQ_ERR[obs['dec_err']],
        c_bool(obs['dec_end'] == 'completed'))


def coq_model_expr(case):
    return '(encode %s %s, decode %s %s)' % (COQ_ENC[case['enc']], nss(case['strs']),
                                             COQ_ENC[case['enc']], nss(case['chunks']))


def neighbours(case, rng):
    """other chunkings of the same stream, and the same stream cut short"""
    data = sum(case['chunks'], [])
    out = []
    for _ in range(6):
        out.append(dict(case, chunks=cut(rng, data, rng.choice([1, 2, 3, len(data)]))))
    out.append(dict(case, chunks=[[b] for b in data]))
    if data:
        out.append({'kind': 'bad-dec', 'enc': case['enc'], 'strs': [], 'chunks': [data[:-1]]})
    return out


CLAIM = {
    'text': 'Theorems (Coq, closed under the global context): for utf-8, utf-16 (surrogate pairs), utf-32 and latin-1, '
            'for EVERY Unicode scalar value c (latin-1: c < 256) and every continuation: parse1 (enc c ++ rest) = '
            'Some (c, rest); parse1 makes progress and its answer is stable under more input; the decoders only '
            'produce scalar values. Hence, via the generic incremental-parser lemmas, for ALL lists of strings '
            '(incl. empty strings, no string) and ALL byte-level re-chunkings of the encoder output (empty chunks, '
            'cuts inside a multi-byte sequence, a surrogate pair or the BOM): decode completes without error, emits '
            'one item per chunk plus the final flush, and the concatenation of the items equals the concatenation of '
            'the strings (nothing lost, duplicated or replaced). encode emits one item per string plus the final '
            'flush; the BOM is in front of the first emitted item only - CPython writes it in the FIRST encode() '
            'call even when that string is empty, and in the final flush when there was no string. The model is '
            'tied to rxsci/data/codec.py + CPython by evaluating it in Coq on the inputs the real encode/decode were '
            'run on: per-item bytes, per-chunk code points, final flushes and (malformed inputs) the step and class '
            'of the escaping exception are compared; all 1- and 2-cut (thorough: 3-cut) placements of short texts '
            'in every encoding are included.',
    'note': 'Trusted: Coq kernel+VM; hand-written model of codec.py and of CPython\'s incremental codecs (tied by '
            'correspondence only); little-endian host. Malformed streams and unencodable strings are modelled '
            'explicitly (error results) and corresponded, but the theorems speak about well-formed input only. '
            'incremental=False is out of scope (it is chunk-boundary DEPENDENT by design).',
    'technique': 'Coq proof (bit arithmetic as div/mod closed by lia with euclidean-division equations; generic '
                 'incremental parser with progress + prefix stability; BOM invariant over the chunk list) + '
                 'vm_compute correspondence',
}
