"""C17 - incremental text encode/decode is chunk-boundary independent (rxsci/data/codec.py; the decode stage
also as rxsci/container/json.py load_from_file applies it to the 64 KiB read blocks of a file)."""
import base64
import codecs
import gzip
import itertools
import json as pyjson
import os
import zlib
from harness import core
from harness.rxutil import run_timed
from harness.core import c_list, c_nlist, c_bool

PID = 'C17'
RULE = ('cases: (encoding in utf-8/utf-16/utf-32/latin-1, list of strings, byte-level re-chunking of the REFERENCE '
        'encoding of the joined text by the one-shot CPython codec). Strings over the full Unicode range: ASCII, NUL, '
        '2/3/4-byte UTF-8 boundaries (U+7F/80, U+7FF/800, U+FFFF/10000, U+10FFFF), U+D7FF/U+E000 (around the '
        'surrogates), U+FEFF/U+FFFE as characters, combining marks, ZWJ emoji, random scalar values, empty '
        'strings, empty string lists. Chunkings: random cuts anywhere (inside a multi-byte sequence, inside a '
        'surrogate pair, inside the BOM), empty chunks, all-1-byte chunks, one chunk; plus EVERY placement of 1 '
        'and 2 (thorough: 3) cuts of short texts in each encoding. Both rs.data.encode (per-item bytes, final '
        'flush) and rs.data.decode (per-chunk text, final flush) are run and compared with the Coq model step '
        'by step. Malformed input is MODELLED EXPLICITLY, not excluded (separate stream, kinds bad-dec/bad-enc): '
        'invalid/overlong/truncated byte sequences, lone surrogates in the byte stream, missing or big-endian '
        'BOM, strings with lone surrogates or (latin-1) code points >= 256; the model says at which step which '
        'exception class escapes (UnicodeDecodeError / UnicodeError "no BOM" / UnicodeEncodeError) and the '
        'checker compares that too; the oracle only requires of them what CPython\'s one-shot codec says: if '
        'bytes.decode / str.encode of the whole input raises, the wrapper must not complete silently. '
        'CONCURRENT SUBSCRIBERS: for every well-formed case with two chunks or more, one decode pipeline over a hot '
        'source (rx Subject) has two subscribers live at once; each must receive the text a single subscriber '
        'receives and complete. '
        'RE-SUBSCRIPTION (field subs; ~35% of the random cases of every kind, plus every 1-cut placement of the '
        'short texts): ONE operator object rs.data.encode(enc) / rs.data.decode(enc) - and, share=pipe, one and the '
        'same pipeline object op(source) - is subscribed 2-4 times in a row; a subscription is either complete or '
        'disposed after k inputs (k preferably such that the bytes pushed so far end INSIDE a multi-byte '
        'sequence / surrogate pair / BOM, so that a codec object would hold leftover bytes and a known byte '
        'order); every subscription is observed and must behave like a fresh one: judged by the one-shot codec '
        'like the first, equal step by step to a fresh operator, and compared with the Coq model (CSubs). '
        'FILES (kind file): JSON-lines files of 1-3 read blocks + tail written with rs.data.encode or '
        'rs.container.json.dump_to_file and read with rs.container.json.load_from_file (64 KiB binary reads -> '
        'decode -> unframe -> loads); an ASCII pad is sized so that the k-th byte of a 2/3/4-byte UTF-8 '
        'character, the low surrogate of a UTF-16 pair, or a character edge (k = 0 / k = length; the only '
        'feasible alignments for utf-32 and latin-1) falls exactly on every multiple of 65536: every k for every '
        'character width; the objects read back must equal the objects written, and rs.data.decode run on the '
        'real read blocks is judged and compared with the model like any other chunking (CFileRL). '
        'SCALE (kind scale; about 20 cases in the quick tier, about 100 in thorough; stored as generation parameters, '
        'expanded without any random choice): periodic texts of 1-3 segments (random patterns of the pieces above, '
        'or of code points above U+FFFF only) of 64 KiB up to 16 MiB. big-chunk/astral: byte chunks of 64 KiB, 128 KiB '
        'and 1 MiB (some cases: 1, 2 or up to 4095 bytes more, or 1 less) that arrive while the decoder holds a '
        'partial character - a first cut at an odd offset / between the surrogates (utf-16), at offset 1-3 of a '
        'unit (utf-32), inside a 2/3/4-byte sequence (utf-8), in some cases inside the BOM - with a chunk of 1, 3, '
        '5 or 7 bytes between two large ones so that they arrive at different alignments; the rest in one chunk or '
        'in chunks of 1-5 / 4096 / 65536 bytes. big-string: 1-2 strings of 1-16 MiB given to encode, the bytes '
        're-chunked into 64 KiB / 128 KiB / 1 MiB blocks that all start and end inside a character. one-char: '
        '1025-20000 one-character strings, the bytes in chunks of 1, 2, 3 or 5 bytes. dump: 1025-20000 items (2000 '
        'and 5000 in every tier; around 1024 and 2048 in thorough) written by rs.container.json.dump_to_file (or '
        'json.dump | data.encode | file.write), utf-16 / utf-32 / utf-8 / latin-1, plain or gzip: the file must be '
        'the one-shot encoding of the JSON lines (BOM once, at the front), every line must be its item, '
        'load_from_file must return the items, and encode / decode run on the lines / the 64 KiB blocks are judged '
        'as above. All scale cases are judged by the one-shot codec; stream cases of up to 300 KiB (thorough: '
        '1.2 MiB) are also evaluated in Coq (CScale: everything flat and run-length coded), the larger ones and the '
        'dump cases are not (CSkip). '
        'non-trivial = well-formed case with >= 2 chunks and at least one cut strictly inside a character or '
        'inside the BOM (files: a read-block boundary strictly inside a character); distinct = distinct case JSON')
TRUSTED = ['modelled not verified: CPython 3.12 C codecs (utf_8/utf_16/utf_32/latin_1 encode and stateful decode), '
           'Lib/encodings/utf_16.py and utf_32.py (BOM handling of the incremental classes), '
           'codecs.BufferedIncrementalDecoder (carry-over buffer), RxPY Subject synchronous delivery',
           'little-endian host (sys.byteorder == "little"): the incremental utf-16/utf-32 encoders write native order',
           'harness: the hand-driven re-subscribable source (rx.create) used for the re-subscription cases; files: '
           'rxsci/io/file.py read(size=64 KiB, mode=rb) delivers the blocks the decode stage is run on; the JSON '
           'layer (orjson/json dumps+loads, line.unframe) is exercised by the read-back oracle, not modelled']
ASSUMPTIONS = ['theorems: every string is a list of Unicode scalar values (latin-1: code points < 256) and the chunks '
               'concatenate to exactly the encoder output; malformed input is covered by the correspondence only',
               'incremental=True (the default, and what rxsci/container/json.py uses)']
SHARD = 400
COQ_TARGETS = ['theories/Codec/C17Corr.vo']

ENCS = ['utf-8', 'utf-16', 'utf-32', 'latin-1']
COQ_ENC = {'utf-8': 'EUtf8', 'utf-16': 'EUtf16', 'utf-32': 'EUtf32', 'latin-1': 'ELatin1'}
BOM = {'utf-8': b'', 'latin-1': b'', 'utf-16': b'\xff\xfe', 'utf-32': b'\xff\xfe\x00\x00'}
LE = {'utf-8': 'utf-8', 'latin-1': 'latin-1', 'utf-16': 'utf-16-le', 'utf-32': 'utf-32-le'}
COQ_ERR = {None: 'NoErr', 'UnicodeEncodeError': 'EncodeError', 'UnicodeDecodeError': 'DecodeError',
           'UnicodeError': 'NoBomError'}

# pieces of text (each a str of 1..3 code points)
ALPH = [''.join(chr(c) for c in p) for p in [
    [0x61], [0x5A], [0], [0x7F], [0x80], [0xE9], [0xFF], [0x7FF], [0x800], [0x20AC], [0xD7FF], [0xE000],
    [0xFEFF], [0xFFFE], [0xFFFF], [0x65, 0x301], [0x301], [0x303, 0x323], [0x10000], [0x1F600],
    [0x10FFFF], [0x1F468, 0x200D, 0x1F469], [0x0A], [0x22]]]
ALPH_L1 = ['a', 'Z', '\x00', '\x7f', '\x80', '\xe9', '\xff', '\xa8', '\n', '\xfe\xff']


def rand_scalar(rng):
    while True:
        c = rng.choice([rng.randrange(0x80), rng.randrange(0x800), rng.randrange(0x10000), rng.randrange(0x110000)])
        if not 0xD800 <= c <= 0xDFFF:
            return chr(c)


def piece(rng, enc):
    if enc == 'latin-1':
        return rng.choice(ALPH_L1) if rng.random() < 0.8 else chr(rng.randrange(256))
    return rng.choice(ALPH) if rng.random() < 0.8 else rand_scalar(rng)


def cps(s):
    return [ord(c) for c in s]


def text_of(strs):
    return ''.join(''.join(chr(c) for c in s) for s in strs)


def cut(rng, b, ncuts, empty_prob=0.2):
    pts = sorted(rng.randint(0, len(b)) for _ in range(ncuts))
    out, prev = [], 0
    for p in pts + [len(b)]:
        out.append(list(b[prev:p]))
        prev = p
        if rng.random() < empty_prob:
            out.append([])
    return out


def gen_wf(rng, big=False):
    enc = rng.choice(ENCS)
    n = rng.choice([0, 1, 1, 2, 3, 5, 8] + ([30] if big else []))
    strs = []
    for _ in range(n):
        ln = rng.choice([0, 0, 1, 2, 3, 6])
        strs.append(cps(''.join(piece(rng, enc) for _ in range(ln))))
    ref = text_of(strs).encode(enc)
    r = rng.random()
    if r < 0.15:
        chunks = [[b] for b in ref]                     # 1-byte chunks
    elif r < 0.22:
        chunks = [list(ref)]                            # one chunk
    elif r < 0.27:
        chunks = []                                     # no chunk at all (only valid when ref is empty)
        if ref:
            chunks = [list(ref[:1]), list(ref[1:])]
    else:
        chunks = cut(rng, ref, rng.choice([1, 2, 3, 5, 8, len(ref)]))
    return {'kind': 'wf', 'enc': enc, 'strs': strs, 'chunks': chunks}


BAD_BYTES = {
    'utf-8': [0x41, 0x00, 0x80, 0xBF, 0xC0, 0xC1, 0xC2, 0xDF, 0xE0, 0xED, 0xEF, 0xA0, 0x9F, 0xF0, 0xF4, 0x90, 0x8F,
              0xF5, 0xFF],
    'utf-16': [0xFF, 0xFE, 0xFF, 0xFE, 0x00, 0x41, 0xD8, 0xDB, 0xDC, 0xDF, 0xD7, 0xE0],
    'utf-32': [0xFF, 0xFE, 0x00, 0x00, 0x00, 0x41, 0xD8, 0xDF, 0x10, 0x11, 0x01],
    'latin-1': [0x00, 0x41, 0x80, 0xFF],
}


def gen_bad_dec(rng):
    """byte streams that are not (necessarily) an encoder output"""
    enc = rng.choice(['utf-8', 'utf-8', 'utf-16', 'utf-16', 'utf-32', 'utf-32', 'latin-1'])
    r = rng.random()
    if r < 0.35:      # random bytes from a hostile alphabet
        data = bytes(rng.choice(BAD_BYTES[enc]) for _ in range(rng.randrange(10)))
        if enc in ('utf-16', 'utf-32') and rng.random() < 0.6:
            data = rng.choice([BOM[enc], BOM[enc], BOM[enc][::-1]]) + data
    else:             # a valid stream, damaged: truncated, one byte dropped/changed, BOM removed or big endian
        text = ''.join(piece(rng, enc) for _ in range(rng.choice([1, 2, 3, 5])))
        data = text.encode(enc)
        how = rng.choice(['trunc', 'trunc', 'drop', 'flip', 'nobom', 'be', 'be'])
        if how == 'trunc' and data:
            data = data[:rng.randrange(len(data))]
        elif how == 'drop' and data:
            i = rng.randrange(len(data))
            data = data[:i] + data[i + 1:]
        elif how == 'flip' and data:
            i = rng.randrange(len(data))
            data = data[:i] + bytes([rng.choice(BAD_BYTES[enc])]) + data[i + 1:]
        elif how == 'nobom':
            data = text.encode(LE[enc])
        elif how == 'be' and enc in ('utf-16', 'utf-32'):
            data = BOM[enc][::-1] + text.encode(enc + '-be')
            if rng.random() < 0.3 and data:
                data = data[:rng.randrange(len(data))]
    chunks = cut(rng, data, rng.choice([0, 1, 2, 3, len(data)]))
    if rng.random() < 0.2:
        chunks = [[b] for b in data]
    return {'kind': 'bad-dec', 'enc': enc, 'strs': [], 'chunks': chunks}


def gen_bad_enc(rng):
    """strings the codec cannot encode: lone surrogates; latin-1: code points >= 256"""
    enc = rng.choice(ENCS)
    n = rng.choice([1, 2, 3, 4])
    strs = [cps(''.join(piece(rng, enc) for _ in range(rng.choice([0, 1, 2])))) for _ in range(n)]
    bad = rng.choice([0xD800, 0xDBFF, 0xDC00, 0xDFFF]) if enc != 'latin-1' or rng.random() < 0.3 \
        else rng.choice([256, 0x20AC, 0x1F600])
    s = strs[rng.randrange(n)]
    s.insert(rng.randint(0, len(s)), bad)
    if rng.random() < 0.3:   # a surrogate PAIR written as two code points is still two lone surrogates for Python
        s += [0xD83D, 0xDE00]
    return {'kind': 'bad-enc', 'enc': enc, 'strs': strs, 'chunks': []}


SHORT = [(e, [''.join(chr(c) for c in w) for w in ws]) for e, ws in [
    ('utf-8', [[0x61, 0x1F600], [], [0x65, 0x301]]), ('utf-8', [[0x20AC, 0], [0xE9]]),
    ('utf-16', [[0x61, 0x1F600], [], [0x65, 0x301]]), ('utf-16', [[], [0xFEFF, 0]]),
    ('utf-32', [[], [0x1F600, 0x301]]), ('utf-32', [[0x61]]),
    ('latin-1', [[0x61, 0xFF], [], [0, 0xE9]]),
]]


def exhaustive_cuts(ncuts):
    """every placement of `ncuts` cuts of a few short texts in each encoding"""
    out = []
    for enc, ss in SHORT:
        strs = [cps(s) for s in ss]
        ref = ''.join(ss).encode(enc)
        for pts in itertools.combinations_with_replacement(range(len(ref) + 1), ncuts):
            ch, prev = [], 0
            for q in list(pts) + [len(ref)]:
                ch.append(list(ref[prev:q]))
                prev = q
            out.append({'kind': 'cuts', 'enc': enc, 'strs': strs, 'chunks': ch})
    return out


def fixed_cases():
    """the corner cases of the BOM: no string, only empty strings, first strings empty"""
    out = []
    for enc in ENCS:
        for ss in ([], [''], ['', ''], ['', '', 'a'], [chr(0xFEFF)] if enc != 'latin-1' else [chr(0xFF) + chr(0xFE)]):
            ref = ''.join(ss).encode(enc)
            for chunks in ([list(ref)], [[b] for b in ref], [], [[], list(ref), []]):
                if sum(chunks, []) == list(ref):
                    out.append({'kind': 'wf', 'enc': enc, 'strs': [cps(s) for s in ss], 'chunks': chunks})
    return out


def fixed_bad():
    """malformed streams whose exact error step was checked by hand against CPython (incl. the stateful decoder's
    special case: a truncated UTF-8 surrogate ED A0..BF is kept, not rejected, until more bytes arrive)"""
    streams = {
        'utf-8': [[[0xED, 0xA0]], [[0xED, 0xBF], [0xA0, 0xE0], []], [[0xED, 0xA0, 0x80]], [[0xED], [0xA0], [0x80]],
                  [[0xE0], [0x80]], [[0xE0], [0xA0]], [[0xF4, 0x90]], [[0xF0, 0x8F]], [[0xF0, 0x90, 0x80]],
                  [[0xF0, 0x90, 0x41]], [[0xC1]], [[0xC0, 0x80]], [[0xF5]], [[0x80]], [[0xEF, 0xBB, 0xBF]],
                  [[0xF4, 0x8F, 0xBF], [0xBF]], [[0xF4, 0x8F, 0xBF], [0xC0]]],
        'utf-16': [[[0x41], [0x00]], [[0x00, 0xD8], [0x00], [0xDC]], [[0x00, 0xD8], [0x41, 0x00]],
                   [[0xFE, 0xFF, 0x00], [0x41]], [[0xFF]], [[0xFF, 0xFE], [0x00, 0xDC]], [[0xFF, 0xFE], [0x00, 0xD8, 0x00]],
                   [[0xFF, 0xFE], [0x00, 0xD8, 0x00, 0xD8]], [[0xFF, 0xFE, 0xFF, 0xFE, 0xFE, 0xFF]],
                   [[0xFE], [0xFF, 0xD8, 0x3D, 0xDE], [0x00]], [[0xFE, 0xFF, 0xDC, 0x00]]],
        'utf-32': [[[0xFF, 0xFE, 0x00], [0x00, 0x41, 0x00, 0x00, 0x00, 0xFF]], [[0xFF, 0xFE, 0x00], [0x00, 0x00, 0xD8, 0x00, 0x00]],
                   [[0xFF, 0xFE, 0x00], [0x00, 0x00, 0x00, 0x11, 0x00]], [[0x00, 0x00, 0xFE], [0xFF, 0x00, 0x00, 0x00, 0x41]],
                   [[0x41, 0x00, 0x00], [0x00]], [[0x41, 0x00, 0x00]], [[0x00, 0xD8, 0x00], [0x00]],
                   [[0xFF, 0xFE, 0x00, 0x00, 0xFF, 0xFF, 0x10, 0x00]], [[0x00, 0x00, 0xFE, 0xFF, 0x00, 0x10, 0xFF, 0xFF]]],
        'latin-1': [[[0xFF, 0x00], [], [0x80]]],
    }
    return [{'kind': 'bad-dec', 'enc': e, 'strs': [], 'chunks': ch} for e in ENCS for ch in streams[e]]


def inside_points(case):
    """numbers k of chunks after which the bytes pushed so far end inside a character or inside the BOM"""
    if case['kind'] not in ('wf', 'cuts'):
        return []
    b = boundaries(case)
    return [i + 1 for i, off in enumerate(cut_offsets(case)) if off not in b]


def with_subs(rng, case):
    """the same case, its operator object subscribed several times: None = a complete subscription,
    [kd, ke] = disposed after kd chunks (decode) / ke strings (encode)"""
    nd, ne = len(case['chunks']), len(case['strs'])
    ins = inside_points(case)

    def part():
        kd = rng.choice(ins) if ins and rng.random() < 0.75 else rng.randint(0, nd)
        return [kd, rng.randint(0, ne)]
    plan = rng.choice([[None], [None, None], [part()], [part()], [part()], [None, part()], [part(), part()],
                       [part(), None, part()]]) + [None]
    return dict(case, subs=plan, share=rng.choice(['pipe', 'pipe', 'op']))


def resub_cuts():
    """every 1-cut placement of the short texts: a first subscription disposed after the first chunk (for most
    placements in the middle of a character or of the BOM), then a complete one, on the same pipeline object"""
    return [dict(c, subs=[[1, min(1, len(c['strs']))], None], share='pipe') for c in exhaustive_cuts(1)]


# --- files read by rs.container.json.load_from_file --------------------------------------------------
BLOCK = 64 * 1024
FILE_CHARS = {'utf-8': [0xE9, 0x20AC, 0x1F600], 'utf-16': [0x20AC, 0x1F600], 'utf-32': [0x1F600], 'latin-1': [0xE9]}
UNIT = {'utf-8': 1, 'latin-1': 1, 'utf-16': 2, 'utf-32': 4}


def file_alignments():
    """(encoding, code point, k): k bytes of the character lie before the read-block boundary; all the k that
    the encoding's code unit size allows (k = 0 and k = length: the boundary is on a character edge)"""
    out = []
    for enc in ENCS:
        for cp in FILE_CHARS[enc]:
            n = len(chr(cp).encode(LE[enc]))
            out += [(enc, cp, k) for k in range(0, n + 1) if k % UNIT[enc] == 0]
    return out


def gen_files(rng, tier):
    out = []
    for enc, cp, k in file_alignments():
        combos = [(w, nb) for w in ('encode', 'dump') for nb in (1, 2, 3)] if tier == 'thorough' \
            else [(rng.choice(['encode', 'dump']), rng.choice([1, 2]))]
        for w, nb in combos:
            out.append({'kind': 'file', 'enc': enc, 'cp': cp, 'k': k, 'nb': nb, 'writer': w, 'strs': [], 'chunks': []})
    return out


# --- SCALE: the same property on inputs of 64 KiB ... several MiB and of thousands of items ---------------
# A scale case is stored in GENERATED form (the replay file holds the parameters, run_impl expands them; nothing
# is random at expansion time):
#   sub 'stream': the text is segs = [[pattern code points, repetitions], ...] joined; rs.data.encode gets it cut
#                 into strings of strlens = [[code points, how many strings], ...] (a rest becomes one more
#                 string); rs.data.decode gets the ONE-SHOT encoding of the text cut into chunks of
#                 sizes = [[bytes, how many chunks], ...] (a rest becomes one more chunk).
#   sub 'dump':   n items {"i": i, "t": words[i % len(words)] * (1 + i % 3)} are written with
#                 rs.container.json.dump_to_file (encoding, optional gzip) and read back.
# The observation holds everything that was emitted, loss-free but compressed (zlib+base64 of the joined output
# and the run-length coded item lengths).  model = is the case also evaluated in Coq (size limit)?
BIG = [64 * 1024, 128 * 1024, 1024 * 1024]
SCALE_ENCS = ['utf-8', 'utf-16', 'utf-32']
MODEL_LIMIT = {'quick': 300 * 1024, 'thorough': 1200 * 1024, 'search': 0}
ASTRAL = [0x10000, 0x10348, 0x1F600, 0x1F469, 0x10FFFF]


def pack(b):
    return base64.b64encode(zlib.compress(b, 1)).decode('ascii')


def unpack(s):
    return zlib.decompress(base64.b64decode(s))


def pack_text(t):
    return pack(t.encode('utf-8', 'surrogatepass'))


def unpack_text(s):
    return unpack(s).decode('utf-8', 'surrogatepass')


def rl1(xs):
    """run-length form [[value, repetitions], ...] of a list of numbers"""
    out = []
    for x in xs:
        if out and out[-1][0] == x:
            out[-1][1] += 1
        else:
            out.append([x, 1])
    return out


def unrl1(r):
    return [v for v, n in r for _ in range(n)]


def split_by(seq, sizes):
    """seq (str/bytes) cut into pieces of the run-length coded sizes; what is left becomes one more piece"""
    out, pos = [], 0
    for n in unrl1(sizes):
        out.append(seq[pos:pos + n])
        pos += n
    if pos < len(seq):
        out.append(seq[pos:])
    return out


def scale_text(case):
    return ''.join(''.join(chr(c) for c in p) * r for p, r in case['segs'])


def scale_pattern(rng, enc, astral):
    if astral:
        return [rng.choice(ASTRAL + [rng.randrange(0x10000, 0x110000)]) for _ in range(rng.randint(1, 7))]
    s = ''.join(piece(rng, enc) for _ in range(rng.randint(2, 10)))
    if enc != 'latin-1':                       # at least one character of more than one byte / unit
        s = rng.choice(['\xe9', '\u0800', '\u20ac', '\U0001F600', '\U00010348']) + s
    return cps(s or 'a')


def scale_segs(rng, enc, nbytes, astral=False):
    """1-3 periodic segments whose encoding has at least nbytes bytes"""
    w = [rng.random() + 0.1 for _ in range(rng.choice([1, 1, 2, 3]))]
    segs = []
    for x in w:
        pat = scale_pattern(rng, enc, astral or (enc != 'latin-1' and rng.random() < 0.15))
        pb = len(text_of([pat]).encode(LE[enc]))
        segs.append([pat, int(nbytes * x / sum(w)) // pb + 1])
    return segs


def pending_offset(rng, enc, text, in_bom=False):
    """a byte offset of the encoded text that lies strictly inside one of its first characters (utf-16: odd, or
    between the surrogates; utf-32: not a multiple of 4; utf-8: before a continuation byte) or inside the BOM"""
    nb = len(BOM[enc])
    if in_bom and nb:
        return rng.randrange(1, nb)
    head = text[:64]
    wide = [j for j, ch in enumerate(head) if len(ch.encode(LE[enc])) > 1]
    if not wide:
        return nb + rng.randrange(len(head) + 1)              # latin-1: there is no inside
    j = rng.choice(wide)
    return nb + len(head[:j].encode(LE[enc])) + rng.randrange(1, len(head[j].encode(LE[enc])))


def small_cuts(rng, total, k):
    pts = sorted(rng.randint(0, total) for _ in range(k))
    return [b - a for a, b in zip([0] + pts, pts + [total])]


def gen_scale_stream(rng, flavour, enc, bigs, limit, jitter=False):
    """flavour: big-chunk  chunks of 64 KiB / 128 KiB / 1 MiB, each arriving while the decoder holds a partial
                           character (an odd small chunk between two of them changes the alignment);
                astral     the same over a text of code points above 0xFFFF only;
                big-string one to three strings of several MiB (bigs = [bytes in all, block size]), re-chunked into
                           large blocks after a cut inside a character (the blocks start and end inside one);
                one-char   thousands of one-character strings / chunks of one to five bytes"""
    if flavour == 'one-char':
        # the periodic text cut to nchar characters: one more segment holds the incomplete last period
        segs, left = [], bigs[0]
        for p, r in scale_segs(rng, enc, 4 * bigs[0], astral=enc != 'latin-1' and rng.random() < 0.2):
            full = min(r, left // len(p))
            if full:
                segs.append([p, full])
                left -= full * len(p)
            if full < r and left > 0:
                segs.append([p[:left], 1])
                left = 0
            if left <= 0:
                break
        nchar = sum(len(p) * r for p, r in segs)
        nbytes = len(scale_text({'segs': segs}).encode(enc))
        step = rng.choice([1, 1, 1, 2, 3, 5])
        strlens, sizes = [[1, nchar]], [step] * -(-nbytes // step)
    elif flavour == 'big-string':
        total, block = bigs
        if jitter:
            block = max(BIG[0], block + rng.choice([1, -1, 2, rng.randrange(1, 4096)]))
        segs = scale_segs(rng, enc, total, rng.random() < 0.2 and enc != 'latin-1')
        text = scale_text({'segs': segs})
        nbytes, nchar = len(text.encode(enc)), len(text)
        o = pending_offset(rng, enc, text, in_bom=jitter and rng.random() < 0.2)
        sizes = small_cuts(rng, o, rng.choice([0, 0, 1, 2])) + [block] * ((nbytes - o) // block)
        k = rng.choice([1, 1, 2])
        strlens = [[nchar // k, k]]
    else:
        if jitter:
            bigs = [max(BIG[0], b + rng.choice([0, 0, 1, -1, 2, rng.randrange(1, 4096)])) for b in bigs]
        gaps = [rng.choice([1, 3, 5, 7]) for _ in bigs[1:]]
        tail = rng.choice([0, 1, 7, rng.randrange(1, 5000)])
        segs = scale_segs(rng, enc, 300 + sum(bigs) + sum(gaps) + tail, flavour == 'astral')
        text = scale_text({'segs': segs})
        nbytes, nchar = len(text.encode(enc)), len(text)
        o = pending_offset(rng, enc, text, in_bom=jitter and rng.random() < 0.2)
        sizes = small_cuts(rng, o, rng.choice([0, 0, 1, 2]))
        for i, b in enumerate(bigs):
            sizes += [b] + gaps[i:i + 1]
        rest = nbytes - sum(sizes)
        if rest > 0 and rng.random() < 0.5:
            s = rng.choice([1, 2, 3, 5, 4096]) if rest <= 20000 else rng.choice([4096, 65536])
            sizes += [s] * (rest // s)
        L = min(nchar, rng.choice([nchar, nchar, 1000, 4096, 65536, 100000]))
        strlens = [[L, nchar // L]]
    case = {'kind': 'scale', 'sub': 'stream', 'flavour': flavour, 'enc': enc, 'segs': segs,
            'strlens': strlens, 'sizes': rl1(sizes)}
    case.update(model=nbytes <= limit, strs=[], chunks=[])
    return case


def gen_scale_dump(rng, enc, n, writer=None):
    words = [cps(''.join(piece(rng, enc) for _ in range(rng.choice([0, 1, 2, 3, 6])))) for _ in range(rng.randint(3, 9))]
    return {'kind': 'scale', 'sub': 'dump', 'flavour': 'dump', 'enc': enc, 'n': n, 'words': words,
            'writer': writer or rng.choice(['dump', 'dump', 'dump', 'encode']),
            'compression': rng.choice([None, None, 'gzip']), 'model': False, 'strs': [], 'chunks': []}


def gen_scale(rng, tier):
    """quick: every flavour in every encoding it makes sense for, the small ones also evaluated in Coq; more than
    1024 items (2000, 5000, a random number) written by json.dump_to_file in each encoding with a BOM;
    thorough: more of each, larger, sizes off the powers of two, pending bytes inside the BOM as well"""
    lim = MODEL_LIMIT[tier]
    out = []
    if tier == 'search':
        for _ in range(2):
            out.append(gen_scale_stream(rng, 'big-chunk', rng.choice(SCALE_ENCS), [BIG[0]], lim, jitter=True))
        out.append(gen_scale_dump(rng, rng.choice(['utf-16', 'utf-32']), rng.randrange(1025, 3000)))
        return out
    # two large chunks with an odd small one between them: whatever the first cut, they arrive at different
    # alignments (utf-16: at an odd offset and between / on the surrogates; utf-32: at two of the offsets 1-3)
    firsts = [BIG[0], BIG[1], rng.choice(BIG[:2])]
    rng.shuffle(firsts)
    for enc, b in zip(SCALE_ENCS, firsts):
        out.append(gen_scale_stream(rng, 'big-chunk', enc, [b, BIG[0]], lim))
        out.append(gen_scale_stream(rng, 'big-chunk', enc, rng.choice([[BIG[2]], [BIG[2], BIG[0]], [BIG[1], BIG[2]]]), lim))
    out.append(gen_scale_stream(rng, 'big-chunk', rng.choice(SCALE_ENCS), [BIG[0], BIG[1]], lim, jitter=True))
    out.append(gen_scale_stream(rng, 'big-chunk', 'latin-1', [rng.choice(BIG)], lim))
    for enc in rng.sample(SCALE_ENCS, 2):
        out.append(gen_scale_stream(rng, 'big-string', enc, [rng.choice([3, 4, 6]) * BIG[2], rng.choice(BIG)], lim))
    encs = rng.sample(SCALE_ENCS, 2)
    out.append(gen_scale_stream(rng, 'astral', encs[0], [rng.choice(BIG[:2])], lim))
    out.append(gen_scale_stream(rng, 'astral', encs[1], [BIG[2], BIG[0]], lim))
    out.append(gen_scale_stream(rng, 'one-char', rng.choice(SCALE_ENCS), [rng.choice([2000, 3000, 5000])], lim))
    out.append(gen_scale_stream(rng, 'one-char', rng.choice(ENCS), [rng.randrange(1025, 8000)], lim))
    counts = [2000, 5000]
    rng.shuffle(counts)
    for enc, n in zip(['utf-16', 'utf-32'], counts):
        out.append(gen_scale_dump(rng, enc, n, writer='dump'))
        out.append(gen_scale_dump(rng, enc, rng.choice([1025, 2049, rng.randrange(1025, 6000)])))
    out.append(gen_scale_dump(rng, 'utf-8', rng.choice([2000, 5000, rng.randrange(1025, 6000)])))
    out.append(gen_scale_dump(rng, 'latin-1', rng.choice([2000, 5000, rng.randrange(1025, 6000)])))
    if tier == 'thorough':
        for enc in ENCS:
            for bigs in ([BIG[0]], [BIG[1]], [BIG[2]], [BIG[0], BIG[0], BIG[1]], [BIG[2], BIG[0]], [BIG[2], BIG[2], BIG[1]]):
                out.append(gen_scale_stream(rng, 'big-chunk', enc, bigs, lim, jitter=bigs != [BIG[2]] and rng.random() < 0.7))
            out.append(gen_scale_stream(rng, 'big-string', enc, [rng.choice([2, 4, 8, 16]) * BIG[2], rng.choice(BIG)], lim))
            out.append(gen_scale_stream(rng, 'big-string', enc, [3 * BIG[2], BIG[0]], lim, jitter=True))
            out.append(gen_scale_stream(rng, 'one-char', enc, [rng.choice([2000, 5000, 20000])], lim))
            out.append(gen_scale_stream(rng, 'one-char', enc, [rng.randrange(1025, 9000)], lim))
            if enc != 'latin-1':
                for bigs in ([BIG[0]], [BIG[1], BIG[0]], [BIG[2]]):
                    out.append(gen_scale_stream(rng, 'astral', enc, bigs, lim, jitter=rng.random() < 0.5))
            for n in (1023, 1024, 1025, 2000, 2049, 5000, rng.randrange(1025, 12000), 20000):
                out.append(gen_scale_dump(rng, enc, n, writer='dump' if n in (2000, 5000) else None))
    return out


def spread(cases, extra):
    """puts the (expensive) scale cases into the middle of different shards of the correspondence stage"""
    nsh = max(1, len(cases) // SHARD)
    groups = [extra[s::nsh] for s in range(nsh)]
    out = list(cases)
    for s in reversed(range(nsh)):
        pos = s * SHARD + SHARD // 2
        out[pos:pos] = groups[s]
    return out


def inside_char(enc, ref, off):
    """does a cut at byte offset off of the encoded stream ref split a character or the BOM? (O(1))"""
    nb = len(BOM[enc])
    if off <= 0 or off >= len(ref):
        return False
    if off < nb:
        return True
    if enc == 'utf-8':
        return ref[off] & 0xC0 == 0x80
    if enc == 'utf-16':
        return off % 2 == 1 or (off - nb >= 2 and 0xD8 <= ref[off - 1] <= 0xDB)
    if enc == 'utf-32':
        return off % 4 != 0
    return False


def pack_run(r, text):
    items = [o for st in r['steps'] for o in st]
    return {'out': pack_text(''.join(items)) if text else pack(b''.join(items)), 'lens': rl1([len(o) for o in items]),
            'counts': rl1([len(st) for st in r['steps']]), 'err': r['err'], 'end': r['end']}


def unpack_run(p, text):
    """-> (steps: list of lists of str / bytes, err, end)"""
    whole = unpack_text(p['out']) if text else unpack(p['out'])
    items = split_by(whole, p['lens'])[:sum(n for _, n in p['lens'])]
    steps, pos = [], 0
    for k in unrl1(p['counts']):
        steps.append(items[pos:pos + k])
        pos += k
    return steps, p['err'], p['end']


def drive_once(op, inputs):
    """ONE subscription of a fresh operator, driven by hand (an exception of the codec ends it at that step)"""
    import rx
    src = HandSource()
    return drive_sub(op(rx.create(src)), src, inputs, None)


def shape_of(enc, ref, chunks):
    """what the chunking looks like (for nontrivial/describe; not judged)"""
    inside, big_pending, off = 0, 0, 0
    for c in chunks[:-1] if chunks else []:
        if len(c) >= BIG[0] and inside_char(enc, ref, off):
            big_pending += 1
        off += len(c)
        inside += inside_char(enc, ref, off)
    if chunks and len(chunks[-1]) >= BIG[0] and inside_char(enc, ref, off):
        big_pending += 1
    return {'bytes': len(ref), 'chunks': len(chunks), 'max_chunk': max([len(c) for c in chunks] or [0]),
            'cuts_inside': inside, 'big_chunks_while_pending': big_pending}


def run_scale(case):
    import rxsci as rs
    enc = case['enc']
    if case['sub'] == 'dump':
        return run_scale_dump(case)
    text = scale_text(case)
    strs = split_by(text, case['strlens'])
    try:
        ref = text.encode(enc)
    except UnicodeError:                      # (not generated) unencodable text: only the encode side says something
        ref = b''
    chunks = split_by(ref, case['sizes'])
    e = drive_once(rs.data.encode(enc), strs)
    d = drive_once(rs.data.decode(enc), chunks)
    shape = shape_of(enc, ref, chunks)
    shape.update(chars=len(text), strings=len(strs), max_string=max([len(s) for s in strs] or [0]),
                 astral_chars=len(text.encode('utf-16-le', 'surrogatepass')) // 2 - len(text))
    return {'enc': pack_run(e, False), 'dec': pack_run(d, True), 'enc_err': e['err'], 'dec_err': d['err'], 'shape': shape}


def dump_items(case):
    words = [''.join(chr(c) for c in w) for w in case['words']]
    return [{'i': i, 't': words[i % len(words)] * (1 + i % 3)} for i in range(case['n'])]


def canon_objs(objs):
    return '\n'.join(pyjson.dumps(o, ensure_ascii=False, sort_keys=True) for o in objs)


def run_scale_dump(case):
    import rx
    import rxsci as rs
    import rxsci.io.file as file
    enc, comp = case['enc'], case.get('compression')
    items = dump_items(case)
    os.makedirs(FILES, exist_ok=True)
    fn = os.path.join(FILES, 's%d.json' % os.getpid())
    try:
        lines, _ = collect(rx.from_(items).pipe(rs.container.json.dump()))
        if case['writer'] == 'dump':
            _, wend = collect(rx.from_(items).pipe(rs.container.json.dump_to_file(fn, encoding=enc, compression=comp)))
        else:
            stages = [rs.data.encode(enc)] + ([rs.compression.z.compress()] if comp else []) + [file.write(file=fn, mode='wb')]
            _, wend = collect(rx.from_(lines).pipe(*stages))
        with open(fn, 'rb') as f:
            raw = f.read()
        unzip_err = None
        if comp:
            try:
                data = gzip.decompress(raw)
            except Exception as ex:
                data, unzip_err = b'', type(ex).__name__
        else:
            data = raw
        loaded, lend = collect(rs.container.json.load_from_file(fn, encoding=enc, compression=comp))
    finally:
        if os.path.exists(fn):
            os.remove(fn)
    blocks = split_by(data, [[BLOCK, len(data) // BLOCK]])     # what the decode stage of load_from_file is given
    e = drive_once(rs.data.encode(enc), lines)
    d = drive_once(rs.data.decode(enc), blocks)
    shape = shape_of(enc, data, blocks)
    shape.update(items=len(items), file_bytes=len(raw))
    return {'write_end': wend, 'unzip_err': unzip_err, 'file': pack(data), 'lines': pack_text(''.join(lines)),
            'line_lens': rl1([len(l) for l in lines]), 'loaded': pack_text(canon_objs(loaded)), 'n_loaded': len(loaded),
            'load_end': lend, 'enc': pack_run(e, False), 'dec': pack_run(d, True), 'enc_err': e['err'],
            'dec_err': d['err'], 'shape': shape}


def first_diff(a, b):
    n = min(len(a), len(b))
    if a[:n] == b[:n]:
        return n
    lo, hi = 0, n                              # a[:lo] == b[:lo], a[:hi] != b[:hi]
    while hi - lo > 1:
        mid = (lo + hi) // 2
        if a[:mid] == b[:mid]:
            lo = mid
        else:
            hi = mid
    return lo


def where_scale(case, obs, got_text, text):
    sh = obs.get('shape', {})
    at = first_diff(got_text, text)
    return (' [scale/%s: %d bytes in %d chunks, largest %d, %d cuts inside a character, %d chunks >= 64 KiB while a '
            'partial character was pending; decoded text: %d of %d characters, first difference at character %d: '
            'got %r want %r]' % (case.get('flavour'), sh.get('bytes', -1), sh.get('chunks', -1), sh.get('max_chunk', -1),
                                 sh.get('cuts_inside', -1), sh.get('big_chunks_while_pending', -1), len(got_text),
                                 len(text), at, got_text[at:at + 8], text[at:at + 8]))


def oracle_scale(case, obs):
    enc = case['enc']
    esteps, eerr, eend = unpack_run(obs['enc'], False)
    dsteps, derr, dend = unpack_run(obs['dec'], True)
    enc_items = [o for st in esteps for o in st]
    got_text = ''.join(o for st in dsteps for o in st)
    if case['sub'] == 'stream':
        text = scale_text(case)
        try:
            ref = text.encode(enc)
        except UnicodeError:
            return None if eerr else {'sig': enc + ':encode-silent@scale', 'what': 'unencodable text did not raise'}
        f = judge_wf(enc, text, ref, enc_items, eerr, eend, got_text, derr, dend)
        return {'sig': f['sig'] + '@scale', 'what': f['what'] + where_scale(case, obs, got_text, text)} if f else None
    # dump: the file must hold the one-shot encoding of the JSON lines of the items, the BOM once; it must read back
    items = dump_items(case)
    what = 'json.dump_to_file' if case['writer'] == 'dump' else 'json.dump | data.encode | file.write'
    what += ' of %d items, %s%s: ' % (len(items), enc, ', ' + case['compression'] if case.get('compression') else '')
    if obs['write_end'] != 'completed':
        return {'sig': enc + ':file-write@scale', 'what': what + 'writing ended with %s' % obs['write_end']}
    if obs['unzip_err']:
        return {'sig': enc + ':file-unzip@scale', 'what': what + 'the file is not a gzip file (%s)' % obs['unzip_err']}
    data = unpack(obs['file'])
    text = unpack_text(obs['lines'])
    lines = split_by(text, obs['line_lens'])
    ok_lines = len(lines) == len(items)
    if ok_lines:
        try:
            ok_lines = all(l.endswith('\n') and pyjson.loads(l) == it for l, it in zip(lines, items))
        except ValueError:
            ok_lines = False
    if not ok_lines:
        return {'sig': enc + ':file-lines@scale', 'what': what + 'json.dump() did not emit one JSON line per item'}
    ref, le, bom = text.encode(enc), text.encode(LE[enc]), BOM[enc]
    if data != ref:
        if bom:
            u = UNIT[enc]
            units = [data[i:i + u] for i in range(0, len(data), u)]
            marks = sum(1 for x in units if x == bom)
            if marks != 1 + text.count('\ufeff') and b''.join(x for x in units if x != bom) == text.replace('\ufeff', '').encode(LE[enc]):
                return {'sig': enc + ':bom-not-once@scale', 'what': what + 'the byte-order mark is in the file %d times, '
                        'not once at the front (not counting the %d U+FEFF characters of the items); first difference '
                        'from the encoding of the lines at byte %d of %d' % (
                            marks - text.count('\ufeff'), text.count('\ufeff'), first_diff(data, ref), len(data))}
        at = first_diff(data, ref)
        return {'sig': enc + ':file-bytes@scale', 'what': what + 'the %d bytes written are not the encoding of the lines '
                '(%d bytes): first difference at byte %d: %r / %r' % (len(data), len(ref), at, data[at:at + 12], ref[at:at + 12])}
    if obs['load_end'] != 'completed' or unpack_text(obs['loaded']) != canon_objs(items):
        return {'sig': enc + ':file-readback@scale', 'what': what + 'json.load_from_file ended %s with %d of %d objects, or '
                'different ones' % (obs['load_end'], obs['n_loaded'], len(items))}
    f = judge_wf(enc, text, ref, enc_items, eerr, eend, got_text, derr, dend)
    if f:
        return {'sig': f['sig'] + '@scale-file-blocks', 'what': what + f['what'] + where_scale(case, obs, got_text, text)}
    return None


def rlp(s, periods, conv):
    """run-length form [[block, repetitions], ...] of a str / bytes that is periodic over long stretches (candidate
    period lengths given); what is not periodic goes into blocks repeated once"""
    out, i, n, lit = [], 0, len(s), 0
    periods = sorted(set(p for p in periods if p > 0))
    while i < n:
        best = None
        for p in periods:
            if i + 2 * p <= n and s[i:i + p] == s[i + p:i + 2 * p]:
                pat, k = s[i:i + p], 2
                while s.startswith(pat, i + k * p):
                    k += 1
                if best is None or k * p > best[0] * best[1]:
                    best = (p, k)
        if best is None:
            i += 1
            continue
        if lit < i:
            out.append([conv(s[lit:i]), 1])
        out.append([conv(s[i:i + best[0]]), best[1]])
        i += best[0] * best[1]
        lit = i
    if lit < n:
        out.append([conv(s[lit:n]), 1])
    return out


def rl_lens(lens):
    """run-length form of a list of lengths, as blocks of lengths (periodic texts give periodic lengths)"""
    if len(lens) <= 64 or max(lens) >= 0x110000:
        return [[[v], n] for v, n in rl1(lens)]
    return rlp(''.join(chr(x) for x in lens), range(1, 65), cps)


def coq_term_scale(case, obs):
    """the whole case written flat and run-length coded for the model (CScale), when it is small enough; else
    CSkip (the dump cases are judged by the oracle only: their lines are not periodic)"""
    if not case.get('model') or case['sub'] != 'stream':
        return 'CSkip'
    enc = case['enc']
    e, d = obs['enc'], obs['dec']
    text = scale_text(case)
    tp = [len(p) for p, _ in case['segs']]
    bp = [len(text_of([p]).encode(LE[enc])) for p, _ in case['segs']]
    t = lambda x: c_rl(rlp(x, tp, cps))
    b = lambda x: c_rl(rlp(x, bp, list))
    pairs = lambda r: c_rl([[[v], n] for v, n in r])
    if any(v != 1 for v, _ in e['counts'] + d['counts']):
        return 'CRaised'            # a step with no item or with several: nothing the model ever says
    return 'CScale %s %s %s %s %s %s %s %s %s %s %s %s %s' % (
        COQ_ENC[enc],
        t(text), pairs(case['strlens']), b(unpack(e['out'])), c_rl(rl_lens(unrl1(e['lens']))), COQ_ERR[e['err']],
        c_bool(e['end'] == 'completed'),
        b(text.encode(enc)), pairs(case['sizes']), t(unpack_text(d['out'])), c_rl(rl_lens(unrl1(d['lens']))),
        COQ_ERR[d['err']], c_bool(d['end'] == 'completed'))


def generate(rng, tier):
    n = {'quick': 520, 'thorough': 15000, 'search': 400}[tier]
    cases = []
    for i in range(n):
        r = rng.random()
        c = gen_bad_dec(rng) if r < 0.13 else gen_bad_enc(rng) if r < 0.17 else gen_wf(rng, tier != 'quick')
        cases.append(with_subs(rng, c) if rng.random() < 0.35 else c)
    if tier != 'search':
        cases += fixed_cases() + fixed_bad() + exhaustive_cuts(1) + exhaustive_cuts(2) + resub_cuts()
        cases += [with_subs(rng, c) for c in fixed_cases() + fixed_bad()]
        cases += gen_files(rng, tier)
    else:
        cases += fixed_cases() + fixed_bad() + [with_subs(rng, c) for c in fixed_cases()]
    if tier == 'thorough':
        cases += exhaustive_cuts(3)
    scale = gen_scale(rng, tier)                # drawn last: the cases above are what they were without it
    return cases + scale if tier == 'search' else spread(cases, scale)


def drive(op, inputs):
    """run_timed; when an exception of the codec escapes, the step at which it did is located by re-running
    the prefixes (every run is a fresh subscription, hence a fresh codec object)."""
    try:
        r = run_timed(op, inputs)
        return {'steps': r['steps'] + [r['final']], 'err': None, 'end': r['end']}
    except Exception as e:
        err = type(e).__name__
    prev = {'steps': []}
    for k in range(len(inputs) + 1):
        try:
            r = run_timed(op, inputs[:k], end=None)
        except Exception:
            break                  # input k-1 raised: the emissions before it are those of the previous prefix
        prev = r
    return {'steps': prev['steps'], 'err': err, 'end': 'raised'}


class HandSource:
    """a cold source driven by hand that can be subscribed again and again: every subscription registers its
    observer here (rx.create wraps it; an exception of on_next reaches the caller)"""
    def __init__(self):
        self.observer = None

    def __call__(self, observer, scheduler=None):
        from rx.disposable import Disposable
        self.observer = observer
        return Disposable()


def drive_sub(pipe, src, inputs, k):
    """ONE subscription of the pipeline object `pipe`: k = None pushes all inputs and completes, otherwise the
    first k inputs are pushed and the subscription is disposed.  Same shape of result as drive()."""
    cur, ending = [], ['none']

    def on_error(e):
        if ending[0] == 'none':
            ending[0] = 'error:' + type(e).__name__

    def on_completed():
        if ending[0] == 'none':
            ending[0] = 'completed'
    sub = pipe.subscribe(on_next=lambda x: cur.append(x), on_error=on_error, on_completed=on_completed)
    o, steps, err = src.observer, [], None
    try:
        for x in (inputs if k is None else inputs[:k]):
            del cur[:]
            o.on_next(x)
            steps.append(list(cur))
        if k is None:
            del cur[:]
            o.on_completed()
            steps.append(list(cur))
    except Exception as e:
        err = type(e).__name__
    sub.dispose()
    return {'steps': steps, 'err': err, 'end': 'raised' if err else ('disposed' if ending[0] == 'none' else ending[0])}


def resubscribe(make_op, inputs, plan, share):
    """the operator object is made ONCE; share == 'pipe': also the pipeline op(source) is built once and subscribed
    len(plan) times; share == 'op': the operator is applied to the source anew for every subscription"""
    import rx
    op, src = make_op(), HandSource()
    source = rx.create(src)
    pipe = op(source) if share == 'pipe' else None
    return [drive_sub(pipe if pipe is not None else op(source), src, inputs, k) for k in plan]


def enc_view(r):
    return {'steps': [[list(b) for b in st] for st in r['steps']], 'err': r['err'], 'end': r['end']}


def dec_view(r):
    return {'steps': [[cps(t) for t in st] for st in r['steps']], 'err': r['err'], 'end': r['end']}


def run_impl(case):
    import rxsci as rs
    if case['kind'] == 'file':
        return run_file(case)
    if case['kind'] == 'scale':
        return run_scale(case)
    enc = case['enc']
    strs = [''.join(chr(c) for c in s) for s in case['strs']]
    chunks = [bytes(c) for c in case['chunks']]
    e = drive(rs.data.encode(enc), strs)
    d = drive(rs.data.decode(enc), chunks)
    obs = {'enc_steps': [[list(b) for b in st] for st in e['steps']], 'enc_err': e['err'], 'enc_end': e['end'],
           'dec_steps': [[cps(t) for t in st] for st in d['steps']], 'dec_err': d['err'], 'dec_end': d['end']}
    if d['err'] is None and d['end'] == 'completed' and len(chunks) >= 2:
        # two subscribers LIVE AT THE SAME TIME on one decode pipeline over a hot source: each subscription decodes
        # the stream for itself (pending bytes and BOM state belong to the subscription, not to the pipeline)
        from rx.subject import Subject
        subj = Subject()
        pipe = rs.data.decode(enc)(subj)
        outs, ends = ([], []), ([], [])
        for q in (0, 1):
            pipe.subscribe(on_next=outs[q].append, on_error=lambda e, q=q: ends[q].append('error:' + type(e).__name__),
                           on_completed=lambda q=q: ends[q].append('completed'))
        try:
            for c in chunks:
                subj.on_next(c)
            subj.on_completed()
        except Exception as e:
            ends[0].append('raised:' + type(e).__name__)
        obs['dual'] = [{'text': cps(''.join(outs[q])), 'end': ends[q]} for q in (0, 1)]
        obs['dual_want'] = cps(''.join(t for st in d['steps'] for t in st))
    if case.get('subs'):
        plan = case['subs']
        es = resubscribe(lambda: rs.data.encode(enc), strs, [None if p is None else p[1] for p in plan], case['share'])
        ds = resubscribe(lambda: rs.data.decode(enc), chunks, [None if p is None else p[0] for p in plan], case['share'])
        obs['resub'] = [{'enc': enc_view(a), 'dec': dec_view(b)} for a, b in zip(es, ds)]
    return obs


# --- files -------------------------------------------------------------------------------------------
FILES = os.path.join(core.WORK, PID, 'files')
MARK = '<<'


def rl(xs, u=1):
    """run-length form [[block, repetitions], ...] of a list of ints, blocks of u items (one code unit)"""
    out = []
    for i in range(0, len(xs), u):
        x = list(xs[i:i + u])
        if out and out[-1][0] == x:
            out[-1][1] += 1
        else:
            out.append([x, 1])
    return out


def unrl(r):
    out = []
    for v, n in r:
        out += v * n
    return out


def file_records(case, pads):
    ch = chr(case['cp'])
    return [{'i': b, 'p': 'x' * pads[b], 'c': MARK + ch + ch + '>>' + ch} for b in range(case['nb'])] + [{'i': -1, 'p': '', 'c': ch}]


def collect(o):
    out, end = [], []
    o.subscribe(on_next=out.append, on_error=lambda e: end.append('error:' + type(e).__name__),
                on_completed=lambda: end.append('completed'))
    return out, (end[0] if end else 'pending')


def write_file(case, fn, records):
    """-> (the text lines handed to rs.data.encode, what encode emitted, how writing ended)"""
    import rx
    import rxsci as rs
    enc = case['enc']
    if case['writer'] == 'dump':
        lines, _ = collect(rx.from_(records).pipe(rs.container.json.dump()))
        _, wend = collect(rx.from_(records).pipe(rs.container.json.dump_to_file(fn, encoding=enc)))
    else:
        lines = [pyjson.dumps(r, ensure_ascii=False) + '\n' for r in records]
        wend = 'completed'
    e = drive(rs.data.encode(enc), lines)
    if case['writer'] != 'dump':
        with open(fn, 'wb') as f:
            f.write(b''.join(o for st in e['steps'] for o in st))
    return lines, e, wend


def run_file(case):
    import rxsci as rs
    import rxsci.io.file as file
    enc, u = case['enc'], UNIT[case['enc']]
    os.makedirs(FILES, exist_ok=True)
    fn = os.path.join(FILES, 'f%d.json' % os.getpid())
    try:
        # pass 1, no padding: where are the marked characters?  pass 2: pad every record so that k bytes of its
        # first marked character lie before the next multiple of 64 KiB
        pads = [0] * case['nb']
        write_file(case, fn, file_records(case, pads))
        with open(fn, 'rb') as f:
            data = f.read()
        mark, pos, shift = MARK.encode(LE[enc]), 0, 0
        for b in range(case['nb']):
            pos = data.find(mark, pos)
            while pos >= 0 and pos % u:
                pos = data.find(mark, pos + 1)
            if pos < 0:
                break
            pos += len(mark)
            pads[b] = max(0, (b + 1) * BLOCK - case['k'] - (pos + shift)) // u
            shift += pads[b] * u
        records = file_records(case, pads)
        lines, e, wend = write_file(case, fn, records)
        with open(fn, 'rb') as f:
            data = f.read()
        blocks, _ = collect(file.read(fn, mode='rb', size=BLOCK))
        straddle = []       # for every block boundary: bytes of an unfinished character / BOM before it
        for off in range(BLOCK, len(data), BLOCK):
            dec = codecs.getincrementaldecoder(enc)()
            try:
                dec.decode(data[:off])
                straddle.append(len(dec.getstate()[0]))
            except UnicodeError:
                straddle.append(-1)
        loaded, lend = collect(rs.container.json.load_from_file(fn, encoding=enc))
        d = drive(rs.data.decode(enc), blocks)
    finally:
        if os.path.exists(fn):
            os.remove(fn)
    canon = lambda o: rl(cps(pyjson.dumps(o, ensure_ascii=False, sort_keys=True)))
    return {'pads': pads, 'bytes': len(data), 'straddle': straddle, 'write_end': wend,
            'file_is_encoder_output': data == b''.join(o for st in e['steps'] for o in st),
            'written': [canon(r) for r in records], 'loaded': [canon(o) for o in loaded], 'load_end': lend,
            'strs': [rl(cps(l)) for l in lines], 'chunks': [rl(list(b), u) for b in blocks],
            'enc_steps': [[rl(list(b), u) for b in st] for st in e['steps']], 'enc_err': e['err'], 'enc_end': e['end'],
            'dec_steps': [[rl(cps(t)) for t in st] for st in d['steps']], 'dec_err': d['err'], 'dec_end': d['end']}


def oracle(case, obs):
    """C17 itself, judged with CPython's one-shot codecs only (no model); every subscription of a re-subscribed
    operator is judged like the first one and must equal a fresh operator step by step."""
    if 'raised' in obs:
        return {'sig': 'codec:harness-raised', 'what': 'running encode/decode failed with %s' % obs['raised']}
    if case['kind'] == 'file':
        return oracle_file(case, obs)
    if case['kind'] == 'scale':
        return oracle_scale(case, obs)
    f = judge(case, obs)
    if not f and obs.get('dual'):
        for q, r in enumerate(obs['dual']):
            if r['text'] != obs['dual_want'] or r['end'] != ['completed']:
                return {'sig': '%s:concurrent-subscribers' % case['enc'],
                        'what': 'two subscribers live at once on one decode pipeline: subscriber #%d got %s %s, a single '
                                'subscriber gets %s completed' % (q + 1, str(r['text'])[:120], r['end'], str(obs['dual_want'])[:120])}
    if f or not case.get('subs'):
        return f
    enc = case['enc']
    for j, (p, r) in enumerate(zip(case['subs'], obs['resub'])):
        where = ' [subscription #%d of the same %s object, plan %s]' % (
            j + 1, 'pipeline' if case.get('share') == 'pipe' else 'operator', case['subs'])
        if p is None:
            f = judge(case, {'enc_steps': r['enc']['steps'], 'enc_err': r['enc']['err'], 'enc_end': r['enc']['end'],
                             'dec_steps': r['dec']['steps'], 'dec_err': r['dec']['err'], 'dec_end': r['dec']['end']})
        else:
            f = judge_partial(case, p, r)
        if f:
            return {'sig': f['sig'] + '@resubscription', 'what': f['what'] + where}
        for side, k, n_in in (('enc', None if p is None else p[1], len(case['strs'])),
                              ('dec', None if p is None else p[0], len(case['chunks']))):
            fresh = {'steps': obs[side + '_steps'], 'err': obs[side + '_err'], 'end': obs[side + '_end']}
            want = like_fresh(fresh, k, n_in)
            if r[side] != want:
                return {'sig': '%s:resubscription-differs' % enc,
                        'what': '%s: fresh operator %r, this subscription %r%s' % (
                            {'enc': 'encode', 'dec': 'decode'}[side], str(want)[:120], str(r[side])[:120], where)}
    return None


def like_fresh(fresh, k, n_inputs):
    """what a subscription that gets the first k inputs (None: all, then completion) must show, given what a
    fresh operator showed on all inputs + completion"""
    if k is None:
        return fresh
    j = len(fresh['steps'])                       # with an error: number of pushes that went through
    if fresh['err'] is None or k <= min(j, n_inputs):
        return {'steps': fresh['steps'][:k], 'err': None, 'end': 'disposed'}
    return {'steps': fresh['steps'][:j], 'err': fresh['err'], 'end': 'raised'}


def judge_partial(case, p, r):
    """a subscription disposed after kd chunks / ke strings of a WELL-FORMED case: no error; the bytes so far are
    the one-shot encoding of the strings so far; the text so far is the prefix of the text that the bytes so
    far determine (at most one unfinished character / BOM held back)"""
    enc, kd, ke = case['enc'], p[0], p[1]
    if case['kind'] not in ('wf', 'cuts'):
        return None
    text = text_of(case['strs'])
    try:
        ref = text.encode(enc)
        want = text_of(case['strs'][:ke]).encode(enc) if ke else b''
    except UnicodeError:
        return None
    if bytes(sum(case['chunks'], [])) != ref:
        return None
    if r['enc']['err'] or r['dec']['err']:
        return {'sig': enc + ':partial-raised', 'what': 'a subscription disposed early raised %s/%s'
                % (r['enc']['err'], r['dec']['err'])}
    got_bytes = b''.join(bytes(o) for st in r['enc']['steps'] for o in st)
    if got_bytes != want:
        return {'sig': enc + ':encode-bytes', 'what': 'after %d strings: %r != %r' % (ke, got_bytes[:24], want[:24])}
    got = ''.join(''.join(chr(c) for c in o) for st in r['dec']['steps'] for o in st)
    pushed = sum(len(c) for c in case['chunks'][:kd])
    nb = len(BOM[enc])
    held = pushed - (len(got.encode(LE[enc])) + (nb if pushed >= nb else 0))
    if not text.startswith(got) or not 0 <= held <= 3:
        return {'sig': enc + ':decode-text', 'what': 'after %d bytes: got %r, text %r' % (pushed, got[:16], text[:16])}
    return None


def oracle_file(case, obs):
    enc = case['enc']
    if obs['write_end'] != 'completed':
        return {'sig': enc + ':file-write', 'what': 'dump_to_file ended with %s' % obs['write_end']}
    if obs['load_end'] != 'completed' or obs['loaded'] != obs['written']:
        n = next((i for i, (a, b) in enumerate(zip(obs['loaded'], obs['written'])) if a != b),
                 min(len(obs['loaded']), len(obs['written'])))
        return {'sig': enc + ':file-readback', 'what': 'json.load_from_file of a %d-byte %s file (U+%04X with %d of its '
                'bytes before each 64 KiB boundary; unfinished bytes at the boundaries: %s): ended %s with %d of %d '
                'objects, first difference at object %d' % (obs['bytes'], enc, case['cp'], case['k'], obs['straddle'],
                                                            obs['load_end'], len(obs['loaded']), len(obs['written']), n)}
    full = {'kind': 'wf', 'enc': enc, 'strs': [unrl(s) for s in obs['strs']], 'chunks': [unrl(c) for c in obs['chunks']]}
    f = judge(full, {'enc_steps': [[unrl(o) for o in st] for st in obs['enc_steps']], 'enc_err': obs['enc_err'],
                     'enc_end': obs['enc_end'],
                     'dec_steps': [[unrl(o) for o in st] for st in obs['dec_steps']], 'dec_err': obs['dec_err'],
                     'dec_end': obs['dec_end']})
    if f:
        return {'sig': f['sig'] + '@file-blocks', 'what': f['what']}
    if not obs['file_is_encoder_output']:
        return {'sig': enc + ':file-bytes', 'what': 'the file written is not the output of rs.data.encode on the lines'}
    return None


def judge_wf(enc, text, ref, enc_items, enc_err, enc_end, got_text, dec_err, dec_end):
    """well-formed input: `text` (ref = its one-shot encoding) was given to encode, which emitted the byte strings
    enc_items; a re-chunking of ref was given to decode, which emitted got_text in all"""
    got_bytes = b''.join(enc_items)
    if enc_err or enc_end != 'completed':
        return {'sig': enc + ':encode-raised', 'what': 'encode ended with %s/%s on encodable strings'
                % (enc_err, enc_end)}
    if got_bytes != ref:
        le = text.encode(LE[enc])
        nb = len(BOM[enc])
        stripped = b''.join(o[nb:] if nb and o.startswith(BOM[enc]) else o for o in enc_items)
        if BOM[enc] and got_bytes != BOM[enc] + le and (stripped == le or got_bytes == le):
            return {'sig': enc + ':bom-not-once', 'what': 'BOM not written exactly once at the front: %r'
                    % got_bytes[:24]}
        return {'sig': enc + ':encode-bytes', 'what': 'encode output %r != %r' % (got_bytes[:24], ref[:24])}
    if dec_err or dec_end != 'completed':
        return {'sig': enc + ':decode-raised', 'what': 'decode of a re-chunked valid stream ended with %s/%s'
                % (dec_err, dec_end)}
    if got_text != text:
        return {'sig': enc + ':decode-text', 'what': 'character lost/duplicated/replaced: got %r want %r'
                % (got_text[:16], text[:16])}
    return None


def judge(case, obs):
    enc = case['enc']
    got_bytes = b''.join(bytes(o) for st in obs['enc_steps'] for o in st)
    got_text = ''.join(''.join(chr(c) for c in o) for st in obs['dec_steps'] for o in st)
    text = text_of(case['strs'])
    data = bytes(sum(case['chunks'], []))
    kind = case['kind']
    if kind in ('wf', 'cuts'):
        try:
            ref = text.encode(enc)
        except UnicodeError:
            ref = None
        if ref is None or data != ref:      # a mislabelled (e.g. hand-written corpus) case: judge it as malformed
            kind = 'bad-enc' if ref is None else 'bad-dec'
    if kind in ('wf', 'cuts'):
        return judge_wf(enc, text, ref, [bytes(o) for st in obs['enc_steps'] for o in st], obs['enc_err'],
                        obs['enc_end'], got_text, obs['dec_err'], obs['dec_end'])
    if kind == 'bad-enc':
        try:
            text.encode(enc)
        except UnicodeError:
            if obs['enc_err'] is None:
                return {'sig': enc + ':encode-silent', 'what': 'unencodable string did not raise; emitted %r'
                        % got_bytes[:24]}
        return None
    # bad-dec: whatever the chunking, the result must be that of decoding the whole stream
    try:
        whole = data.decode(enc)
    except UnicodeError:
        if obs['dec_err'] is None:
            return {'sig': enc + ':silent-loss', 'what': 'undecodable/truncated stream %r completed silently with %r'
                    % (data[:16], got_text[:16])}
        return None
    has_bom = enc in ('utf-8', 'latin-1') or data[:len(BOM[enc])] in (BOM[enc], BOM[enc][::-1])
    if has_bom:  # (without BOM the incremental utf-16/32 decoders refuse what the one-shot codec accepts)
        if obs['dec_err']:
            return {'sig': enc + ':decode-raised', 'what': 'decodable stream %r raised %s' % (data[:16], obs['dec_err'])}
        if got_text != whole:
            return {'sig': enc + ':decode-text', 'what': 'got %r want %r' % (got_text[:16], whole[:16])}
    return None


def boundaries(case):
    """byte offsets at which a cut does NOT split a character or the BOM"""
    enc = case['enc']
    pos, b = len(BOM[enc]), {0}
    b.add(pos)
    for s in case['strs']:
        for c in s:
            pos += len(chr(c).encode(LE[enc]))
            b.add(pos)
    return b


def cut_offsets(case):
    offs, pos = [], 0
    for c in case['chunks'][:-1]:
        pos += len(c)
        offs.append(pos)
    return offs


def nontrivial(case, obs):
    if case['kind'] == 'scale':     # a cut inside a character (dump: the BOM must not be repeated / a block boundary inside one)
        sh = obs.get('shape', {}) if isinstance(obs, dict) else {}
        return sh.get('cuts_inside', 0) > 0 or (sh.get('items', 0) > 1024 and bool(BOM[case['enc']]))
    if case['kind'] == 'file':
        return isinstance(obs, dict) and any(x > 0 for x in obs.get('straddle', []))
    if case['kind'] not in ('wf', 'cuts') or len(case['chunks']) < 2:
        return False
    b = boundaries(case)
    return any(o not in b for o in cut_offsets(case))


def describe(cases, obs):
    d = {'by_encoding': {}, 'by_kind': {}, 'empty_chunks': 0, 'one_byte_chunkings': 0, 'max_chunks': 0,
         'cuts_inside_character': 0, 'cuts_inside_bom': 0, 'cases_with_astral': 0, 'cases_with_combining': 0,
         'cases_with_empty_string': 0, 'cases_with_no_string': 0, 'first_string_empty_bom_codec': 0,
         'decode_errors_observed': {}, 'encode_errors_observed': 0, 'max_stream_bytes': 0,
         'resubscribed_cases': 0, 'resubscriptions': 0, 'subscriptions_disposed_early': 0,
         'disposed_inside_character_or_bom': 0, 'resubscribed_by_sharing': {}, 'files': 0, 'file_bytes_max': 0,
         'file_block_boundaries': 0, 'file_boundaries_inside_character': {},
         'scale': {'cases': 0, 'by_flavour': {}, 'by_encoding': {}, 'compared_with_model': 0, 'oracle_only': 0,
                   'max_stream_bytes': 0, 'max_chunk_bytes': 0, 'max_string_chars': 0, 'max_chunks': 0,
                   'max_strings': 0, 'chunks_ge_64KiB_while_partial_character_pending': 0,
                   'cuts_inside_character': 0, 'max_astral_chars': 0, 'items_dumped': [], 'gzip_files': 0}}
    for c, o in zip(cases, obs):
        if c['kind'] == 'scale':
            sc, sh = d['scale'], (o.get('shape', {}) if isinstance(o, dict) else {})
            d['by_encoding'][c['enc']] = d['by_encoding'].get(c['enc'], 0) + 1
            d['by_kind']['scale'] = d['by_kind'].get('scale', 0) + 1
            sc['cases'] += 1
            sc['by_flavour'][c.get('flavour')] = sc['by_flavour'].get(c.get('flavour'), 0) + 1
            sc['by_encoding'][c['enc']] = sc['by_encoding'].get(c['enc'], 0) + 1
            sc['compared_with_model' if c.get('model') else 'oracle_only'] += 1
            for k, key in (('max_stream_bytes', 'bytes'), ('max_chunk_bytes', 'max_chunk'), ('max_string_chars', 'max_string'),
                           ('max_chunks', 'chunks'), ('max_strings', 'strings'), ('max_astral_chars', 'astral_chars')):
                sc[k] = max(sc[k], sh.get(key, 0))
            sc['chunks_ge_64KiB_while_partial_character_pending'] += sh.get('big_chunks_while_pending', 0)
            sc['cuts_inside_character'] += sh.get('cuts_inside', 0)
            if c['sub'] == 'dump':
                sc['items_dumped'].append('%s:%d' % (c['enc'], c['n']))
                sc['gzip_files'] += bool(c.get('compression'))
            continue
        if c['kind'] == 'file':
            d['by_encoding'][c['enc']] = d['by_encoding'].get(c['enc'], 0) + 1
            d['by_kind']['file'] = d['by_kind'].get('file', 0) + 1
            d['files'] += 1
            if isinstance(o, dict) and 'straddle' in o:
                d['file_bytes_max'] = max(d['file_bytes_max'], o['bytes'])
                d['file_block_boundaries'] += len(o['straddle'])
                for x in o['straddle']:
                    if x > 0:
                        key = '%s:%d-of-%d-bytes-before' % (c['enc'], x, len(chr(c['cp']).encode(LE[c['enc']])))
                        d['file_boundaries_inside_character'][key] = d['file_boundaries_inside_character'].get(key, 0) + 1
            continue
        if c.get('subs'):
            ins = set(inside_points(c))
            d['resubscribed_cases'] += 1
            d['resubscriptions'] += len(c['subs'])
            d['subscriptions_disposed_early'] += sum(1 for p in c['subs'] if p is not None)
            d['disposed_inside_character_or_bom'] += sum(1 for p in c['subs'] if p is not None and p[0] in ins)
            d['resubscribed_by_sharing'][c['share']] = d['resubscribed_by_sharing'].get(c['share'], 0) + 1
        d['by_encoding'][c['enc']] = d['by_encoding'].get(c['enc'], 0) + 1
        d['by_kind'][c['kind']] = d['by_kind'].get(c['kind'], 0) + 1
        d['empty_chunks'] += sum(1 for ch in c['chunks'] if not ch)
        d['max_chunks'] = max(d['max_chunks'], len(c['chunks']))
        n = sum(len(ch) for ch in c['chunks'])
        d['max_stream_bytes'] = max(d['max_stream_bytes'], n)
        if n >= 2 and all(len(ch) == 1 for ch in c['chunks']):
            d['one_byte_chunkings'] += 1
        if c['kind'] in ('wf', 'cuts'):
            b = boundaries(c)
            nb = len(BOM[c['enc']])
            for off in cut_offsets(c):
                if off not in b:
                    d['cuts_inside_bom' if off < nb else 'cuts_inside_character'] += 1
            flat = [x for s in c['strs'] for x in s]
            d['cases_with_astral'] += any(x >= 0x10000 for x in flat)
            d['cases_with_combining'] += any(0x300 <= x < 0x370 for x in flat)
            d['cases_with_empty_string'] += any(not s for s in c['strs'])
            d['cases_with_no_string'] += not c['strs']
            d['first_string_empty_bom_codec'] += bool(nb and c['strs'] and not c['strs'][0])
        if isinstance(o, dict) and o.get('dec_err'):
            d['decode_errors_observed'][o['dec_err']] = d['decode_errors_observed'].get(o['dec_err'], 0) + 1
        if isinstance(o, dict) and o.get('enc_err'):
            d['encode_errors_observed'] += 1
    return d


def coq_preamble():
    return ('From Coq Require Import List NArith Bool.\nImport ListNotations.\n'
            'From RxVerif Require Import Base.Corr Codec.Utf8 Codec.Wrapper Codec.C17Corr.\n')


CTYPE = 'c17case'
CHECKER = 'c17_check'


def nss(xs):
    return c_list([c_nlist(x) for x in xs])


def c_rl(r):
    return c_list(['(%s,%d%%N)' % (c_nlist(v), n) for v, n in r]) if r else '[]'


def c_run(k, r):
    if r['err'] not in COQ_ERR:
        raise ValueError(r['err'])
    return '(%s, %s, %s, %s)' % ('None' if k is None else '(Some %d)' % k, c_list([nss(st) for st in r['steps']]),
                                 COQ_ERR[r['err']], c_bool(r['end'] == 'completed'))


def coq_term(case, obs):
    if 'raised' in obs or obs['enc_err'] not in COQ_ERR or obs['dec_err'] not in COQ_ERR:
        return 'CRaised'
    if case['kind'] == 'scale':
        return coq_term_scale(case, obs)
    if case['kind'] == 'file':
        rss = lambda xs: c_list([c_rl(x) for x in xs])
        return 'CFileRL %s %s %s %s %s %s %s %s %s' % (
            COQ_ENC[case['enc']],
            rss(obs['strs']), c_list([rss(st) for st in obs['enc_steps']]), COQ_ERR[obs['enc_err']],
            c_bool(obs['enc_end'] == 'completed'),
            rss(obs['chunks']), c_list([rss(st) for st in obs['dec_steps']]), COQ_ERR[obs['dec_err']],
            c_bool(obs['dec_end'] == 'completed'))
    if case.get('subs'):
        try:
            er = [c_run(None, {'steps': obs['enc_steps'], 'err': obs['enc_err'], 'end': obs['enc_end']})]
            dr = [c_run(None, {'steps': obs['dec_steps'], 'err': obs['dec_err'], 'end': obs['dec_end']})]
            for p, r in zip(case['subs'], obs['resub']):
                er.append(c_run(None if p is None else p[1], r['enc']))
                dr.append(c_run(None if p is None else p[0], r['dec']))
        except ValueError:
            return 'CRaised'
        return 'CSubs %s %s %s %s %s' % (COQ_ENC[case['enc']], nss(case['strs']), c_list(er),
                                         nss(case['chunks']), c_list(dr))
    return 'CCase %s %s %s %s %s %s %s %s %s' % (
        COQ_ENC[case['enc']],
        nss(case['strs']), c_list([nss(st) for st in obs['enc_steps']]), COQ_ERR[obs['enc_err']],
        c_bool(obs['enc_end'] == 'completed'),
        nss(case['chunks']), c_list([nss(st) for st in obs['dec_steps']]), COQ_ERR[obs['dec_err']],
        c_bool(obs['dec_end'] == 'completed'))


def coq_model_expr(case):
    if case['kind'] == 'scale':     # printed for the reader only: the model on the first characters, cut after 3 bytes
        head = (scale_text(case) if case['sub'] == 'stream' else pyjson.dumps(dump_items(case)[:1]))[:6]
        ref = list(head.encode(case['enc']))
        return '(encode %s %s, decode %s %s)' % (COQ_ENC[case['enc']], nss([cps(head)]), COQ_ENC[case['enc']],
                                                 nss([ref[:3], ref[3:]]))
    if case['kind'] == 'file':      # the neighbourhood of the first boundary is what matters; printed for the reader only
        ch = cps(chr(case['cp']).encode(LE[case['enc']]).decode('latin-1'))
        return '(decode %s %s)' % (COQ_ENC[case['enc']], nss([list(BOM[case['enc']]) + ch[:case['k']], ch[case['k']:]]))
    return '(encode %s %s, decode %s %s)' % (COQ_ENC[case['enc']], nss(case['strs']),
                                             COQ_ENC[case['enc']], nss(case['chunks']))


def neighbours(case, rng):
    """other chunkings of the same stream, and the same stream cut short"""
    if case['kind'] == 'file':
        return [dict(case, k=k) for k in range(0, 5) if k % UNIT[case['enc']] == 0]
    if case['kind'] == 'scale':     # the same text under other chunkings / the same items in the other encodings
        if case['sub'] == 'dump':
            return [dict(case, enc=e, model=False) for e in ENCS if e != case['enc']]
        return [dict(case, model=False, sizes=[[rng.randrange(1, 8), 1], [rng.choice(BIG[:2]), rng.randrange(1, 4)]])
                for _ in range(4)]
    data = sum(case['chunks'], [])
    out = []
    if not case.get('subs'):
        out += [with_subs(rng, case) for _ in range(3)]
    for _ in range(6):
        out.append(dict(case, chunks=cut(rng, data, rng.choice([1, 2, 3, len(data)]))))
    out.append(dict(case, chunks=[[b] for b in data]))
    if data:
        out.append({'kind': 'bad-dec', 'enc': case['enc'], 'strs': [], 'chunks': [data[:-1]]})
    return out


CLAIM = {
    'text': 'Theorems (Coq, closed under the global context): for utf-8, utf-16 (surrogate pairs), utf-32 and latin-1, '
            'for EVERY Unicode scalar value c (latin-1: c < 256) and every continuation: parse1 (enc c ++ rest) = '
            'Some (c, rest); parse1 makes progress and its answer is stable under more input; the decoders only '
            'produce scalar values. Hence, via the generic incremental-parser lemmas, for ALL lists of strings '
            '(incl. empty strings, no string) and ALL byte-level re-chunkings of the encoder output (empty chunks, '
            'cuts inside a multi-byte sequence, a surrogate pair or the BOM): decode completes without error, emits '
            'one item per chunk plus the final flush, and the concatenation of the items equals the concatenation of '
            'the strings (nothing lost, duplicated or replaced). encode emits one item per string plus the final '
            'flush; the BOM is in front of the first emitted item only - CPython writes it in the FIRST encode() '
            'call even when that string is empty, and in the final flush when there was no string. The model is '
            'tied to rxsci/data/codec.py + CPython by evaluating it in Coq on the inputs the real encode/decode were '
            'run on: per-item bytes, per-chunk code points, final flushes and (malformed inputs) the step and class '
            'of the escaping exception are compared; all 1- and 2-cut (thorough: 3-cut) placements of short texts '
            'in every encoding are included. A SCALE family runs the same comparison on large inputs: chunks of '
            '64 KiB, 128 KiB and 1 MiB that arrive while the decoder holds a partial character (odd offset / between '
            'surrogates / inside a utf-32 unit / inside a utf-8 sequence / inside the BOM), strings of several MiB, '
            'thousands of one-character strings and 1-5 byte chunks, long runs of code points above U+FFFF, and '
            'files of 1025-20000 items written by json.dump_to_file in every encoding (BOM once, read back equal); '
            'all of them are judged by CPython one-shot codecs, and the stream cases up to 300 KiB (thorough 1.2 MiB) '
            'are evaluated in Coq as well.',
    'note': 'Trusted: Coq kernel+VM; hand-written model of codec.py and of CPython\'s incremental codecs (tied by '
            'correspondence only); little-endian host. Malformed streams and unencodable strings are modelled '
            'explicitly (error results) and corresponded, but the theorems speak about well-formed input only. '
            'incremental=False is out of scope (it is chunk-boundary DEPENDENT by design). Scale cases above the size '
            'limit and the dump_to_file scale cases are NOT compared with the model (term CSkip): for them only the '
            'model-free oracle speaks.',
    'technique': 'Coq proof (bit arithmetic as div/mod closed by lia with euclidean-division equations; generic '
                 'incremental parser with progress + prefix stability; BOM invariant over the chunk list) + '
                 'vm_compute correspondence',
}
