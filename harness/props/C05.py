"""C05 - roll produces exactly the count-based sliding windows, in order."""
import json
from harness import muxlib, muxgen
from harness.pyval import enc, dec

PID = 'C05'
RULE = ('roll(w, s, inner) for every 1 <= w,s <= 8 (thorough: 12) x stream lengths 0..40 (thorough 80), '
        'inner pipeline to_list / count(reduce) / last / identity / sum, at top level, under group_by with interleaved '
        'keys, and nested in roll/split; plus random (w, s, n). non-trivial = at least one window wraps the ring '
        '(n > density * s) or >= 2 windows open at completion; distinct = distinct case JSON; a scale family: windows and strides of 50..1001 (window = k*stride + small remainder) and one key with more than 65536 items (oracle only above 300 events)')
TRUSTED = ['modelled not verified: RxPY synchronous delivery; typed arrays of MemoryStore (tied by C14)']
ASSUMPTIONS = ['window >= 1, stride >= 1 (rs.data.roll raises ValueError otherwise)']
SHARD = 150
COQ_TARGETS = ['theories/Mux/MuxCorr.vo']
CTYPE = 'muxcase'
CHECKER = 'mux_check'


def mk(w, s, n, inner, ctx, rng):
    items = [enc(i) for i in range(n)]
    if ctx == 'top':
        ast = [['roll', w, s, inner]]
        trace = [['c', [2]]] + [['n', [2], x] for x in items] + [['d', [2]]]
    elif ctx == 'group':
        ast = [['group', ['mod', 2], [['roll', w, s, inner]]]]
        trace = [['c', [0]]] + [['n', [0], x] for x in items] + [['d', [0]]]
    elif ctx == 'keys':
        ast = [['roll', w, s, inner]]
        trace = muxgen.gen_trace(rng, muxgen.INT, nkeys=rng.choice([2, 3]))
    elif ctx == 'nested':
        ast = [['roll', rng.randint(1, 5), rng.randint(1, 3), [['roll', w, s, inner]]]]
        trace = [['c', [1]]] + [['n', [1], x] for x in items] + [['d', [1]]]
    else:
        ast = [['split', ['floordiv', 7], [['roll', w, s, inner]]]]
        trace = [['c', [1]]] + [['n', [1], x] for x in items] + [['d', [1]]]
    return {'ast': ast, 'trace': trace, 'w': w, 's': s, 'ctx': ctx, 'inner': inner}


INNERS = [[['to_list']], [['to_list']], [['count', 1]], [['last']], [], [['sum', None, 1]],
          [['to_list'], ['map', ['len']]]]


def generate(rng, tier):
    cases = []
    W = 8 if tier == 'quick' else 12
    lens = [0, 1, 2, 3, 5, 8, 13, 21, 40] if tier == 'quick' else list(range(0, 30)) + [40, 55, 80]
    if tier != 'search':
        for w in range(1, W + 1):
            for s in range(1, W + 1):
                for n in (lens if tier != 'quick' else rng.sample(lens, 4)):
                    cases.append(mk(w, s, n, [['to_list']], 'top', rng))
    m = {'quick': 250, 'thorough': 6000, 'search': 300}[tier]
    for _ in range(m):
        w, s = rng.randint(1, 9), rng.randint(1, 9)
        n = rng.choice([0, 1, 2, 4, 7, 11, 16, 25, 33])
        cases.append(mk(w, s, n, rng.choice(INNERS), rng.choice(['top', 'group', 'keys', 'nested', 'split', 'keys']), rng))
    # scale: large windows and strides (ring density arithmetic at window = k*stride + small remainder), keys with
    # more items than 16-bit counters hold
    big = [(201, 200), (501, 250), (1001, 1000), (64, 50), (50, 7), (128, 128), (257, 3), (300, 299), (256, 255), (3, 200),
           (257, 257), (300, 300), (1000, 1000), (400, 150)]
    # every entry in every run (a sample would make the detection of a defect at one size a matter of luck)
    for (w, s) in (big if tier != 'search' else rng.sample(big, 1)):
        for n in ([2 * w + s + 3] if tier != 'thorough' else [w - 1, w, w + s + 3, 2 * w + s + 3]):
            cases.append(mk(w, s, n, [['to_list']], 'top', rng))
    if tier != 'search':
        for (w, s) in ([rng.choice([(3, 2), (4, 2), (5, 3)])] if tier == 'quick' else [(3, 2), (4, 2), (5, 3), (50, 7)]):
            cases.append(mk(w, s, 65536 + 2 * w + 5, [['to_list']], 'top', rng))
    return cases


def run_impl(case):
    return muxlib.run_mux(case['ast'], case['trace'])


def windows_timed(w, s, xs):
    """the property, per input position: lists closed while item i is consumed (full windows: when their w-th item
    arrives), then the partial windows at completion in opening order"""
    n = len(xs)
    per = [[] for _ in range(n)]
    for j in range(0, n):
        st = j * s
        if st >= n:
            break
        if st + w - 1 < n:
            per[st + w - 1].append(xs[st:st + w])
    tail = [xs[j * s:] for j in range(0, n) if j * s < n and j * s + w > n]
    return per, tail


def oracle(case, obs):
    if 'raised' in obs:
        return {'sig': 'roll:raised', 'what': 'roll raised %s' % obs['raised']}
    if case['inner'] != [['to_list']] or case['ctx'] not in ('top', 'keys'):
        return None
    w, s = case['w'], case['s']
    for key, items in muxgen.lifetimes_of(case['trace']):
        pos = [p for p, e in enumerate(case['trace']) if e[1] == key]
    # per lifetime occurrence
    occ, cur = [], {}
    for p, e in enumerate(case['trace']):
        k = tuple(e[1])
        if e[0] == 'c':
            cur[k] = {'items': [], 'pos': [], 'done': None}
            occ.append(cur[k])
        elif e[0] == 'n':
            cur[k]['items'].append(e[2])
            cur[k]['pos'].append(p)
        else:
            cur[k]['done'] = p
    for o in occ:
        per, tail = windows_timed(w, s, o['items'])
        for i, p in enumerate(o['pos']):
            got = [x[2] for x in obs['steps'][p] if x[0] == 'n']
            want = [['l', wl] for wl in per[i]]
            if got != want:
                return {'sig': 'roll:window-content', 'what': 'roll(%d,%d) item %d of %s: emitted %s, windows closing there %s'
                        % (w, s, i, short(o['items']), json.dumps(got)[:150], json.dumps(want)[:150])}
        if o['done'] is not None:
            got = [x[2] for x in obs['steps'][o['done']] if x[0] == 'n']
            want = [['l', wl] for wl in tail]
            if got != want:
                sig = 'roll:flush-order' if sorted(map(json.dumps, got)) == sorted(map(json.dumps, want)) else 'roll:flush-content'
                return {'sig': sig, 'what': 'roll(%d,%d) on %s: partial windows at completion %s, in opening order %s'
                        % (w, s, short(o['items']), json.dumps([dec(g) for g in got])[:150], json.dumps([dec(g) for g in want])[:150])}
    return None


def short(xs):
    return json.dumps([dec(x) for x in xs])[:120]


def nontrivial(case, obs):
    w, s = case['w'], case['s']
    d = -(-w // s)
    return any(len(items) > d * s for _, items in muxgen.lifetimes_of(case['trace']))


def describe(cases, obs):
    rel = {'s<w': 0, 's=w': 0, 's>w': 0, 'w%s!=0': 0}
    ctx = {}
    for c in cases:
        rel['s<w' if c['s'] < c['w'] else 's=w' if c['s'] == c['w'] else 's>w'] += 1
        rel['w%s!=0'] += 1 if c['w'] % c['s'] else 0
        ctx[c['ctx']] = ctx.get(c['ctx'], 0) + 1
    return {'stride_vs_window': rel, 'contexts': ctx, 'max_len': max(len(c['trace']) for c in cases),
            'largest_window': max(c['w'] for c in cases), 'largest_stride': max(c['s'] for c in cases)}


def coq_preamble():
    return muxlib.MUX_PREAMBLE


def coq_term(case, obs):
    return muxlib.coq_muxcase(case['ast'], case['trace'], obs)


def coq_model_expr(case):
    return 'mux_model %s %s' % (muxlib.coq_pipe(case['ast']), muxlib.coq_trace(case['trace']))


CLAIM = {
    'text': 'Theorems (Coq) for ALL w >= 1, s >= 1, all lengths, any number of ring wrap-arounds, any inner machine: both code paths refine their per-key machines at slot level; after n items ring slot o holds start iff start = j*s, j mod d = o, start < n < start + w (no window lost or overwritten); item i is delivered to window st iff st = j*s <= i < st+w; the inner machine of an open window is a fresh one fed exactly the items since its start; closed-form timed output: while the i-th item is consumed the roll emits, per ring slot, what a fresh inner machine fed the items since the window start emits on it plus its completion output if this is the w-th item of the window (C05_output_while_an_item_is_consumed), and at completion the open windows emit their completion output in the flush order (C05_output_at_completion); at completion the partial windows are flushed at increasing positions j+d-q, i.e. in opening order; for w = s the windows are consecutive chunks of w items plus a final shorter non-empty one, each processed by a fresh inner machine. Tied by exhaustive (w,s) <= 8 (12) x lengths, under group_by/roll/split; oracle: timed window spec.',
    'note': 'Trusted: Coq kernel+VM; hand-written model tied by correspondence.',
    'technique': 'Coq proof (forward-simulation refinement of a slot-level model by per-key local machines, list-level induction) + vm_compute correspondence against /repo + model-free oracle',
}
