"""C12 - math aggregates are accurate and numerically stable
(rxsci/math/{sum,mean,min,max,variance,stddev}.py, rxsci/math/formal/{__init__,variance,stddev}.py)."""
import math
from fractions import Fraction
from harness import core
from harness.rxutil import run_timed
from harness.core import c_list, c_bool

PID = 'C12'
RULE = ('cases: (aggregate in sum/mean/min/max/variance/stddev/formal.variance/formal.stddev) x (plain Observable | '
        'rs.ops.multiplex([with_memory_store(op)]) | two interleaved keys of a MuxObservable) x (key_mapper identity | '
        'tuple field | dict field) x a number sequence; every case is run with reduce=False (items pushed one at a time, '
        'every emitted value recorded with the step it was emitted at) AND reduce=True. Sequences: length 0..300 '
        '(thorough: up to 3000, a few of 10^4), gaussian data with mean/std ratio 0..1e6 at scales 1e-150..1e150, '
        'constants, negatives, sorted, cancelling sums, two scales in one sequence, subnormals, ints, mixed int/float, '
        'small pools incl. -0.0 and 1 vs 1.0 ties. Oracle (no model): exact rational arithmetic (integers scaled by a '
        'power of two) on the same numbers, for EVERY prefix: min/max must be equal as numbers; otherwise '
        '|v_hat - v| <= C*n*u*(kappa+1)*|v| + C*(n*u)^2*msq + tiny with C=8, u=2^-53, n = items seen, '
        'kappa = sum|x|/|sum x| for sum and mean, kappa = sqrt(sum x^2 / sum (x-mean)^2) for the variances, '
        'msq = sum x^2 / n (second-order term, variances only), tiny = C*(n+2)*2^-1074 (underflow); stddev is judged through '
        'its square (|s_hat^2 - v| <= 1.01*B_var + 4u*v); exactly one value per item when reduce=False, exactly one at '
        'completion when reduce=True; last streaming value == reduce value bit for bit. non-trivial = at least 3 items, '
        'not all equal; distinct = distinct case JSON')
TRUSTED = ['modelled not verified: CPython float arithmetic = IEEE-754 binary64 round-to-nearest-even (Coq kernel '
           'primitive floats), float(int) for |int| < 2^53, int/int true division on that range, math.sqrt correctly '
           'rounded, builtin sum() of CPython 3.12 (Neumaier compensated; transliterated in FloatModel.sum_int/sum_float), '
           'libm pow(x, 1.0) = x, libm pow(x, 2.0) within one ulp of x*x (where it differs from x*x the value CPython '
           'computes is given to the model as a hint and accepted only within one ulp)',
           'axioms (only under the C12_float_* theorems; the C12_exact_* theorems are closed '
           'under the global context): Coq standard library FloatAxioms (Prim2SF_valid, SF2Prim_Prim2SF, Prim2SF_SF2Prim, '
           'add_spec, abs_spec, eqb_spec, leb_spec, Leibniz.eqb_spec, div_spec, ltb_spec, sub_spec, mul_spec, opp_spec, sqrt_spec, next_up_spec, next_down_spec, ldshiftexp_spec, frshiftexp_spec, of_uint63_spec: the specification of the primitive binary64 '
           'operations, used by Flocq IEEE754.PrimFloat), the standard library axioms specifying the primitive 63-bit '
           'integers (Uint63.add_spec, sub_spec, eqb_correct, eqb_refl, leb_spec, ltb_spec, lor_spec, lsl_spec, lsr_spec, '
           'of_to_Z: float(count) goes through of_uint63) and the axioms of Reals (ClassicalDedekindReals.sig_forall_dec, '
           'sig_not_dec, Classical_Prop.classic, FunctionalExtensionality.functional_extensionality_dep); Flocq 4.1.0',
           'modelled not verified: rs.ops.scan / rs.ops.map delivery (one state per item, seed deep-copied per key), '
           'RxPY synchronous delivery, multiplex/memory store keeping the scan state per key']
ASSUMPTIONS = ['finite inputs; every int item and every int partial sum is below 2^53 in magnitude; no overflow of a '
               'square ((x-mean)**2 raising OverflowError is outside the model)',
               'mean of an empty sequence with reduce=True ends with ZeroDivisionError (outside the quantifier of C12; '
               'compared with the model only)']
SHARD = 100
COQ_TARGETS = ['theories/Math/C12Corr.vo']

AGGS = ['sum', 'mean', 'min', 'max', 'var', 'std', 'fvar', 'fstd']
COQ_AGG = {'sum': 'ASum', 'mean': 'AMean', 'min': 'AMin', 'max': 'AMax', 'var': 'AVar', 'std': 'AStd',
           'fvar': 'AFVar', 'fstd': 'AFStd'}
C = 8
U = Fraction(1, 2 ** 53)
TINY = Fraction(1, 2 ** 1074)
STATS = {}   # aggregate -> largest observed error / bound (published in the evidence)


# ------------------------------------------------------------------------------------------------
# numbers <-> JSON: ints stay ints, floats travel as float.hex()
# ------------------------------------------------------------------------------------------------
def enc(v):
    if v is None:
        return None
    if isinstance(v, bool):
        return 'bool:%r' % v
    if isinstance(v, int):
        return v
    if isinstance(v, float):
        return v.hex()
    return 'obj:%s' % type(v).__name__


def dec(v):
    return float.fromhex(v) if isinstance(v, str) else v


# ------------------------------------------------------------------------------------------------
# generators
# ------------------------------------------------------------------------------------------------
POOL = [0, 1, 2, -1, 3, 0.5, -0.0, 0.0, 1.0, 2.0, 1e-3, 0.1, -2.5, 1e16, 3.0, 7, -7.0, 0.3]
SCALES = [1.0] * 6 + [1e-150, 1e150, 1e-100, 1e100, 1e-5, 1e7]
FAMILIES = ['normal'] * 6 + ['offset'] * 4 + ['const', 'ints', 'ints', 'mixed', 'mixed', 'neg', 'cancel', 'twoscale',
                                               'sorted', 'subnormal', 'uniform']


def gen_values(rng, fam, n):
    if fam == 'pool':
        return [rng.choice(POOL) for _ in range(n)]
    if fam == 'normal':
        ratio = rng.choice([0, 0, 1, 10, 1e3, -1e3])
        scale = rng.choice(SCALES)
        sig = rng.choice([1.0, 1.0, 0.5, 3.0])
        return [(ratio + sig * rng.gauss(0, 1)) * scale for _ in range(n)]
    if fam == 'offset':       # large common offset: mean/std up to 1e6 (1e8 in the search stage)
        ratio = rng.choice([1e4, 1e5, 1e6, 1e6, -1e6, 1e6 + 0.1])
        scale = rng.choice(SCALES)
        return [(ratio + rng.gauss(0, 1)) * scale for _ in range(n)]
    if fam == 'offset8':
        ratio = rng.choice([1e7, 1e8, -1e8])
        return [ratio + rng.gauss(0, 1) for _ in range(n)]
    if fam == 'const':
        c = rng.choice([0.1, 1e6 + 0.1, -3.7, 1e-150, 1e150, 5, 0.0, rng.gauss(0, 1), rng.randint(-1000, 1000)])
        return [c] * n
    if fam == 'ints':
        k = rng.choice([1, 1, 3, 6, 9, 11])
        off = rng.choice([0, 0, 10 ** k])
        return [off + rng.randint(-10 ** k, 10 ** k) for _ in range(n)]
    if fam == 'mixed':
        out = []
        for _ in range(n):
            r = rng.random()
            if r < 0.4:
                out.append(rng.randint(-5, 5))
            elif r < 0.7:
                out.append(float(rng.randint(-5, 5)))
            else:
                out.append(rng.gauss(0, 3))
        return out
    if fam == 'neg':
        scale = rng.choice(SCALES)
        return [-abs(rng.gauss(2, 1)) * scale for _ in range(n)]
    if fam == 'cancel':
        scale = rng.choice([1.0, 1e10, 1e-150, 1e150])
        half = [rng.gauss(0, 1) * scale for _ in range(n // 2)]
        out = half + [-x for x in half] + [rng.gauss(0, 1e-9) * scale for _ in range(n - 2 * (n // 2))]
        rng.shuffle(out)
        return out
    if fam == 'twoscale':
        return [rng.gauss(1, 1) * rng.choice([1e-150, 1e150, 1.0]) for _ in range(n)]
    if fam == 'sorted':
        out = sorted(rng.gauss(0, 1) * rng.choice([1, 1, 100]) for _ in range(n))
        return out if rng.random() < 0.5 else out[::-1]
    if fam == 'subnormal':
        return [rng.gauss(0, 1) * rng.choice([1e-310, 1e-320, 5e-324, 1e-300]) for _ in range(n)]
    if fam == 'uniform':
        a = rng.choice([0.0, -1.0, 100.0])
        return [rng.uniform(a, a + 1) for _ in range(n)]
    raise ValueError(fam)


def mk_case(rng, agg, fam, n, modes=('stream', 'reduce'), mode=None, km=None):
    if mode is None:
        mode = rng.choice(['plain'] * 5 + ['mux'] * 4 + ['mux2'] * 2)
    if km is None:
        km = rng.choice(['id'] * 3 + ['tuple', 'dict'])
    case = {'agg': agg, 'fam': fam, 'mode': mode, 'km': km, 'modes': list(modes),
            'xs': [enc(v) for v in gen_values(rng, fam, n)]}
    if mode == 'mux2':
        n2 = rng.choice([0, 1, 2, 5, n]) if n <= 300 else 5
        case['ys'] = [enc(v) for v in gen_values(rng, rng.choice(['pool', 'normal', fam]), n2)]
        case['pattern'] = rng.choice([1, 2, 3])   # ys items are interleaved after every `pattern` xs items
        # half of them through two levels of group_by on a plain source (the two series are two OUTER groups whose inner
        # groups have EQUAL keys and are alive together) instead of two keys of a hand-made MuxObservable
        import zlib as _z
        case['nest'] = bool(_z.crc32(repr((case['xs'][:3], case['ys'][:3], agg)).encode()) % 2) and len(case['xs']) > 0 and len(case['ys']) > 0
    return case


def small_exhaustive():
    """every sequence of length <= 2 (and some of length 3) over a few special values, plain, both reduce modes"""
    vals = [0, 1, 1.0, -0.0, 0.5, -2, 0.1]
    out = []
    seqs = [[]] + [[a] for a in vals] + [[a, b] for a in vals for b in vals]
    seqs += [[a, b, c] for a in [1, 0.1] for b in [2, -0.0] for c in [4, 0.5, 1]]
    for agg in AGGS:
        for s in seqs:
            out.append({'agg': agg, 'fam': 'exhaustive', 'mode': 'plain', 'km': 'id', 'modes': ['stream', 'reduce'],
                        'xs': [enc(v) for v in s]})
    return out


def generate(rng, tier):
    cases = []
    if tier == 'search':
        # inputs on which wrong formulas show: badly conditioned (textbook sum of squares), well conditioned and
        # short (n vs n-1, update order), for every aggregate
        for _ in range(160):
            agg = rng.choice(AGGS)
            fam = rng.choice(['offset', 'offset', 'offset8', 'normal', 'pool', 'ints', 'const', 'cancel'])
            n = rng.choice([2, 3, 5, 10, 50, 100, 300])
            cases.append(mk_case(rng, agg, fam, n, mode=rng.choice(['plain', 'mux'])))
        return cases
    per_agg = {'quick': 70, 'thorough': 620}[tier]
    lens = [0, 1, 2, 2, 3, 3, 4, 5, 8, 13, 20, 30, 60, 100, 200, 300]
    if tier == 'thorough':
        lens += [500, 1000]
    for agg in AGGS:
        for j in range(per_agg):
            fam = rng.choice(FAMILIES) if rng.random() < 0.85 else 'pool'
            n = rng.choice(lens) if fam != 'pool' else rng.choice([0, 1, 2, 3, 4, 6])
            if agg in ('fvar', 'fstd') and n > 300:
                n = rng.choice([120, 300, 400])       # the streaming formal variance is quadratic
            cases.append(mk_case(rng, agg, fam, n))
    rng.shuffle(cases)
    if tier == 'quick':
        ex = small_exhaustive()
        cases += rng.sample(ex, 160)
        # sequences beyond a thousand items (code paths that differ above a size cutoff), one per aggregate
        longs = []
        for agg in AGGS:
            n = rng.choice([1001, 1100, 1500])
            modes = ('reduce',) if agg in ('fvar', 'fstd') else ('stream', 'reduce')
            longs.append(mk_case(rng, agg, rng.choice(['normal', 'offset', 'ints']), n, modes=modes, mode=rng.choice(['plain', 'mux'])))
        for k, lc in enumerate(longs):
            cases.insert(min(len(cases), k * SHARD + SHARD // 2), lc)
    else:
        cases += small_exhaustive()
        # a few long sequences; placed SHARD apart so that a generated Coq file holds at most one of them
        longs = []
        for agg in AGGS:
            for fam in (['normal', 'offset'] if agg in ('var', 'std', 'fvar', 'fstd') else ['normal']):
                n = 10000
                modes = ('reduce',) if agg in ('fvar', 'fstd') else ('stream', 'reduce')
                longs.append(mk_case(rng, agg, fam, n, modes=modes, mode=rng.choice(['plain', 'mux'])))
            longs.append(mk_case(rng, agg, rng.choice(['ints', 'mixed', 'cancel']), 3000, mode='plain',
                                 modes=('reduce',) if agg in ('fvar', 'fstd') else ('stream', 'reduce')))
        for k, lc in enumerate(longs):
            pos = min(len(cases), k * SHARD + SHARD // 2)     # (not first: the evidence samples the first cases)
            cases.insert(pos, lc)
    return cases


def neighbours(case, rng):
    """inputs likely to expose a wrong formula in the aggregate of a disagreeing case"""
    out = []
    for fam, n in [('pool', 2), ('pool', 3), ('ints', 3), ('normal', 5), ('normal', 50), ('offset', 50), ('offset', 300),
                   ('offset8', 100), ('const', 10), ('cancel', 20), ('mixed', 10)]:
        out.append(mk_case(rng, case['agg'], fam, n, mode=rng.choice(['plain', 'mux']), km='id'))
    return out


# ------------------------------------------------------------------------------------------------
# running the real operators
# ------------------------------------------------------------------------------------------------
def build_op(agg, km, reduce):
    import rxsci as rs
    f = {'sum': rs.math.sum, 'mean': rs.math.mean, 'min': rs.math.min, 'max': rs.math.max,
         'var': rs.math.variance, 'std': rs.math.stddev, 'fvar': rs.math.formal.variance,
         'fstd': rs.math.formal.stddev}[agg]
    if km == 'id':
        return f(reduce=reduce)
    if km == 'tuple':
        return f(lambda i: i[1], reduce=reduce)
    return f(key_mapper=lambda i: i['v'], reduce=reduce)


def wrap(km, x, j):
    if km == 'id':
        return x
    if km == 'tuple':
        return ('k%d' % j, x)
    return {'v': x, 'j': j}


def one_run(case, reduce):
    import rx
    import rxsci as rs
    op = build_op(case['agg'], case['km'], reduce)
    xs = [dec(v) for v in case['xs']]
    items = [wrap(case['km'], x, j) for j, x in enumerate(xs)]
    if case['mode'] in ('plain', 'mux'):
        pipe = op if case['mode'] == 'plain' else rs.ops.multiplex([rs.state.with_memory_store(rx.pipe(op))])
        r = run_timed(pipe, items)
        # shape: reduce=False -> exactly one value while each item is pushed, nothing else;
        #        reduce=True  -> nothing before completion, exactly one value at completion
        if reduce:
            shape = all(len(s) == 0 for s in r['steps']) and len(r['final']) == 1 and not r['sub']
        else:
            shape = all(len(s) == 1 for s in r['steps']) and len(r['final']) == 0 and not r['sub']
        out = r['sub'] + sum(r['steps'], []) + r['final']
        return {'out': [enc(v) for v in out], 'end': r['end'], 'shape': shape}
    # two keys of one MuxObservable, interleaved
    ys = [dec(v) for v in case['ys']]
    yitems = [wrap(case['km'], y, j) for j, y in enumerate(ys)]
    if case.get('nest'):
        return nested_run(case, op, items, yitems, reduce)
    ev = [rs.OnCreateMux((1,)), rs.OnCreateMux((2,))]
    yi, p = 0, case['pattern']
    for j, it in enumerate(items):
        ev.append(rs.OnNextMux((1,), it))
        if (j + 1) % p == 0 and yi < len(yitems):
            ev.append(rs.OnNextMux((2,), yitems[yi]))
            yi += 1
    while yi < len(yitems):
        ev.append(rs.OnNextMux((2,), yitems[yi]))
        yi += 1
    ev += [rs.OnCompletedMux((1,)), rs.OnCompletedMux((2,))]
    pipe = rx.pipe(rs.cast_as_mux_observable(), rs.state.with_memory_store(rx.pipe(op)))
    r = run_timed(pipe, ev)
    outs = {1: [], 2: []}
    errs = {1: None, 2: None}
    shapes = {1: True, 2: True}
    for e_in, step in zip(ev, r['steps']):
        got = [o for o in step if type(o) is rs.OnNextMux]
        for o in step:
            if type(o) is rs.OnNextMux:
                outs[o.key[0]].append(o.item)
            elif type(o) is rs.OnErrorMux:
                errs[o.key[0]] = type(o.error).__name__
        if type(e_in) is rs.OnNextMux:
            ok = len(got) == (0 if reduce else 1) and all(o.key == e_in.key for o in got)
        elif type(e_in) is rs.OnCompletedMux:
            ok = len(got) == (1 if reduce else 0) and all(o.key == e_in.key for o in got)
        else:
            ok = not got
        shapes[e_in.key[0]] = shapes[e_in.key[0]] and ok
    end = r['end']
    return {'out': [enc(v) for v in outs[1]], 'out2': [enc(v) for v in outs[2]], 'shape': shapes[1],
            'shape2': shapes[2],
            'end': end if errs[1] is None else 'error:' + errs[1],
            'end2': end if errs[2] is None else 'error:' + errs[2]}


def nested_run(case, op, items, yitems, reduce):
    """the two series as two outer groups of group_by(series, group_by(constant, aggregate)) on a plain source"""
    import rx
    import rxsci as rs
    tagged, yi, p = [], 0, case['pattern']
    for j, it in enumerate(items):
        tagged.append((1, it))
        if (j + 1) % p == 0 and yi < len(yitems):
            tagged.append((2, yitems[yi]))
            yi += 1
    while yi < len(yitems):
        tagged.append((2, yitems[yi]))
        yi += 1
    pipe = rs.state.with_memory_store(rx.pipe(
        rs.ops.group_by(lambda t: t[0], rx.pipe(
            rs.ops.group_by(lambda t: 'same', rx.pipe(rs.ops.map(lambda t: t[1]), op))))))
    r = run_timed(pipe, tagged)
    outs, shapes = {1: [], 2: []}, {1: True, 2: True}
    for (tag, _), step in zip(tagged, r['steps']):
        outs[tag] += step
        shapes[tag] = shapes[tag] and len(step) == (0 if reduce else 1)
    order = []
    for tag, _ in tagged:
        if tag not in order:
            order.append(tag)
    fin = list(r['final'])
    if reduce:
        ok = len(fin) == len(order)
        for tag, v in zip(order, fin):
            outs[tag].append(v)
        shapes = {1: shapes[1] and ok, 2: shapes[2] and ok}
    else:
        shapes = {1: shapes[1] and not fin, 2: shapes[2] and not fin}
    return {'out': [enc(v) for v in outs[1]], 'out2': [enc(v) for v in outs[2]], 'shape': shapes[1] and not r['sub'],
            'shape2': shapes[2] and not r['sub'], 'end': r['end'], 'end2': r['end']}


def pow_hints(xs, stream):
    """positions (n, i) where CPython's ((x[i]-mean)**2) over the first n items is not the IEEE product"""
    h = []
    if not xs:
        return h
    for n in (range(1, len(xs) + 1) if stream else [len(xs)]):
        pref = xs[:n]
        mean = sum([(x - 0) ** 1 for x in pref]) / n
        for i, x in enumerate(pref):
            d = x - mean
            try:
                p = d ** 2
            except OverflowError:
                continue
            if isinstance(d, float) and p != d * d:
                h.append([n, i, p.hex()])
    return h


def run_impl(case):
    obs = {}
    for m in case['modes']:
        obs[m] = one_run(case, m == 'reduce')
    if case['agg'] in ('fvar', 'fstd'):
        obs['hints'] = pow_hints([dec(v) for v in case['xs']], 'stream' in case['modes'])
        if case['mode'] == 'mux2':
            obs['hints2'] = pow_hints([dec(v) for v in case['ys']], 'stream' in case['modes'])
    return obs


# ------------------------------------------------------------------------------------------------
# oracle: exact rational arithmetic on the same numbers, explicit error bound (no Coq model involved)
# ------------------------------------------------------------------------------------------------
def isqrt_up(n):
    r = math.isqrt(n)
    return r if r * r == n else r + 1


class Exact:
    """running exact statistics of x_1..x_k in integer units of 2^-E"""

    def __init__(self, xs):
        fr = [Fraction(x) for x in xs]
        self.E = max([f.denominator.bit_length() - 1 for f in fr] + [0])
        self.X = [f.numerator << (self.E - (f.denominator.bit_length() - 1)) for f in fr]
        self.k = 0
        self.S = self.SS = self.A = 0
        self.mn = self.mx = None

    def push(self):
        x = self.X[self.k]
        self.k += 1
        self.S += x
        self.SS += x * x
        self.A += abs(x)
        self.mn = x if self.mn is None or x < self.mn else self.mn
        self.mx = x if self.mx is None or x > self.mx else self.mx

    def ref(self, agg):
        """(exact value, bound) of the aggregate of the first k items (k >= 1), as Fractions"""
        k, E = self.k, self.E
        one = 1 << E
        if agg == 'sum':
            v = Fraction(self.S, one)
            return v, C * k * U * (Fraction(self.A, one) + abs(v))
        if agg == 'mean':
            v = Fraction(self.S, one * k)
            return v, C * k * U * (Fraction(self.A, one * k) + abs(v)) + TINY
        if agg == 'min':
            return Fraction(self.mn, one), 0
        if agg == 'max':
            return Fraction(self.mx, one), 0
        # variances: k*SSD = k*SS - S^2
        kssd = k * self.SS - self.S * self.S
        sample = agg in ('var', 'std')
        if sample and k < 2:
            return Fraction(0), Fraction(0)
        den = (k * (k - 1) if sample else k * k)
        v = Fraction(kssd, den * one * one)
        # kappa * v = sqrt(SS * SSD) / (k-1 | k)
        kv = Fraction(isqrt_up(self.SS * kssd // k + 1), (k - 1 if sample else k) * one * one)
        msq = Fraction(self.SS, k * one * one)
        b = C * k * U * (kv + v) + C * (k * U) ** 2 * msq + C * (k + 2) * TINY
        return v, b


def judge(agg, got, v, b):
    """None if `got` (a Python number emitted by the operator) is within the bound of the exact value v"""
    if got is None or isinstance(got, str):
        return 'emitted %r' % (got,)
    if isinstance(got, float) and not math.isfinite(got):
        return 'emitted %r, exact value %s' % (got, float(v))
    g = Fraction(got)
    if agg in ('std', 'fstd'):
        if g < 0:
            return 'negative standard deviation %r' % got
        err, bound = abs(g * g - v), Fraction(101, 100) * b + 4 * U * v
    else:
        err, bound = abs(g - v), b
    if bound > 0:
        r = float(err / bound)
        if r > STATS.get(agg, 0.0):
            STATS[agg] = r
    if err > bound:
        return 'emitted %r, exact %.17g; |error| %.3g > bound %.3g' % (
            got, float(v) if agg not in ('std', 'fstd') else math.sqrt(float(v)), float(err), float(bound))
    return None


def check_key(agg, xs, stream, reduce_, end_s, end_r):
    """xs: python numbers; stream/reduce_: emitted python values (or None when that mode was not run)"""
    n = len(xs)
    if stream is not None:
        if end_s != 'completed':
            return {'sig': agg + ':ended', 'what': '%s(reduce=False) ended with %s' % (agg, end_s)}
        if len(stream) != n:
            return {'sig': agg + ':count', 'what': '%s(reduce=False) emitted %d values for %d items' % (agg, len(stream), n)}
        ex = Exact(xs)
        for k in range(1, n + 1):
            ex.push()
            v, b = ex.ref(agg)
            bad = judge(agg, stream[k - 1], v, b)
            if bad:
                zero = agg in ('fvar', 'fstd') and all(isinstance(o, float) and o == 0.0 for o in stream) and v > 0
                return {'sig': 'formal.variance:streaming-zero' if zero else agg + ':accuracy',
                        'what': '%s(reduce=False) after %d of %d items: %s%s' % (
                            agg, k, n, bad, ' (every streaming value is 0.0)' if zero else '')}
    if reduce_ is not None:
        if n == 0 and agg == 'mean':
            return None        # outside the quantifier (length >= 1 for mean)
        if end_r != 'completed':
            return {'sig': agg + ':ended', 'what': '%s(reduce=True) ended with %s' % (agg, end_r)}
        if len(reduce_) != 1:
            return {'sig': agg + ':count', 'what': '%s(reduce=True) emitted %d values' % (agg, len(reduce_))}
        if n == 0:
            want = {'sum': 0.0, 'min': None, 'max': None, 'var': 0.0, 'std': 0.0, 'fvar': 0.0, 'fstd': 0.0}[agg]
            if reduce_[0] != want:
                return {'sig': agg + ':empty', 'what': '%s(reduce=True) of no item emitted %r' % (agg, reduce_[0])}
        else:
            ex = Exact(xs)
            for _ in range(n):
                ex.push()
            v, b = ex.ref(agg)
            bad = judge(agg, reduce_[0], v, b)
            if bad:
                return {'sig': agg + ':accuracy', 'what': '%s(reduce=True) of %d items: %s' % (agg, n, bad)}
            if stream is not None:
                a, r = stream[-1], reduce_[0]
                if type(a) is not type(r) or enc(a) != enc(r):
                    return {'sig': agg + ':stream-vs-reduce',
                            'what': 'last streaming value %r differs from the reduce value %r' % (a, r)}
    return None


def oracle(case, obs):
    if 'raised' in obs:
        return {'sig': 'raised', 'what': '%s raised %s to the caller: %s' % (case['agg'], obs['raised'], obs.get('msg'))}
    agg = case['agg']
    s, r = obs.get('stream'), obs.get('reduce')
    for o in (s, r):
        for sh, items in (('shape', case['xs']), ('shape2', case.get('ys'))):
            if o is not None and not o.get(sh, True) and not (o is r and agg == 'mean' and not items):
                return {'sig': agg + ':shape', 'what': 'values not emitted one per item (reduce=False) / one at '
                                                        'completion (reduce=True)'}
    xs = [dec(v) for v in case['xs']]
    f = check_key(agg, xs, [dec(v) for v in s['out']] if s else None, [dec(v) for v in r['out']] if r else None,
                  s['end'] if s else None, r['end'] if r else None)
    if f is None and case['mode'] == 'mux2':
        ys = [dec(v) for v in case['ys']]
        f = check_key(agg, ys, [dec(v) for v in s['out2']] if s else None, [dec(v) for v in r['out2']] if r else None,
                      s['end2'] if s else None, r['end2'] if r else None)
        if f:
            f['what'] = 'second key: ' + f['what']
    return f


def nontrivial(case, obs):
    return len(case['xs']) >= 3 and len(set(case['xs'])) > 1


def describe(cases, obs):
    d = {'by_aggregate': {}, 'by_mode': {}, 'by_key_mapper': {}, 'by_family': {}, 'length_hist': {}, 'max_length': 0,
         'with_ints': 0, 'empty': 0, 'pow_hints_used': 0, 'values_compared': 0,
         'max_error_over_bound': {k: round(v, 6) for k, v in sorted(STATS.items())}}
    for c, o in zip(cases, obs):
        for key, f in (('by_aggregate', 'agg'), ('by_mode', 'mode'), ('by_key_mapper', 'km'), ('by_family', 'fam')):
            d[key][c[f]] = d[key].get(c[f], 0) + 1
        n = len(c['xs'])
        b = '0' if n == 0 else '1-3' if n <= 3 else '4-30' if n <= 30 else '31-300' if n <= 300 else '301-3000' if n <= 3000 else '>3000'
        d['length_hist'][b] = d['length_hist'].get(b, 0) + 1
        d['max_length'] = max(d['max_length'], n)
        d['with_ints'] += any(isinstance(v, int) for v in c['xs'])
        d['empty'] += n == 0
        d['pow_hints_used'] += len(o.get('hints', [])) if isinstance(o, dict) else 0
        if isinstance(o, dict):
            for m in ('stream', 'reduce'):
                if m in o:
                    d['values_compared'] += len(o[m]['out']) + len(o[m].get('out2', []))
    return d


# ------------------------------------------------------------------------------------------------
# Coq terms
# ------------------------------------------------------------------------------------------------
def coq_preamble():
    return ('From Coq Require Import List ZArith Bool.\nImport ListNotations.\n'
            'From RxVerif Require Import Base.Corr Math.Exact Math.FloatModel Math.C12Corr.\n')


CTYPE = 'c12case'
CHECKER = 'c12_check'


def lit(v):
    """JSON-encoded number (int | float.hex() | None) -> Coq `lit`"""
    if v is None:
        return 'LNone'
    if isinstance(v, int) and not isinstance(v, bool):
        return '(LI (%d))' % v
    if not isinstance(v, str) or v.startswith(('bool:', 'obj:')):
        return 'LNaN'           # something that is not a number: never equal to what the model says
    x = float.fromhex(v)
    if math.isnan(x):
        return 'LNaN'
    if math.isinf(x):
        return '(LInf %s)' % c_bool(x < 0)
    if x == 0.0:
        return 'LNZ' if math.copysign(1.0, x) < 0 else '(LF 0 0)'
    m, e = math.frexp(x)
    mi = int(m * 2 ** 53)
    e -= 53
    while mi % 2 == 0:
        mi //= 2
        e += 1
    return '(LF (%d) (%d))' % (mi, e)


ENDCODE = {'completed': 0, 'error:ZeroDivisionError': 1}


def agg_term(agg, hints, xs, runs):
    hs = c_list(['(%d%%Z, %d%%Z, %s)' % (n, i, lit(p)) for n, i, p in hints])
    rs_ = c_list(['(%s, %s, %d%%Z)' % (c_bool(red), c_list([lit(v) for v in out]), ENDCODE.get(end, 2))
                  for red, out, end in runs])
    return 'CAgg %s %s %s %s' % (COQ_AGG[agg], hs, c_list([lit(v) for v in xs]), rs_)


def coq_term(case, obs):
    if 'raised' in obs:
        return 'CRaised'
    runs = [(m == 'reduce', obs[m]['out'], obs[m]['end']) for m in case['modes']]
    t = agg_term(case['agg'], obs.get('hints', []), case['xs'], runs)
    if case['mode'] == 'mux2':
        runs2 = [(m == 'reduce', obs[m]['out2'], obs[m]['end2']) for m in case['modes']]
        t = 'CBoth (%s) (%s)' % (t, agg_term(case['agg'], obs.get('hints2', []), case['ys'], runs2))
    return t


def coq_model_expr(case):
    xs = case['xs'][:40]
    return 'fst (model_run %s [] false (map num_of_lit %s))' % (COQ_AGG[case['agg']], c_list([lit(v) for v in xs]))


CLAIM = {
    'text': 'Proved in Coq (closed under the global context), for every list of rationals (hence for the '
            'exact values of any finite float/int sequence), on the single generic transliteration of the '
            'accumulators (Math/Exact.v) instantiated at exact arithmetic Qc: every running value of sum is the sum '
            'of the items seen so far, of mean the sum divided by the count, of min/max a minimum/maximum of the '
            'items seen so far; the Welford state after k items satisfies m_k*k = sum and s_k = sum (x_i-m_k)^2, so '
            'variance emits the sample variance s_n/(n-1) (0 for fewer than two items); formal.variance (as repaired) '
            'emits the population variance sum (x_i-mean)^2/n; the stddevs are sqrt (uninterpreted) of those; and, for '
            'EVERY arithmetic including the binary64 one, the streaming value after the last item equals the reduce '
            'value. The same generic functions instantiated at CPython numbers (int | binary64 via Coq primitive '
            'floats, int/float mixing of the seeds 0.0, (0,0), (None,0,0), builtin sum of CPython 3.12, math.sqrt) are '
            'tied BIT-EXACTLY to rxsci by evaluating them in Coq on the inputs the operators were run on (plain, '
            'multiplexed, two keys, with key_mapper, reduce=False every emitted value and reduce=True). Of the '
            'floating-point error bounds those for `sum`, `mean` and `min`/`max` are proved (through Flocq, on the very '
            'functions the correspondence evaluates, binary64 items, no overflow of a running sum or of the quotient): '
            '|fl_sum - sum x_i| <= ((1+2^-53)^n - 1) * sum |x_i|; |fl_mean - sum x_i / n| <= ((1+2^-53)^(n+1) - 1) * sum |x_i| / n '
            '+ 2^-1075 at completion and for every streaming value against its prefix (float(count) exact below 2^53); '
            'min/max emit one of the items, bounding every item (no rounding); the Welford variance in binary64 is never '
            'negative while its states are finite (the running mean moves towards the new item and never past it, so the '
            'two deviations have one sign: math.sqrt in stddev never sees a negative number), is exactly 0.0 on equal items '
            'whatever their value, and is the literal 0.0 for fewer than two items; and the MAGNITUDE of its error is bounded: '
            'with the data in [lo,hi], |x|<=A, hi-lo<=R, u=2^-53, eta=2^-1075, eps=uA+2uR+eta, the running mean is within '
            '(k-1)eps of the exact mean, the sum of squared deviations S_k within Fb_k of the exact one (Fb_1=0, '
            'Fb_(k+1)=(Fb_k+g_k)(1+u)+u*ssd_(k+1), g_k=4uR^2+eta+R(Eb_k+Eb_(k+1))+Eb_k*Eb_(k+1); closed form Fb_k <= '
            '(1+u)^(k-1)(k-1)(g_(k-1)+u*ssd_k)), and every emitted variance (streaming and at completion) within '
            'Fb_k/(k-1)(1+u)+u*ssd_k/(k-1)+eta of the exact sample variance: relative error proportional to machine epsilon, '
            'the count and the conditioning (A*R/variance, R^2/variance). stddev = sqrt of that '
            'variance, one more correctly rounded operation without underflow term: |stddev_k - sqrt(var_k)| <= '
            'sqrt(V_k)(1+u) + u*sqrt(var_k), V_k the variance bound; 0.0 exactly for one item. The two-pass formal.variance / '
            'formal.stddev: CPython builtin sum (Neumaier) analysed through Fast2Sum exactness (the compensation term of a '
            'step IS its rounding error): |pysum - sum x| <= u|sum x| + (1+u)((1+u)^(n-1)-1) u (n-1)(1+u)^(n-1) sum|x| (second '
            'order); then mean, deviations, squares (a hinted square within one ulp: 4u d^2 + 4 eta), sum, division: explicit '
            'bound fvar_bound on |v - popvar| at completion and for every streaming value, stddev likewise '
            '(C12_float_formal_*). Int items mixed with floats: under the stated magnitude assumption the run on a mixed list '
            'equals BIT FOR BIT the run on the converted floats for sum (unconditionally), mean, min, max, variance, stddev '
            '(C12_mixed_items_*), so the bounds carry over. formal.variance / formal.stddev on all-int lists likewise (C12_mixed_formal_ints*). On lists really mixing ints and floats builtin sum treats an int after the first float differently (the reduction to the float run is refuted there '
            'by two evaluated witnesses, C12_mixed_formal_reduction_refuted, replayed on the code by corpus/C12), so they have their own direct bound '
            '(C12_mixed_formal_*error_bound*: each uncompensated int addition costs one rounding). All bounds are additionally tested by the oracle against exact rational arithmetic '
            'on every prefix with the explicit bound given in `rule`; the bounds are a-priori bounds, not the sharpest known constants. '
            'C12_relative_*: every completion-value bound on float lists in the literal shape of the property, C*n*u*kappa*|v| (+ underflow term), with explicit '
            'condition numbers kappa_sum, kappa_var, kappa_fvar, under n*u <= 1/16 (implied by n <= 10^4).',
    'note': 'Trusted: Coq kernel+VM incl. primitive 63-bit integers and binary64 floats (evaluation only; no '
            'C12_exact_* theorem depends on them). The C12_float_* theorems depend on '
            'standard-library axioms: FloatAxioms.{Prim2SF_valid, SF2Prim_Prim2SF, Prim2SF_SF2Prim, add_spec, abs_spec, '
            'eqb_spec, leb_spec, Leibniz.eqb_spec, div_spec, ltb_spec, sub_spec, mul_spec, opp_spec, sqrt_spec, next_up_spec, next_down_spec, ldshiftexp_spec, frshiftexp_spec, of_uint63_spec}, Uint63.{add_spec, sub_spec, eqb_correct, eqb_refl, leb_spec, '
            'ltb_spec, lor_spec, lsl_spec, lsr_spec, of_to_Z} and the Reals axioms ClassicalDedekindReals.sig_forall_dec, ClassicalDedekindReals.sig_not_dec, '
            'Classical_Prop.classic, FunctionalExtensionality.functional_extensionality_dep (via Flocq 4.1.0); hand-written generic model of rxsci/math/*.py tied by correspondence only; CPython '
            'float semantics, float(int) below 2^53, builtin sum (Neumaier) and math.sqrt are modelled; libm pow(x,2.0) '
            'is modelled as "x*x or, where CPython says otherwise, the supplied value within one ulp of x*x". '
            'sqrt is uninterpreted in the exact theorems. formal.variance is modelled WITH the repair of '
            'DESIGN-repairs.md (acc.clear() only when reduce is True).',
    'technique': 'Coq proof (induction over the item list with the invariant (sum, sum of squares, count), `field` over '
                 'Qc; generic scan lemma for stream-vs-reduce; Flocq Bplus_correct + FLT_plus_error_N_ex for the summation '
                 'bound) + vm_compute bit-exact correspondence on primitive floats + exact-rational error-bound oracle',
}
