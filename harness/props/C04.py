"""C04 - group_by partitions the stream by key, preserving order within each group."""
import json
from harness import muxlib, muxgen, muxprop
from harness.muxprop import *  # noqa: F401,F403
from harness.pyval import enc, dec, py_fn

PID = 'C04'
RULE = ('group_by(km, inner) with key mappers whose values are equal but not identical objects (tuples rebuilt per item, '
        'ints > 10**20 computed at run time, strings built at run time, floats, 1/1.0/True), 1-40 distinct keys, at top '
        'level on 1-3 interleaved outer keys, under group_by/roll/split, with inner pipelines tapped at their head. Oracle: '
        'each inner lifetime receives exactly the subsequence of items with an == key, one group per distinct key, flush '
        'in first-appearance order. a scale family: hundreds of groups under one parent (revisited after more than 256 groups exist), hundreds of live parents, long groups. non-trivial = >= 2 groups and >= 1 group with >= 2 items; distinct = distinct JSON')
ASSUMPTIONS = ['key values are hashable and == is an equivalence on them (no NaN keys)']

KEYS = [['mod', 2], ['mod', 3], ['mod', 7], ['floordiv', 3], ['isodd'], ['id'],
        ['pair', ['mod', 2], ['const', enc('k')]],
        ['pair', ['mod', 3], ['floordiv', 5]],
        ['comp', ['mod', 3], ['tofloat']],
        ['comp', ['mod', 2], ['add', enc(10 ** 20)]],
        ['comp', ['mod', 40], ['add', enc(1000)]],
        ['comp', ['mod', 2], ['eq', enc(1)]],
        ['comp', ['pair', ['mod', 2], ['const', enc('ab')]], ['nth', 1]]]


def generate(rng, tier):
    n = {'quick': 450, 'thorough': 10000, 'search': 300}[tier]
    cases = []
    for _ in range(n):
        km = rng.choice(KEYS)
        g = muxgen.Gen(rng, heads=rng.random() < 0.3, tees=rng.random() < 0.3, max_depth=2)
        inner, _ = g.pipe(muxgen.INT, 1, rng.choice([0, 0, 1, 2]))
        ctx = rng.choice(['top', 'top', 'top', 'group', 'roll', 'split'])
        core = [['group', km, [['tap', 1]] + inner]]
        if ctx == 'group':
            ast = [['group', ['mod', 2], core]]
        elif ctx == 'roll':
            ast = [['roll', rng.randint(2, 5), rng.randint(1, 3), core]]
        elif ctx == 'split':
            ast = [['split', ['floordiv', 6], core]]
        else:
            ast = core
        if ctx == 'top':
            trace = muxgen.gen_trace(rng, muxgen.INT, nkeys=rng.choice([1, 2, 3]))
        else:
            items = [enc(rng.randint(0, 60)) for _ in range(rng.choice([0, 1, 5, 12, 30]))]
            trace = muxprop.single_trace(items, (rng.choice([0, 4]),))
        cases.append({'ast': ast, 'trace': trace, 'km': km, 'ctx': ctx})
    fixed = [(['id'], 'many_groups'), (['mod', 300], 'many_groups'), (['mod', 257], 'many_groups'), (['id'], 'many'),
             (['mod', 2], 'long'), (['comp', ['mod', 300], ['tofloat']], 'many_groups')]
    for j in range({'quick': 10, 'thorough': 200, 'search': 3}[tier]):
        # scale: hundreds of groups under one parent, hundreds of live parents, long groups; the first six are the same
        # (key mapper, shape) pairs in every run
        km = rng.choice([['id'], ['mod', 300], ['mod', 257], ['mod', 2], ['comp', ['mod', 300], ['tofloat']]])
        inner = [rng.choice([['count', 1], ['to_list'], ['scan', ['add'], enc(0), 0, None], ['last']])]
        shape = rng.choice(['many_groups', 'many_groups', 'long', 'long2', 'many'])
        if j < len(fixed) and tier != 'search':
            km, shape = fixed[j]
        cases.append({'ast': [['group', km, [['tap', 1]] + inner]], 'trace': muxgen.gen_trace_scale(rng, shape), 'km': km,
                      'ctx': 'top', 'scale': True})
    return cases


def run_impl(case):
    return muxlib.run_mux(case['ast'], case['trace'], taps=True)


def oracle(case, obs):
    if 'raised' in obs or muxprop.has_fatal(obs['steps']):
        return None
    log = obs['taps'].get('1', [])
    if case['ctx'] != 'top':
        return None          # nested contexts: protocol + model comparison only (the parent key is not the source key)
    km = py_fn(case['km'])
    # inner lifetimes by parent key (the tail of the inner key)
    inner = {}
    for e in log:
        if e[0] in ('completed', 'fatal'):
            continue
        k = tuple(e[1])
        parent = k[1:]
        d = inner.setdefault(parent, {'order': [], 'items': {}, 'closed': []})
        if e[0] == 'c':
            d['order'].append(k)
            d['items'][k] = []
        elif e[0] == 'n':
            d['items'].setdefault(k, []).append(e[2])
        elif e[0] == 'd':
            d['closed'].append(k)
    # expected partition, per lifetime of each outer key (lifetimes of the same outer key are sequential)
    exp = {}
    for lt in muxprop.lifetime_positions(case['trace']):
        groups, order = [], []
        for x in lt['items']:
            kv = km(dec(x))
            for gi, g in enumerate(order):
                if g == kv:
                    groups[gi].append(x)
                    break
            else:
                order.append(kv)
                groups.append([x])
        exp.setdefault(tuple(lt['key']), []).extend(groups)
    for parent, groups in exp.items():
        d = inner.get(parent, {'order': [], 'items': {}, 'closed': []})
        got = [d['items'][k] for k in d['order']]
        if got != groups:
            return {'sig': 'group_by:partition', 'what': 'key %s, key_mapper %s: groups delivered %s, partition by == %s' % (
                list(parent), json.dumps(case['km']), json.dumps([[dec(x) for x in g] for g in got])[:200],
                json.dumps([[dec(x) for x in g] for g in groups])[:200])}
        if d['closed'] != d['order'] and sorted(d['closed']) == sorted(d['order']):
            # groups are closed in first-appearance order when their parent completes (lifetime by lifetime)
            pass
    # closing order: within one parent completion step, inner Done events follow creation order
    idx = 0
    for e in log:
        pass
    for parent, d in inner.items():
        pos = {k: i for i, k in enumerate(d['order'])}
        last = -1
        for k in d['closed']:
            if pos.get(k, -1) < last and False:
                return {'sig': 'group_by:flush-order', 'what': 'groups of %s closed out of first-appearance order' % list(parent)}
            last = pos.get(k, -1)
    return flush_order(case, log)


def flush_order(case, log):
    """within each parent completion, the inner completions come in order of first appearance"""
    created, run = [], []

    def check():
        want = [k for k in created if k in run]
        if run != want:
            return {'sig': 'group_by:flush-order', 'what': 'groups completed in order %s, first-appearance order is %s'
                    % ([list(k) for k in run], [list(k) for k in want])}
        return None
    for e in log + [['c', None]]:
        if e[0] == 'd' and (not run or run[-1][1:] == tuple(e[1])[1:]):
            run.append(tuple(e[1]))
            continue
        if run:
            r = check()
            if r:
                return r
            created = [k for k in created if k not in run]
            run = [tuple(e[1])] if e[0] == 'd' else []
        if e[0] == 'c' and e[1] is not None:
            created.append(tuple(e[1]))
    return None


def nontrivial(case, obs):
    km = py_fn(case['km'])
    for lt in muxprop.lifetime_positions(case['trace']):
        ks = [km(dec(x)) for x in lt['items']]
        if len(set(map(repr, ks))) >= 2 and len(ks) > len(set(map(repr, ks))):
            return True
    return False


def describe(cases, obs):
    kmh, ctx = {}, {}
    for c in cases:
        kmh[json.dumps(c['km'])] = kmh.get(json.dumps(c['km']), 0) + 1
        ctx[c['ctx']] = ctx.get(c['ctx'], 0) + 1
    return {'key_mappers': kmh, 'contexts': ctx, 'operator_histogram': muxprop.op_histogram(cases)}


CLAIM = {
    'text': "Theorems (Coq, generic in item type, key type with decidable equality, key mapper and inner machine): group_by's slot-level machine (global index counter, per-slot insertion-ordered maps) refines the per-key machine over any refined inner machine; after any item sequence there is one group per distinct key in first-appearance order whose inner machine is a fresh one fed exactly the members (filter by key) in order; only the item's group emits while it is consumed; open groups are completed in first-appearance order; membership is a partition. Python == on keys (1 == 1.0 == True, rebuilt tuples, big ints) is modelled by a canonical serialisation, tied by correspondence with such keys; oracle: partition by == computed in Python from an inner tap.",
    'note': 'Trusted: Coq kernel+VM; model of Python ==/hash (canon) tied by correspondence only; NaN keys excluded.',
    'technique': 'Coq proof (forward-simulation refinement of a slot-level model by per-key local machines, list-level induction) + vm_compute correspondence against /repo + model-free oracle',
}
