"""C01 - multiplexing is transparent: a pipeline of dual-mode operators applied to a keyed (multiplexed)
observable yields, for every group, exactly what it yields on that group's items alone as a plain Observable."""
import json
from harness import muxlib, muxgen
from harness.pyval import enc, dec

PID = 'C01'
RULE = ('random pipelines of depth 1-6 over the dual-mode operators (map, starmap, filter, flat_map, scan, count, '
        'sum, mean, min, max, variance, stddev, formal.variance/stddev, first, last, take, to_list, '
        'distinct_until_changed, clip, fill_none, batch, identity, do_action, assert_, assert_1, tee_map with the 3 joins, '
        'nested) generated under the stated preconditions (typed accumulators; tee_safe) x 1-4 interleaved groups with '
        'reused slots; each group is also run through the SAME operators on a plain Observable. Also the group_by form. '
        'non-trivial = pipeline depth >= 2 and >= 2 groups with >= 2 items; distinct = distinct case JSON')
TRUSTED = ['modelled not verified: RxPY plain operators (rx.operators.map/filter/first/last/take/to_list/do_action), '
           'synchronous delivery']
ASSUMPTIONS = ['C01 preconditions: accumulators return values of the seed type; first/last/mean(reduce) not applied to an '
               'empty group; inside tee_map no completion-triggered operator after take/first']
SHARD = 150
COQ_TARGETS = ['theories/Mux/MuxCorr.vo']
CTYPE = 'muxcase'
ID_FN = ['id']
CHECKER = 'mux_check'
RAISED_IS_FAILURE = True      # see main.safe_oracle


def generate(rng, tier):
    n = {'quick': 400, 'thorough': 12000, 'search': 300}[tier]
    cases = []
    for i in range(n):
        g = muxgen.Gen(rng, plain_ok=True, heads=False, fatal=0.15 if rng.random() < 0.3 else 0.0,
                       max_depth=rng.choice([1, 2, 3]))
        g.no_early = i % 3 == 0      # no take/first: the whole pipeline (tee_map included) is inside the timed plain model
        typ = muxgen.FLT if rng.random() < 0.1 else muxgen.INT
        ast, _ = g.pipe(typ, 0, rng.randint(1, 5))
        if muxgen.has_take(ast):
            # plain take/first complete early and dispose upstream asserts; a failing assert after that point is
            # a timing difference the property does not constrain: keep only asserts that cannot fail
            ast = strip_fallible(ast)
        if rng.random() < 0.12:
            ast = add_formal(rng, ast, typ)
        none_items = rng.random() < 0.12
        trace = muxgen.gen_trace(rng, typ, max_items=rng.choice([None, 4]))
        if none_items and typ == muxgen.INT and safe_for_none(ast):
            trace = [(['n', e[1], enc(None)] if e[0] == 'n' and rng.random() < 0.3 else e) for e in trace]
        if rng.random() < 0.06:
            # family aimed at None items reaching operators that keep a "previous item": assert_1, distinct_until_changed
            ast = [rng.choice([['assert1', ['ne']], ['duc', None], ['assert1', ['ne']], ['filter', ['isnone']],
                               ['fill_none', enc(0)], ['first'], ['last'], ['take', 2], ['batch', 2]])
                   for _ in range(rng.randint(1, 2))]
            if muxgen.has_take(ast):
                ast = strip_fallible(ast)
            typ, none_items = muxgen.INT, True
            trace = muxgen.gen_trace(rng, typ, max_items=4)
            trace = [(['n', e[1], enc(None)] if e[0] == 'n' and rng.random() < 0.5 else e) for e in trace]
        if rng.random() < 0.05:
            # iterables that are neither list nor tuple reaching flat_map (no Coq model: oracle only)
            ast = [['map', [rng.choice(['torange', 'todeque'])]], ['flat_map']] + \
                  ([['duc', None]] if rng.random() < 0.5 else [])
            typ, none_items = muxgen.INT, False
            trace = muxgen.gen_trace(rng, typ, max_items=5)
        if rng.random() < 0.06:
            # an operator that remembers the previous item of its key, bursts of one key then another (A A B A)
            ast = [rng.choice([['assert1', ['lt']], ['assert1', ['le']], ['duc', None], ['scan', ['add'], enc(0), 0, None]])] + \
                  g.pipe(muxgen.INT, 0, rng.randint(0, 2))[0]
            if muxgen.has_take(ast):
                ast = [ast[0]]
            typ, none_items = muxgen.INT, False
            trace = muxgen.gen_trace(rng, typ, nkeys=rng.choice([2, 3]), sorted_=True, bursts=True)
        if rng.random() < 0.06:
            # a tee_map branch that legitimately emits None for some items: a join must not read None as "no value yet"
            nb = [['map', ['noneif', g.int_pred()]]] + ([['fill_none', enc(rng.randint(20, 30))]] if rng.random() < 0.2 else [])
            other = [rng.choice([['identity'], ['map', g.int_map()], ['scan', ['add'], enc(0), 0, None], ['count', 0]])]
            brs = [nb, other] if rng.random() < 0.5 else [other, nb]
            ast = [['tee', rng.choice(['zip', 'zip', 'combine_latest', 'merge']), brs]] + \
                  ([['map', ['nth', rng.randint(0, 1)]]] if rng.random() < 0.3 else [])
            typ, none_items = muxgen.INT, False
            trace = muxgen.gen_trace(rng, typ, max_items=rng.choice([None, 5]))
        kind = 'groupby' if rng.random() < 0.2 else 'keys'
        cases.append({'ast': ast, 'trace': trace, 'kind': kind,
                      'km': ['isnone'] if none_items else (['gt', enc(2.0)] if typ == muxgen.FLT else g.int_key())})
    g = muxgen.Gen(rng, plain_ok=True, heads=False)
    reps = {'quick': 1, 'thorough': 12, 'search': 0}[tier]
    # (a) every dual-mode operator as the FIRST operator of a tee_map branch (it is handed the published connectable,
    #     a subclass of the mux observable class, not the source itself), in both branch positions
    firsts = [['take', 2], ['take', 1], ['first'], ['last'], ['filter', ['isodd']], ['map', ['add', enc(1)]], ['count', 0],
              ['scan', ['add'], enc(0), 0, None], ['duc', None], ['batch', 2], ['to_list'], ['identity'], ['fill_none', enc(0)],
              ['clip', enc(0), enc(5)], ['max', None, 0], ['flat_map'], ['assert1', ['le']], ['do_action'], ['sum', None, 0]]
    for _ in range(reps):
        for first in firsts:
            for pos in (0, 1):
                b0 = ([['map', ['pair', ID_FN, ID_FN]]] if first == ['flat_map'] else []) + [first]
                other = [rng.choice([['identity'], ['map', g.int_map()], ['count', 0]])]
                ast = [['tee', rng.choice(['zip', 'merge', 'combine_latest']), [b0, other] if pos == 0 else [other, b0]]]
                trace = muxgen.gen_trace(rng, muxgen.INT, max_items=rng.choice([None, 5]), sorted_=(first[0] == 'assert1'))
                cases.append({'ast': ast, 'trace': trace, 'kind': rng.choice(['keys', 'groupby']), 'km': g.int_key()})
    # (a') a branch that legitimately emits None next to a branch of ANOTHER CADENCE (filtered, batched, run-collapsing,
    #      early-completing, completion-triggered): a join cell that holds None is not an empty cell, also when the
    #      same branch delivers again before the slower one has delivered at all
    slow = [['filter', ['isodd']], ['filter', ['gt', enc(3)]], ['batch', 2], ['duc', None], ['take', 2], ['last'], ['count', 1]]
    for _ in range(reps):
        for sl in slow:
            for pos in (0, 1):
                for join in ('zip', 'combine_latest'):
                    nb = [['map', ['noneif', rng.choice([['isodd'], ['comp', ['isodd'], ['not']], ['lt', enc(3)], ['const', enc(True)]])]]]
                    ast = [['tee', join, [nb, [sl]] if pos == 0 else [[sl], nb]]]
                    trace = muxgen.gen_trace(rng, muxgen.INT, max_items=rng.choice([None, 6]))
                    cases.append({'ast': ast, 'trace': trace, 'kind': rng.choice(['keys', 'keys', 'groupby']), 'km': g.int_key()})
    # (a'') two key levels: group_by(k1, group_by(k2, P)) on one source - consecutive items that belong to different outer
    #       groups but have equal inner keys, outer groups alive at the same time, inner groups of different outer groups
    for _ in range({'quick': 14, 'thorough': 160, 'search': 2}[tier]):
        ast, _t = g.pipe(muxgen.INT, 0, rng.randint(1, 3))
        if muxgen.has_take(ast):
            ast = strip_fallible(ast)
        trace = muxgen.gen_trace(rng, muxgen.INT, nkeys=1, max_items=rng.choice([None, 8]))
        k1, k2 = rng.choice([(['mod', 2], ['floordiv', 2]), (['mod', 2], ['const', enc(7)]), (['mod', 3], ['mod', 2]),
                             (['isodd'], ['gt', enc(3)]), (['floordiv', 3], ['mod', 3])])
        cases.append({'ast': ast, 'trace': trace, 'kind': 'groupby', 'km': k1, 'km2': k2})
    # (b) items that are == but not identical (3 / 3.0, 0 / False / 0.0 / -0.0, 1 / True): which OBJECT a group's result
    #     is must not depend on the execution mode; every operator that selects or keeps items
    keepers = [['last'], ['first'], ['duc', None], ['take', 2], ['max', None, 1], ['min', None, 1], ['max', None, 0], ['min', None, 0],
               ['identity'], ['filter', ['id']], ['to_list'], ['batch', 2]]
    for _ in range(reps):
        for op in keepers:
            for second in ([], [rng.choice([['to_list'], ['batch', 2], ['last'], ['first'], ['take', 2], ['identity']])]):
                if op[0] in ('to_list', 'batch') and second:
                    continue
                ast = [op] + second + ([['map', ['pair', ID_FN, ['const', enc('t')]]]] if rng.random() < 0.3 else [])
                if muxgen.has_take(ast):
                    ast = strip_fallible(ast)
                trace = muxgen.gen_trace(rng, muxgen.INT, max_items=rng.choice([None, 4]))
                # runs of equal-but-not-identical values, also at the end of a group
                classes = [[3, 3.0], [0, False, 0.0, -0.0], [1, True, 1.0], [2, 2.0]]
                runs = {}

                def nxt(k):
                    q = runs.setdefault(k, [])
                    if not q:
                        cl = rng.choice(classes)
                        q.extend(rng.sample(cl, rng.randint(2, len(cl))) if rng.random() < 0.7 else [rng.choice(cl)])
                    return enc(q.pop(0))
                trace = [(['n', e[1], nxt(tuple(e[1]))] if e[0] == 'n' else e) for e in trace]
                cases.append({'ast': ast, 'trace': trace, 'kind': 'keys', 'km': ['id']})
    # (c) scale: long groups, hundreds of groups, parameters of 257 and more, int states beyond 2**31; every entry in
    #     every run
    scale_ops = [['count', 0], ['count', 1], ['sum', None, 1], ['mean', None, 0], ['max', None, 0], ['min', None, 1], ['to_list'],
                 ['take', 257], ['take', 300], ['batch', 257], ['batch', 256], ['duc', None], ['last'], ['first'], ['variance', None, 1],
                 ['scan', ['add'], enc(0), 0, None], ['scan', ['add'], enc(2 ** 31 - 600), 0, None], ['scan', ['max'], enc(0), 1, None],
                 ['to_array', 'q'], ['filter', ['isodd']], ['map', ['mul', enc(3)]]]
    for _ in range({'quick': 1, 'thorough': 10, 'search': 0}[tier]):
        for op in scale_ops:
            ast = [op] + ([rng.choice([['count', 1], ['last'], ['to_list']])] if rng.random() < 0.3 else [])
            if muxgen.has_take(ast):
                ast = strip_fallible(ast)
            kind = rng.choice(['keys', 'keys', 'groupby'])
            # an operator with a large parameter gets keys long enough to pass it twice (a short key says nothing about it)
            big = op[1] if op[0] in ('take', 'batch') else 0
            if big:
                kind = 'keys'
            trace = muxgen.gen_trace_scale(rng, rng.choice(['long', 'long2', 'long_reuse']) if kind == 'keys' else 'many_groups',
                                           min_n=2 * big + 7)
            if op[0] == 'scan' and op[1] == ['add'] and rng.random() < 0.7:
                trace = [(['n', e[1], enc(2 ** 31 + dec(e[2]))] if e[0] == 'n' else e) for e in trace]
            cases.append({'ast': ast, 'trace': trace, 'kind': kind, 'km': rng.choice([['mod', 300], ['mod', 2], ['id']]), 'scale': True})
    return cases


def strip_fallible(ast):
    out = []
    for n in ast:
        if n[0] == 'assert1' or (n[0] == 'assert' and n[1] != ['lt', enc(10 ** 6)]):
            out.append(['identity'])
        elif n[0] == 'tee':
            out.append(['tee', n[1], [strip_fallible(b) for b in n[2]]])
        else:
            out.append(n)
    return out


def add_formal(rng, ast, typ):
    return [[rng.choice(['fvariance', 'fstddev']), None, int(rng.random() < 0.5)]] + \
        ([['map', ['mul', enc(2.0)]]] if rng.random() < 0.5 else [])


def safe_for_none(ast):
    """pipelines whose leading operators accept None items (so that None reaches filter/assert_1/first/...)"""
    ok = {'first', 'last', 'take', 'count', 'to_list', 'batch', 'identity', 'do_action', 'fill_none', 'duc', 'assert1'}
    for n in ast:
        if n[0] == 'fill_none':
            return True
        if n[0] == 'assert1' and n[1] != ['ne']:
            return False
        if n[0] not in ok:
            return False
        if n[0] == 'duc' and n[1]:
            return False
    return True


def gb_ast(case, inner):
    """the pipeline inside group_by(km) - or, with km2, inside group_by(km, group_by(km2, .)): two key levels"""
    if case.get('km2'):
        return [['group', case['km'], [['group', case['km2'], inner]]]]
    return [['group', case['km'], inner]]


def run_impl(case):
    ast, trace = case['ast'], case['trace']
    if case['kind'] == 'groupby':
        # one key whose items are grouped by km; the pipeline runs inside group_by
        items = [e[2] for e in trace if e[0] == 'n']
        t = [['c', [0]]] + [['n', [0], x] for x in items] + [['d', [0]]]
        obs = muxlib.run_mux(gb_ast(case, ast + [['tap', 1]]), t, taps=True)
        # the same through the public entry point: plain source -> with_memory_store(group_by(...)) -> plain items
        try:
            obs['entry'] = muxlib.run_mux_plain_source(gb_ast(case, ast), items)['steps']
        except Exception as e:
            obs['entry'] = {'raised': type(e).__name__}
        from harness.pyval import py_fn, dec
        km1, km2 = py_fn(case['km']), (py_fn(case['km2']) if case.get('km2') else None)
        km = (lambda v: (km1(v), km2(v))) if km2 else km1
        groups, order = {}, []
        for x in items:
            g = enc(km(dec(x)))
            gk = json.dumps(canon_key(g))
            if gk not in groups:
                groups[gk] = []
                order.append(gk)
            groups[gk].append(x)
        obs['groups'] = [groups[g] for g in order]
        obs['plain'] = [plain(ast, groups[g]) for g in order]
        obs['trace'] = t
        return obs
    obs = muxlib.run_mux(ast, trace)
    lts = muxgen.lifetimes_of(trace)
    obs['groups'] = [items for _, items in lts]
    obs['plain'] = [plain(ast, items) for _, items in lts]
    return obs


def canon_key(e):
    """group key equality as Python == (1 == 1.0 == True)"""
    if e[0] in ('b', 'i'):
        return ['num', e[1]]
    if e[0] == 'f' and len(e) == 4:
        from harness.pyval import dec
        v = dec(e)
        return ['num', int(v)] if v == int(v) else e
    if e[0] in ('t', 'l'):
        return [e[0], [canon_key(x) for x in e[1]]]
    return e


def plain(ast, items):
    try:
        return muxlib.run_plain(ast, items)
    except Exception as e:
        return {'raised': type(e).__name__}


def mux_results(case, obs):
    """per lifetime (creation order): (items emitted for it, it ended in an error, complete?)"""
    if case['kind'] == 'groupby':
        # inner tap: lifetimes of the inner keys, in creation order
        res, cur = [], {}
        for e in obs['taps'].get('1', []):
            if e[0] == 'c':
                cur[tuple(e[1])] = {'items': [], 'err': False, 'done': False}
                res.append(cur[tuple(e[1])])
            elif e[0] == 'n':
                cur[tuple(e[1])]['items'].append(e[2])
            elif e[0] == 'e':
                cur[tuple(e[1])]['err'] = True
            elif e[0] == 'd':
                cur[tuple(e[1])]['done'] = True
            elif e[0] == 'fatal':
                break            # on_error ends every group that is still open: nothing to compare for those
        return res
    res, cur, dead = [], {}, False
    for e, st in zip(case['trace'], obs['steps']):
        k = tuple(e[1])
        if e[0] == 'c' and not dead:
            cur[k] = {'items': [], 'err': False, 'done': False}
            res.append(cur[k])
        for o in st:
            if o[0] == 'n':
                cur[tuple(o[1])]['items'].append(o[2])
            elif o[0] == 'e':
                cur[tuple(o[1])]['err'] = True
            elif o[0] == 'd':
                cur[tuple(o[1])]['done'] = True
            elif o[0] == 'fatal':
                cur[k]['err'] = True
                dead = True
    return res


def cut_fatal(steps):
    out, dead = [], False
    for st in steps:
        cur = []
        for o in st:
            if dead:
                break
            cur.append(o)
            if o[0] == 'fatal':
                dead = True
        out.append(cur)
    return out


def sig_of(ast):
    ks = []
    for n in ast:
        ks.append(n[0] if n[0] != 'tee' else 'tee')
    return '+'.join(sorted(set(ks)))[:60]


def oracle(case, obs):
    if 'raised' in obs:
        return None          # outside the modelled fragment; reported through the correspondence
    res = mux_results(case, obs)
    if case['kind'] == 'groupby' and obs.get('entry') is not None:
        # with_memory_store / multiplex / demux wrappers: same events as the explicit mux trace
        e = obs['entry']
        norm = lambda steps: [[o for o in st if o[0] != 'e'] + [['fatal', o[2]] for o in st if o[0] == 'e'][:1] for st in steps]
        if isinstance(e, dict) or cut_fatal(norm(e)) != cut_fatal(norm(obs['steps'])):
            return {'sig': 'transparency:entry-point', 'what': 'with_memory_store(group_by(...)) on a plain source emits %s, the '
                    'same pipeline on the explicit mux trace emits %s' % (json.dumps(e)[:200], json.dumps(obs['steps'])[:200])}
    for i, (r, p) in enumerate(zip(res, obs['plain'])):
        if 'raised' in p:
            continue
        perr = p['end'].startswith('error')
        if p['end'] == 'error:SequenceContainsNoElementsError':
            continue         # first/last on an empty group: excluded by the property
        if not r['done'] and not r['err']:
            continue         # the run ended (on_error elsewhere) before this group completed
        if perr and r['err']:
            # both fail: compare what was emitted before the failure only if the plain run is a prefix
            continue
        if perr != r['err'] or r['items'] != p['items']:
            return {'sig': 'transparency:' + blame(case['ast'], obs['groups'][i]),
                    'what': 'group %d items %s: mux emits %s%s, plain emits %s (%s)' % (
                        i, short(obs['groups'][i]), short(r['items']), ' then error' if r['err'] else '',
                        short(p['items']), p['end'])}
    return None


def blame(ast, items):
    """smallest prefix of the pipeline on which mux and plain already differ for this group"""
    for j in range(1, len(ast) + 1):
        sub = ast[:j]
        try:
            t = [['c', [0]]] + [['n', [0], x] for x in items] + [['d', [0]]]
            m = muxlib.run_mux(sub, t)
            mi = [o[2] for st in m['steps'] for o in st if o[0] == 'n']
            merr = any(o[0] in ('e', 'fatal') for st in m['steps'] for o in st)
            p = muxlib.run_plain(sub, items)
            if mi != p['items'] or merr != p['end'].startswith('error'):
                return ast[j - 1][0]
        except Exception:
            return ast[j - 1][0] + ':raised'
    return 'interleaving'


def short(xs):
    from harness.pyval import dec
    return json.dumps([dec(x) for x in xs], default=repr)[:160]


def depth(ast):
    d = len(ast)
    for n in ast:
        if n[0] == 'tee':
            d = max(d, 1 + max([depth(b) for b in n[2]] or [0]))
    return d


def nontrivial(case, obs):
    return depth(case['ast']) >= 2 and sum(1 for g in obs.get('groups', []) if len(g) >= 2) >= 2


def describe(cases, obs):
    from harness.props.C02 import kinds
    hist, dep = {}, {}
    for c in cases:
        for k in kinds(c['ast'], set()):
            hist[k] = hist.get(k, 0) + 1
        dep[depth(c['ast'])] = dep.get(depth(c['ast']), 0) + 1
    return {'operator_histogram': hist, 'pipeline_depth': {str(k): v for k, v in sorted(dep.items())},
            'groupby_form': sum(1 for c in cases if c['kind'] == 'groupby'),
            'groups_compared': sum(len(o.get('groups', [])) for o in obs)}


def coq_preamble():
    return muxlib.MUX_PREAMBLE


def coq_term(case, obs):
    if case['kind'] == 'groupby':
        if 'raised' in obs:
            return 'MCRaised'
        main = muxlib.coq_muxcase(gb_ast(case, case['ast']), obs['trace'], obs)
    else:
        main = muxlib.coq_muxcase(case['ast'], case['trace'], obs)
    if main in ('MCRaised', 'MCSkip'):
        return main
    # the plain-observable model (Mux/Plain.v) is tied to the real plain runs of the same pipeline
    from harness.pyval import coq_val
    runs = []
    for items, p in zip(obs.get('groups', []), obs.get('plain', [])):
        if 'raised' not in p and p['end'] == 'completed':
            runs.append('([%s], [%s])' % ('; '.join(coq_val(x) for x in items), '; '.join(coq_val(x) for x in p['items'])))
    if not runs:
        return main
    # ... and the timed plain model (Mux/PlainTimed.v, tee_map included) to the same runs, step by step
    truns = []
    for items, p in zip(obs.get('groups', []), obs.get('plain', [])):
        if 'raised' not in p and p['end'] == 'completed' and not p.get('sub'):
            cl = lambda l: '[%s]' % '; '.join(coq_val(x) for x in l)
            truns.append('(%s, [%s], %s)' % (cl(items), '; '.join(cl(st) for st in p['steps']), cl(p['final'])))
    pipe = muxlib.coq_pipe(case['ast'])
    return 'MCAnd (%s) (MCAnd (MCPlain %s [%s]) (MCPlainT %s [%s]))' % (main, pipe, '; '.join(runs), pipe, '; '.join(truns))


def coq_model_expr(case):
    if case['kind'] == 'groupby':
        items = [e[2] for e in case['trace'] if e[0] == 'n']
        t = [['c', [0]]] + [['n', [0], x] for x in items] + [['d', [0]]]
        return 'mux_model %s %s' % (muxlib.coq_pipe(gb_ast(case, case['ast'])), muxlib.coq_trace(t))
    return 'mux_model %s %s' % (muxlib.coq_pipe(case['ast']), muxlib.coq_trace(case['trace']))


CLAIM = {
    'text': "Theorems (Coq): for every pipeline of the modelled dual-mode operators and every item list, the per-key local machine emits over one lifetime exactly what the pipeline computes on a plain observable (plain_pipe, by structural induction over the pipeline: composition of list functions, so any depth); for EVERY pipeline of the grammar and every well-formed keyed trace (any keys, interleaving, reused slots) the slot-level machine emits during a key's lifetime the timed output of that local machine on the lifetime's items alone (master refinement). Both models are tied to the code: multiplexed run vs Mux model and plain run vs Plain model, on random typed pipelines (depth 1-6, nested tee_map, 3 joins) x 1-4 interleaved groups; model-free oracle: mux result per group == plain result. plain_pipe covers map, filter, flat_map, take, first, last, assert_, assert_1 and scan with or without a terminator (hence count, sum, mean, min, max, variance, stddev, to_list, batch, distinct_until_changed, clip, fill_none, identity, do_action, starmap); Timed plain semantics (ptimed_pipe: per-item and completion outputs as list functions, tee_map with zip / combine_latest / merge included; take/first modelled as ceasing to pass items, which is the plain behaviour exactly on the tee_safe fragment of the property, decided by PlainTimed.tsafe): C01_local_equals_plain_timed proves that the local machine emits step by step what it says, and on the tsafe fragment the real plain runs are compared with it step by step (MCPlainT). formal.variance/stddev and to_array are covered by the oracle only.",
    'note': 'Trusted: Coq kernel+VM; hand-written models (Mux/*.v, Plain.v) tied by correspondence; RxPY plain operators and synchronous delivery modelled not verified; preconditions of the property (typed accumulators, tee_safe, non-empty groups for first/last/mean) are generator constraints and the `fits` guard of plain_pipe.',
    'technique': 'Coq proof (forward-simulation refinement of a slot-level model by per-key local machines, list-level induction) + vm_compute correspondence against /repo + model-free oracle',
}
