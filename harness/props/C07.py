"""C07 - time_split sessions respect active/inactive timeouts and closing items."""
import json
from harness import muxlib, muxgen, muxprop
from harness.muxprop import *  # noqa: F401,F403
from harness.pyval import enc, dec, py_fn

PID = 'C07'
RULE = ('time_split over non-decreasing integer timestamps with equal stamps and gaps exactly = timeout and timeout +/- 1, all '
        'combinations of active_timeout / inactive_timeout present or None, closing_mapper present or None, '
        'include_closing_item True/False, consecutive closing items, closing first/last item; 1-3 interleaved keys; also '
        'under group_by (model comparison) and with datetime/timedelta values on the Python side. Inner pipeline tapped at '
        'its head. Oracle: the decision rules of the property text. non-trivial = >= 2 windows in some key; distinct = JSON')
ASSUMPTIONS = ['timeouts, when given, are positive; timestamps are non-decreasing within a key']


def gen_stamps(rng, a, i):
    n = rng.choice([0, 1, 2, 3, 5, 8, 12])
    gaps = [0, 0, 1, 1, 2]
    for t in (a, i):
        if t:
            gaps += [t, t - 1, t + 1, t]
    # mostly small timestamps; sometimes epoch-like ones that cross 2**31 and 2**53 (millisecond / nanosecond clocks)
    ts, cur = [], (rng.randint(0, 5) if rng.random() < 0.85 else rng.choice([2 ** 31 - 4, 2 ** 32 - 3, 2 ** 53 - 5, 10 ** 12, 1700000000000000000]))
    for _ in range(n):
        cur += rng.choice(gaps)
        ts.append(cur)
    return ts


def generate(rng, tier):
    n = {'quick': 450, 'thorough': 10000, 'search': 300}[tier]
    cases = []
    for _ in range(n):
        a = rng.choice([None, 3, 5, 7])
        i = rng.choice([None, 2, 3, 4])
        closing = rng.choice([None, ['comp', ['nth', 1], ['eq', enc(1)]]])
        incl = int(rng.random() < 0.5)
        g = muxgen.Gen(rng, heads=False, tees=False)
        inner = rng.choice([[], [['to_list']], [['count', 1]], [['map', ['nth', 0]], ['scan', ['add'], enc(0), 0, None]]])
        # items are (timestamp, closing flag)
        nk = rng.choice([1, 1, 2, 3])
        lifetimes = []
        for k in rng.sample([0, 1, 3, 6], nk):
            for _ in range(rng.choice([1, 1, 2])):
                ts = gen_stamps(rng, a, i)
                flags = [1 if rng.random() < 0.25 else 0 for _ in ts]
                if ts and rng.random() < 0.2:
                    flags[0] = 1
                if ts and rng.random() < 0.2:
                    flags[-1] = 1
                lifetimes.append(([k], [enc((t, f)) for t, f in zip(ts, flags)]))
        # sequential per slot, interleaved across slots
        per = {}
        for key, items in lifetimes:
            per.setdefault(key[0], []).extend(muxprop.single_trace(items, tuple(key)))
        queues, trace = list(per.values()), []
        while queues:
            q = rng.choice(queues)
            trace.append(q.pop(0))
            queues = [x for x in queues if x]
        ctx = rng.choice(['top', 'top', 'top', 'group', 'datetime'])
        if ctx == 'datetime' and any(dec(x)[0] > 10 ** 9 for _k, its_ in lifetimes for x in its_):
            ctx = 'top'      # timedelta(seconds=...) cannot hold nanosecond-clock values
        core = [['time_split', ['nth', 0], a, i, closing, incl, [['tap', 1]] + inner]]
        ast = [['group', ['comp', ['nth', 0], ['mod', 2]], core]] if ctx == 'group' else core
        cases.append({'ast': ast, 'trace': trace, 'cfg': [a, i, closing is not None, incl], 'ctx': ctx,
                      'unit': rng.choice(['s', 'ms700', 'us', 'h', 'day', 'h36'])})
    return cases


def run_datetime(case):
    """the same session logic driven with datetime / timedelta values, as the documentation describes"""
    from datetime import datetime, timedelta
    import rx
    import rxsci as rs
    a, i, has_closing, incl = case['cfg']
    base = datetime(2024, 1, 1)
    ctx = muxlib.Ctx(lambda x: None)
    # one time unit of the integer model = 1 s, or 700 ms, 1 us, 1 h, 1 day, 36 h (microsecond resolution, days
    # part of timedelta, non-dyadic fractions of a second): the decisions must not depend on the unit
    unit = {'s': timedelta(seconds=1), 'ms700': timedelta(milliseconds=700), 'us': timedelta(microseconds=1),
            'h': timedelta(hours=1), 'day': timedelta(days=1), 'h36': timedelta(hours=36)}[case.get('unit', 's')]
    op = rs.data.time_split(time_mapper=lambda x: base + x[0] * unit,
                            active_timeout=a * unit if a else None,
                            inactive_timeout=i * unit if i else None,
                            closing_mapper=(lambda x: x[1] == 1) if has_closing else None,
                            include_closing_item=bool(incl), pipeline=rx.pipe(muxlib.tap(ctx, 1)))
    store = rs.state.StoreManager(store_factory=rs.state.MemoryStore)
    evs = []
    for e in case['trace']:
        k = muxlib.key_tuple(e[1])
        evs.append(rs.OnCreateMux(k) if e[0] == 'c' else rs.OnCompletedMux(k) if e[0] == 'd' else rs.OnNextMux(k, dec(e[2])))
    rx.from_(evs).pipe(rs.cast_as_mux_observable(), rs.state.with_store(store, op)).subscribe()
    return ctx.taps.get(1, [])


def run_impl(case):
    obs = muxlib.run_mux(case['ast'], case['trace'], taps=True)
    if case['ctx'] == 'datetime':
        obs['taps']['1'] = run_datetime(case)
    return obs


def sessions(cfg, items):
    """The property text as decision rules.  items: (ts, flag). Returns the list of windows (lists of items);
    windows may be empty (a closing item that is included closes its window and opens the next one)."""
    a, i, has_closing, incl = cfg
    wins, ref, last = [], None, None
    for x in items:
        ts, flag = x
        if ref is None:
            wins.append([])
            ref, last = ts, ts
        if (a is not None and ts >= ref + a) or (i is not None and ts >= last + i):
            wins.append([x])
            ref, last = ts, ts
        elif has_closing and flag == 1:
            if incl:
                wins[-1].append(x)
                wins.append([])
            else:
                wins.append([x])
            ref, last = ts, ts
        else:
            wins[-1].append(x)
            last = ts
    return wins


def oracle(case, obs):
    if 'raised' in obs or muxprop.has_fatal(obs['steps']) or case['ctx'] == 'group':
        return None
    from harness.props.C06 import segments_by_parent
    got = segments_by_parent(obs['taps'].get('1', []))
    exp = {}
    for lt in muxprop.lifetime_positions(case['trace']):
        exp.setdefault(tuple(lt['key']), []).extend(sessions(case['cfg'], [dec(x) for x in lt['items']]))
    for parent, wins in exp.items():
        g = [[dec(x) for x in s['items']] for s in got.get(parent, [])]
        w = [[tuple(x) for x in win] for win in wins]
        g = [[tuple(x) for x in win] for win in g]
        if g != w:
            return {'sig': 'time_split:windows', 'what': 'key %s cfg(active,inactive,closing,include)=%s: windows %s, rules give %s'
                    % (list(parent), case['cfg'], json.dumps(g)[:220], json.dumps(w)[:220])}
        if not all(s['closed'] for s in got.get(parent, [])):
            return {'sig': 'time_split:unclosed', 'what': 'key %s: a window was never completed' % list(parent)}
    return None


def coq_term(case, obs):
    """the output step by step against the slot-level model; and for the datetime runs the trace that ENTERED the window
    pipelines (tap at the head) against the model's head boundary of the same operator on the integer timestamps - the
    decision rules compare differences of timestamps with the timeouts, so they are invariant under the affine map
    ts -> base + ts * unit that the datetime run applies to both"""
    base = muxlib.coq_muxcase(case['ast'], case['trace'], obs)
    if case['ctx'] != 'datetime' or not base.startswith('MC ') or 'raised' in obs:
        return base
    from harness.props.C03 import bnd_mask
    plain = muxprop.strip_taps(case['ast'])
    mask = [False] * len(bnd_mask(plain[0][-1])) + [True, False]
    tap = obs['taps'].get('1', [])
    taps = '[[' + '; '.join(muxlib.coq_oev(e) for e in tap if e[0] != 'completed') + ']]'
    return 'MCAnd (%s) (MCBnd %s %s [%s] %s)' % (base, muxlib.coq_pipe(plain), muxlib.coq_trace(case['trace']),
                                                '; '.join('true' if b else 'false' for b in mask), taps)


def nontrivial(case, obs):
    return any(len(sessions(case['cfg'], [dec(x) for x in lt['items']])) >= 2
               for lt in muxprop.lifetime_positions(case['trace']))


def describe(cases, obs):
    cfgs, ctx = {}, {}
    for c in cases:
        k = 'active=%s inactive=%s closing=%s include=%s' % (c['cfg'][0] is not None, c['cfg'][1] is not None, c['cfg'][2], bool(c['cfg'][3]))
        cfgs[k] = cfgs.get(k, 0) + 1
        ctx[c['ctx']] = ctx.get(c['ctx'], 0) + 1
    return {'option_combinations': cfgs, 'contexts': ctx}


CLAIM = {
    'text': "Theorems (Coq): time_split's slot-level machine refines its per-key machine; the windows are `sessions` defined by the property's decision rules (expired iff ts >= reference+active or ts >= previous+inactive, proved as an iff incl. gaps exactly equal to a timeout; closing item included/excluded; reference = first item or preceding closing item), each processed by a fresh inner machine in order; concat sessions = xs. Timestamps are integers in the model; for the datetime/timedelta runs the trace that enters the window pipelines is compared with the head boundary of the model (MCBnd) on the integer timestamps (the rules compare differences with timeouts: invariant under ts -> base + ts*unit) and judged by the rules on the Python side. Oracle: the rules re-implemented in Python from the property text, inner tap.",
    'note': 'Trusted: Coq kernel+VM; hand-written model; positive timeouts assumed; non-decreasing timestamps in generators.',
    'technique': 'Coq proof (forward-simulation refinement of a slot-level model by per-key local machines, list-level induction) + vm_compute correspondence against /repo + model-free oracle',
}
