"""C15 - framing round-trips under any re-chunking (rxsci/framing/line.py, length_prefix.py)."""
import itertools
from harness import core
from harness.rxutil import run_timed
from harness.core import c_list, c_zlist, c_nlist, c_nat, c_bool

PID = 'C15'
RULE = ('cases: (items, tail/partial, chunking) with chunk cuts anywhere incl. empty chunks and cuts inside a '
        'prefix/payload; plus a malformed stream of arbitrary chunks (model comparison only). non-trivial = at '
        'least 2 items and at least one cut strictly inside an item or prefix; distinct = distinct case JSON')
TRUSTED = ['modelled not verified: Python str.split/join, int.to_bytes/from_bytes, io.BytesIO, RxPY Subject '
           'synchronous delivery']
ASSUMPTIONS = ['items contain no newline (line) / are shorter than 256^p bytes (length prefix)']
SHARD = 400
COQ_TARGETS = ['theories/Framing/C15Corr.vo']

ALPH = ['a', 'b', '\r', ' ', '\x00', 'é', '\U0001f600', '\x04', '\x00\x00']


def cut(rng, s, ncuts, empty_prob=0.2):
    pts = sorted(rng.randint(0, len(s)) for _ in range(ncuts))
    out, prev = [], 0
    for p in pts + [len(s)]:
        out.append(s[prev:p])
        prev = p
        if rng.random() < empty_prob:
            out.append(s[0:0])
    return out


def gen_line(rng, big=False):
    n = rng.choice([0, 1, 2, 3, 5, 8] + ([40] if big else []))
    items = []
    for _ in range(n):
        ln = rng.choice([0, 0, 1, 2, 3, 6])
        items.append(''.join(rng.choice(ALPH) for _ in range(ln)))
    tail = ''.join(rng.choice(ALPH) for _ in range(rng.choice([0, 0, 1, 3])))
    s = ''.join(i + '\n' for i in items) + tail
    chunks = cut(rng, s, rng.choice([0, 1, 2, 3, 5, len(s)]))
    if rng.random() < 0.15:
        chunks = list(s)  # 1-character chunks
    return {'kind': 'line', 'items': items, 'tail': tail, 'chunks': chunks}


def gen_lp(rng, big=False):
    p = rng.choice([1, 2, 4, 8])
    order = rng.choice(['little', 'big'])
    n = rng.choice([0, 1, 2, 3, 5])
    items = []
    for _ in range(n):
        ln = rng.choice([0, 0, 1, 2, 5, 10] + ([255, 256, 300] if p > 1 else [255]))
        if ln > 20 and not big and rng.random() < 0.7:
            ln = 3
        items.append(bytes(rng.choice([0, 1, 2, 10, 255, rng.randrange(256)]) for _ in range(ln)))
    s = b''.join(len(i).to_bytes(p, order) + i for i in items)
    partial = b''
    if rng.random() < 0.5:
        it = bytes(rng.randrange(256) for _ in range(rng.choice([0, 1, 4])))
        fr = len(it).to_bytes(p, order) + it
        partial = fr[:rng.randrange(len(fr))]
    s += partial
    chunks = cut(rng, s, rng.choice([0, 1, 2, 3, 6, len(s)]))
    if rng.random() < 0.15:
        chunks = [bytes([b]) for b in s]
    return {'kind': 'lp', 'p': p, 'order': order, 'items': [list(i) for i in items], 'partial': list(partial),
            'chunks': [list(c) for c in chunks]}


def gen_malformed(rng):
    if rng.random() < 0.5:
        chunks = [''.join(rng.choice(ALPH + ['\n', '\n', '\n\n']) for _ in range(rng.randrange(5)))
                  for _ in range(rng.randrange(6))]
        return {'kind': 'line', 'items': None, 'tail': None, 'chunks': chunks}
    p = rng.choice([1, 2])
    chunks = [[rng.choice([0, 0, 1, 2, 3]) for _ in range(rng.randrange(6))] for _ in range(rng.randrange(6))]
    return {'kind': 'lp', 'p': p, 'order': rng.choice(['little', 'big']), 'items': None, 'partial': None,
            'chunks': chunks}


def exhaustive_cuts(rng, ncuts):
    """every placement of `ncuts` cuts of a few short framed streams"""
    out = []
    streams = [('line', ['ab', '', 'c'], 'd'), ('line', ['', ''], ''), ('line', ['x'], '')]
    for kind, items, tail in streams:
        s = ''.join(i + '\n' for i in items) + tail
        for pts in itertools.combinations_with_replacement(range(len(s) + 1), ncuts):
            ch, prev = [], 0
            for q in list(pts) + [len(s)]:
                ch.append(s[prev:q])
                prev = q
            out.append({'kind': 'line', 'items': items, 'tail': tail, 'chunks': ch})
    for p, order in [(1, 'little'), (2, 'big'), (2, 'little'), (4, 'big')]:
        items = [b'\x01\x02', b'', b'\x00']
        s = b''.join(len(i).to_bytes(p, order) + i for i in items) + (3).to_bytes(p, order) + b'\x09'
        for pts in itertools.combinations_with_replacement(range(len(s) + 1), ncuts):
            ch, prev = [], 0
            for q in list(pts) + [len(s)]:
                ch.append(list(s[prev:q]))
                prev = q
            out.append({'kind': 'lp', 'p': p, 'order': order, 'items': [list(i) for i in items],
                        'partial': list((3).to_bytes(p, order) + b'\x09'), 'chunks': ch})
    return out


def generate(rng, tier):
    n = {'quick': 500, 'thorough': 12000, 'search': 400}[tier]
    cases = []
    for i in range(n):
        r = rng.random()
        cases.append(gen_malformed(rng) if r < 0.12 else gen_line(rng, tier != 'quick') if r < 0.56
                     else gen_lp(rng, tier != 'quick'))
    if tier != 'search':
        cases += exhaustive_cuts(rng, 2)
    if tier == 'thorough':
        cases += exhaustive_cuts(rng, 3)
    return cases


def run_impl(case):
    from rxsci.framing import line, length_prefix
    if case['kind'] == 'line':
        r = run_timed(line.unframe(), case['chunks'])
        fr = run_timed(line.frame(), case['items'] or [])
        return {'steps': r['steps'], 'final': r['final'], 'end': r['end'], 'framed': sum(fr['steps'], [])}
    p, order = case['p'], case['order']
    r = run_timed(length_prefix.unframe(p, order), [bytes(c) for c in case['chunks']])
    fr = run_timed(length_prefix.frame(p, order), [bytes(i) for i in case['items'] or []])
    return {'steps': [[list(b) for b in s] for s in r['steps']], 'final': [list(b) for b in r['final']],
            'end': r['end'], 'framed': [list(b) for b in sum(fr['steps'], [])]}


def oracle(case, obs):
    """C15 itself, no model: unframing any re-chunking of the framed items gives back the items."""
    if case['items'] is None:
        return None
    if 'raised' in obs:
        return {'sig': 'framing:raised', 'what': 'framing raised %s' % obs['raised']}
    got = sum(obs['steps'], []) + obs['final']
    if case['kind'] == 'line':
        want = list(case['items']) + ([case['tail']] if case['tail'] else [])
        if ''.join(obs['framed']) + case['tail'] != ''.join(case['chunks']):
            return {'sig': 'line:frame', 'what': 'frame() output is not item+newline'}
        # a trailing unterminated line is delivered at completion, not before
        if case['tail'] and (not obs['final'] or obs['final'][-1] != case['tail']):
            return {'sig': 'line:tail', 'what': 'trailing unterminated line not delivered at completion'}
    else:
        want = case['items']
        if obs['final']:
            return {'sig': 'lp:partial-delivered', 'what': 'incomplete trailing frame delivered'}
        if sum(obs['framed'], []) + case['partial'] != sum(case['chunks'], []):
            return {'sig': 'lp:frame', 'what': 'frame() output is not prefix+payload'}
    if got != want or obs['end'] != 'completed':
        return {'sig': case['kind'] + ':roundtrip', 'what': 'unframe(rechunk(frame(items))) != items: got %r want %r end=%s'
                % (got[:6], want[:6], obs['end'])}
    return None


def nontrivial(case, obs):
    return case['items'] is not None and len(case['items']) >= 2 and len(case['chunks']) >= 2


def describe(cases, obs):
    d = {'line': 0, 'lp': 0, 'malformed': 0, 'empty_chunks': 0, 'max_chunks': 0, 'prefix_sizes': {}, 'with_tail_or_partial': 0}
    for c in cases:
        if c['items'] is None:
            d['malformed'] += 1
        d[c['kind']] += 1
        d['empty_chunks'] += sum(1 for ch in c['chunks'] if len(ch) == 0)
        d['max_chunks'] = max(d['max_chunks'], len(c['chunks']))
        if c['kind'] == 'lp':
            d['prefix_sizes'][str(c['p'])] = d['prefix_sizes'].get(str(c['p']), 0) + 1
        if c.get('tail') or c.get('partial'):
            d['with_tail_or_partial'] += 1
    return d


def coq_preamble():
    return ('From Coq Require Import List ZArith NArith Bool.\nImport ListNotations.\n'
            'From RxVerif Require Import Base.Corr Framing.Line Framing.LengthPrefix Framing.C15Corr.\n')


CTYPE = 'c15case'
CHECKER = 'c15_check'


def zs(s):
    return c_zlist([ord(c) for c in s])


def coq_term(case, obs):
    if 'raised' in obs:
        return 'CRaised'
    if case['kind'] == 'line':
        return 'CLine %s %s %s %s %s' % (
            c_list([zs(i) for i in case['items'] or []]), c_list([zs(i) for i in obs['framed']]),
            c_list([zs(c) for c in case['chunks']]),
            c_list([c_list([zs(l) for l in st]) for st in obs['steps'] + [obs['final']]]),
            c_bool(obs['end'] == 'completed'))
    return 'CLp %s %s %s %s %s %s %s' % (
        c_nat(case['p']), c_bool(case['order'] == 'big'),
        c_list([c_nlist(i) for i in case['items'] or []]), c_list([c_nlist(i) for i in obs['framed']]),
        c_list([c_nlist(c) for c in case['chunks']]),
        c_list([c_list([c_nlist(l) for l in st]) for st in obs['steps'] + [obs['final']]]),
        c_bool(obs['end'] == 'completed'))


def coq_model_expr(case):
    if case['kind'] == 'line':
        return 'z_unframe %s' % c_list([zs(c) for c in case['chunks']])
    return 'n_unframe %s %s %s' % (c_nat(case['p']), c_bool(case['order'] == 'big'),
                                   c_list([c_nlist(c) for c in case['chunks']]))


CLAIM = {
    'text': 'Theorems (Coq, closed under the global context) for every item list, every re-chunking incl. empty '
            'chunks and cuts inside a prefix/payload, every prefix size >= 1 and both byte orders: line and '
            'length-prefix unframe(rechunk(frame(items))) = items; trailing unterminated line delivered at '
            'completion; strict prefix of a frame never delivered; per-chunk promptness. The model is tied to '
            'rxsci/framing/*.py by evaluating it in Coq on the chunk sequences the implementation was run on '
            '(per-chunk outputs compared), including all 2-cut (thorough: 3-cut) placements of short streams.',
    'note': 'Trusted: Coq kernel+VM; hand-written model of line.py/length_prefix.py (tied by correspondence only); '
            'Python str.split/join, int.to_bytes/from_bytes, io.BytesIO and RxPY synchronous delivery are '
            'modelled, not verified.',
    'technique': 'Coq proof (induction over chunk list with carry-over invariant; generic incremental parser) + vm_compute correspondence',
}
