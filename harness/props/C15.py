"""C15 - framing round-trips under any re-chunking (rxsci/framing/line.py, length_prefix.py).

Kinds of cases
  line / lp  one framed stream (items, trailing unterminated line / incomplete trailing frame, a chunking of the
             stream) through a fresh unframe(); the items through a fresh frame().  Model-free oracle (round trip)
             and per-chunk comparison with the Coq model.  items None = malformed stream, model comparison only.
  resub      RE-SUBSCRIPTION: one operator / one piped observable (source.pipe(unframe()), also frame()) is built
             ONCE and subscribed two or three times, every subscription with its own items and its own chunking -
             one lifetime after the other, or two / three alive at once (chunks alternating or randomly
             interleaved; on one hot Subject: the same chunks to everyone alive).  Earlier subscriptions ran to
             completion, were disposed after k chunks or were ended by on_error from the source after k chunks
             (k anywhere, also inside a line / prefix / payload).  Sources: rx.defer (a Subject per subscription),
             one hot Subject, rx.create emitting synchronously inside subscribe() (what retry / repeat over a
             cold source do).  Every subscription is a stream in its own right: driven to completion it must
             deliver exactly ITS items (as a fresh unframe would), cut short a prefix of ITS items, never anything
             of another subscription.  The chunks and per-chunk outputs of one completed subscription go through
             the Coq model like a plain case.
  scale      SCALE: one framed stream with a line / frame of 64 KiB up to several hundred KiB (prefix 2: 32768 ..
             65535 bytes, the upper half of what the prefix encodes) whose content varies by position, as a terminated
             line / complete frame between short items or as the trailing unterminated line / incomplete trailing
             frame, delivered in many separator-free chunks of UNEQUAL sizes (large then small then tiny, random sizes,
             thousands of tiny chunks, growing, uniform with a short last chunk).  The case is a compact descriptor
             (content seed, item lengths, chunk sizes); content and chunks are rebuilt from it, the observation holds
             length + digest of every delivered item.  Model-free oracle only (CSkip in Coq: a 40000 byte frame takes
             the Coq VM 20 s).  Prefix 1 with payloads of 128 .. 255 bytes is small: plain lp cases, with the model.
"""
import hashlib
import itertools
import random
from harness import core
from harness.rxutil import run_timed
from harness.core import c_list, c_zlist, c_nlist, c_nat, c_bool

PID = 'C15'
RULE = ('cases: (items, tail/partial, chunking) with chunk cuts anywhere incl. empty chunks and cuts inside a '
        'prefix/payload; plus a malformed stream of arbitrary chunks (model comparison only); plus re-subscription '
        'cases: one unframe()/frame() operator or one piped observable built once and subscribed 2-3 times, each '
        'subscription with its own items and chunking, lifetimes sequential / alternating / randomly interleaved, '
        'earlier lifetimes completed, disposed after k chunks or ended by a source error after k chunks, sources '
        'rx.defer / one hot Subject / synchronous rx.create; exhaustive small scope: framing x sharing x source x '
        'order x fate of the first subscription at every k of a fixed chunking and after the first chunk of every '
        '1-cut chunking, every pair of 1-cut chunkings for two alternating subscriptions. non-trivial = at '
        'least 2 items and at least one cut strictly inside an item or prefix, or a re-subscription case whose '
        'later subscription runs to completion on >= 1 item in >= 2 chunks, or a scale case with a line / frame of '
        '>= 32 KiB in >= 3 chunks; distinct = distinct case JSON. SCALE family (model-free oracle only, compact '
        'descriptor = content seed + item lengths + chunk sizes, all drawn from the case PRNG): a line / frame of '
        '64 KiB .. 400 KB (thorough: 600 KB; prefix 2: 32768..65535 bytes) with position-dependent content, '
        'terminated between short items or as the trailing unterminated line / incomplete trailing frame, prefix '
        '2/4/8 and both byte orders, cut into separator-free chunks of unequal sizes: large-small-tiny cycles, '
        'random sizes incl. empty, thousands of tiny chunks, growing 1..100000, uniform with a short last chunk; '
        'plus prefix 1 with payloads of 128..255 bytes as plain cases with model comparison')
TRUSTED = ['modelled not verified: Python str.split/join, int.to_bytes/from_bytes, io.BytesIO, RxPY Subject '
           'synchronous delivery',
           'not modelled: that every subscription of one unframe() operator / piped observable has a carry-over '
           'buffer of its own (the Coq model is a function of ONE chunk list); tested by the re-subscription '
           'cases (model-free oracle per subscription), not proved',
           'scale cases (a line / frame of 32 KiB and more) are judged by the model-free oracle alone (digests of the '
           'delivered items against the items rebuilt from the case descriptor; SHA-1 collisions trusted away); the '
           'Coq model is not evaluated on them']
ASSUMPTIONS = ['items contain no newline (line) / are shorter than 256^p bytes (length prefix)']
SHARD = 400
COQ_TARGETS = ['theories/Framing/C15Corr.vo']

ALPH = ['a', 'b', '\r', ' ', '\x00', 'é', '\U0001f600', '\x04', '\x00\x00']


def cut(rng, s, ncuts, empty_prob=0.2):
    pts = sorted(rng.randint(0, len(s)) for _ in range(ncuts))
    out, prev = [], 0
    for p in pts + [len(s)]:
        out.append(s[prev:p])
        prev = p
        if rng.random() < empty_prob:
            out.append(s[0:0])
    return out


def gen_line(rng, big=False):
    n = rng.choice([0, 1, 2, 3, 5, 8] + ([40] if big else []))
    items = []
    for _ in range(n):
        ln = rng.choice([0, 0, 1, 2, 3, 6])
        items.append(''.join(rng.choice(ALPH) for _ in range(ln)))
    tail = ''.join(rng.choice(ALPH) for _ in range(rng.choice([0, 0, 1, 3])))
    s = ''.join(i + '\n' for i in items) + tail
    chunks = cut(rng, s, rng.choice([0, 1, 2, 3, 5, len(s)]))
    if rng.random() < 0.15:
        chunks = list(s)  # 1-character chunks
    return {'kind': 'line', 'items': items, 'tail': tail, 'chunks': chunks}


def gen_lp(rng, big=False, p=None, order=None):
    p = p or rng.choice([1, 2, 4, 8])
    order = order or rng.choice(['little', 'big'])
    n = rng.choice([0, 1, 2, 3, 5])
    items = []
    for _ in range(n):
        ln = rng.choice([0, 0, 1, 2, 5, 10] + ([255, 256, 300] if p > 1 else [255]))
        if ln > 20 and not big and rng.random() < 0.7:
            ln = 3
        items.append(bytes(rng.choice([0, 1, 2, 10, 255, rng.randrange(256)]) for _ in range(ln)))
    s = b''.join(len(i).to_bytes(p, order) + i for i in items)
    partial = b''
    if rng.random() < 0.5:
        it = bytes(rng.randrange(256) for _ in range(rng.choice([0, 1, 4])))
        fr = len(it).to_bytes(p, order) + it
        partial = fr[:rng.randrange(len(fr))]
    s += partial
    chunks = cut(rng, s, rng.choice([0, 1, 2, 3, 6, len(s)]))
    if rng.random() < 0.15:
        chunks = [bytes([b]) for b in s]
    return {'kind': 'lp', 'p': p, 'order': order, 'items': [list(i) for i in items], 'partial': list(partial),
            'chunks': [list(c) for c in chunks]}


def gen_malformed(rng):
    if rng.random() < 0.5:
        chunks = [''.join(rng.choice(ALPH + ['\n', '\n', '\n\n']) for _ in range(rng.randrange(5)))
                  for _ in range(rng.randrange(6))]
        return {'kind': 'line', 'items': None, 'tail': None, 'chunks': chunks}
    p = rng.choice([1, 2])
    chunks = [[rng.choice([0, 0, 1, 2, 3]) for _ in range(rng.randrange(6))] for _ in range(rng.randrange(6))]
    return {'kind': 'lp', 'p': p, 'order': rng.choice(['little', 'big']), 'items': None, 'partial': None,
            'chunks': chunks}


def exhaustive_cuts(rng, ncuts):
    """every placement of `ncuts` cuts of a few short framed streams"""
    out = []
    streams = [('line', ['ab', '', 'c'], 'd'), ('line', ['', ''], ''), ('line', ['x'], '')]
    for kind, items, tail in streams:
        s = ''.join(i + '\n' for i in items) + tail
        for pts in itertools.combinations_with_replacement(range(len(s) + 1), ncuts):
            ch, prev = [], 0
            for q in list(pts) + [len(s)]:
                ch.append(s[prev:q])
                prev = q
            out.append({'kind': 'line', 'items': items, 'tail': tail, 'chunks': ch})
    for p, order in [(1, 'little'), (2, 'big'), (2, 'little'), (4, 'big')]:
        items = [b'\x01\x02', b'', b'\x00']
        s = b''.join(len(i).to_bytes(p, order) + i for i in items) + (3).to_bytes(p, order) + b'\x09'
        for pts in itertools.combinations_with_replacement(range(len(s) + 1), ncuts):
            ch, prev = [], 0
            for q in list(pts) + [len(s)]:
                ch.append(list(s[prev:q]))
                prev = q
            out.append({'kind': 'lp', 'p': p, 'order': order, 'items': [list(i) for i in items],
                        'partial': list((3).to_bytes(p, order) + b'\x09'), 'chunks': ch})
    return out


# ---- re-subscription of ONE operator / ONE piped observable ---------------------------------------------
# case = {'kind': 'resub', 'framing': 'line'|'lp', 'p', 'order', 'side': 'u' (unframe is the shared operator,
#         inputs = chunks) | 'f' (frame is the shared operator, inputs = items), 'share': 'observable'
#         (source.pipe(op) built once, subscribed several times) | 'operator' (op built once, applied to a source
#         per subscription), 'source': 'defer' (rx.defer: a Subject of its own per subscription) | 'hot' (one
#         Subject for all subscriptions) | 'cold' (rx.create: emits synchronously inside subscribe()),
#         'sched': 'seq' (one lifetime after the other) | 'alt' (alive at once, actions strictly alternating) |
#         'inter' (alive at once, random merge drawn from 'iseed'), 'iseed',
#         'subs': [{'items', 'tail' | 'partial', 'chunks', 'fate': 'full' | 'dispose' | 'error', 'k'}]}
# fate 'full': all inputs, then on_completed;  'dispose' / 'error': k inputs, then dispose() of the subscription
# / on_error from the source.  The LAST subscription is always 'full'.
def stream_of(framing, items, rest, p=None, order=None):
    if framing == 'line':
        return ''.join(i + '\n' for i in items) + rest
    return b''.join(len(bytes(i)).to_bytes(p, order) + bytes(i) for i in items) + bytes(rest)


def mk_sub(framing, items, rest, chunks, fate='full', k=0):
    if framing == 'line':
        return {'items': list(items), 'tail': rest, 'chunks': list(chunks), 'fate': fate, 'k': k}
    return {'items': [list(i) for i in items], 'partial': list(rest), 'chunks': [list(c) for c in chunks],
            'fate': fate, 'k': k}


def n_inputs(case, s):
    return len(s['chunks'] if case['side'] == 'u' else s['items'])


def resub_case(framing, p, order, side, share, source, sched, subs, iseed=0):
    c = {'kind': 'resub', 'framing': framing, 'side': side, 'share': share, 'source': source, 'sched': sched,
         'iseed': iseed, 'subs': subs}
    if framing == 'lp':
        c['p'], c['order'] = p, order
    return c


def gen_resub(rng):
    framing = rng.choice(['line', 'lp'])
    p, order = (rng.choice([1, 2, 4, 8]), rng.choice(['little', 'big'])) if framing == 'lp' else (None, None)
    side = rng.choice(['u'] * 5 + ['f'])
    share = rng.choice(['observable', 'observable', 'operator'])
    source, sched = rng.choice([('defer', 'seq'), ('defer', 'seq'), ('defer', 'alt'), ('defer', 'inter'),
                                ('defer', 'inter'), ('hot', 'seq'), ('hot', 'inter'), ('cold', 'seq')])
    nsub = rng.choice([2, 2, 2, 3])
    subs = []
    for j in range(nsub):
        g = gen_line(rng) if framing == 'line' else gen_lp(rng, p=p, order=order)
        if j < nsub - 1 and not (g['items'] or g.get('tail') or g.get('partial')) and rng.random() < 0.8:
            g = gen_line(rng) if framing == 'line' else gen_lp(rng, p=p, order=order)
        subs.append({k: v for k, v in g.items() if k in ('items', 'tail', 'partial', 'chunks')})
    if source == 'hot' and sched != 'seq':
        subs = [dict(subs[-1]) for _ in subs]           # one stream, seen by every subscription alive
    case = resub_case(framing, p, order, side, share, source, sched, subs, rng.randrange(10 ** 6))
    for j, s in enumerate(subs):
        if j == nsub - 1:
            fates = ['full']
        elif source == 'hot':
            fates = ['dispose'] if sched == 'seq' else ['dispose', 'dispose', 'full']
        else:
            fates = ['full', 'dispose', 'dispose', 'error', 'error']
        s['fate'] = rng.choice(fates)
        n = n_inputs(case, s)
        s['k'] = rng.choice([rng.randint(0, n), rng.randint(0, n), max(0, n - 1), min(1, n)])
    return case


def one_cuts(s):
    return [[s[:c], s[c:]] for c in range(len(s) + 1)]


def exhaustive_resub():
    """framing x sharing x (source, order) x what happened to the FIRST subscription (ran to completion / disposed
    / source error after every k of a fixed chunking that cuts frames, and after the first chunk of EVERY 1-cut
    chunking); the second subscription is a complete stream of other items, cut inside its first frame.  With two
    subscriptions alive at once and strictly alternating: every pair of 1-cut chunkings."""
    out = []
    for framing, p, order in [('line', None, None), ('lp', 1, 'little'), ('lp', 2, 'big')]:
        if framing == 'line':
            ia, ra, ib, rb = ['ab', '', 'c'], 'd', ['x', 'yz'], ''
            sa, sb = stream_of(framing, ia, ra), stream_of(framing, ib, rb)
            ca = [sa[:1], sa[1:5], sa[5:5], sa[5:7], sa[7:]]          # 'a' 'b\n\nc' '' '\nd' ''
            cb = [sb[:3], sb[3:]]                                      # 'x\ny' 'z\n'
        else:
            ia, ib = [b'\x01\x02', b'', b'\x00'], [b'\x07', b'\x08\x09']
            ra, rb = (3).to_bytes(p, order) + b'\x09', b''
            sa, sb = stream_of(framing, ia, ra, p, order), stream_of(framing, ib, rb, p, order)
            q = len(sa) // 2
            ca = [sa[:1], sa[1:q], sa[q:q], sa[q:q + 1], sa[q + 1:]]
            cb = [sb[:2 * p + 2], sb[2 * p + 2:]]                      # cut inside the second payload
        second = lambda: mk_sub(framing, ib, rb, cb)
        firsts = [('full', 0, ca)] + [(f, k, ca) for f in ('dispose', 'error') for k in range(len(ca) + 1)] + \
                 [(f, 1, ch) for f in ('dispose', 'error') for ch in one_cuts(sa)]
        for share in ('observable', 'operator'):
            for source, sched in (('defer', 'seq'), ('defer', 'alt'), ('cold', 'seq'), ('hot', 'seq'), ('hot', 'inter')):
                for fate, k, ch in firsts:
                    if source == 'hot' and (fate == 'error' or (fate == 'full' and sched == 'seq')):
                        continue                     # one Subject for all: it cannot end before the last lifetime
                    a = mk_sub(framing, ia, ra, ch, fate, k)
                    b = mk_sub(framing, ia, ra, ch) if (source, sched) == ('hot', 'inter') else second()
                    out.append(resub_case(framing, p, order, 'u', share, source, sched, [a, b]))
            for cha in one_cuts(sa):
                for chb in one_cuts(sb):
                    out.append(resub_case(framing, p, order, 'u', share, 'defer', 'alt',
                                          [mk_sub(framing, ia, ra, cha), mk_sub(framing, ib, rb, chb)]))
            # the frame() side: stateless, a small scope
            for source, sched in (('defer', 'seq'), ('defer', 'alt'), ('cold', 'seq')):
                for fate, k in (('full', 0), ('dispose', 1), ('error', 2)):
                    out.append(resub_case(framing, p, order, 'f', share, source, sched,
                                          [mk_sub(framing, ia, ra, ca, fate, k), second()]))
    return out


def resub_schedule(case):
    """[(action, subscription index[, input index])]"""
    subs = case['subs']
    per = []
    for i, s in enumerate(subs):
        n = n_inputs(case, s)
        n = n if s['fate'] == 'full' else min(n, s['k'])
        end = {'full': 'complete', 'dispose': 'dispose', 'error': 'error'}[s['fate']]
        if case['source'] == 'cold':       # the source itself emits the n inputs and the terminal event in subscribe()
            per.append([('sub', i)] + ([('dispose', i)] if end == 'dispose' else []))
        else:
            per.append([('sub', i)] + [('push', i, j) for j in range(n)] + [(end, i)])
    if case['sched'] == 'seq' or case['source'] == 'cold':
        return [a for q in per for a in q]
    if case['source'] == 'hot':
        # all subscribe first; the one stream (that of the last subscription) flows to everyone alive; the earlier
        # ones leave after their k chunks (fate dispose) or stay to the end (fate full)
        last = len(subs) - 1
        out = [('sub', i) for i in range(len(subs))]
        left = set()

        def leave(j):
            for i, s in enumerate(subs[:-1]):
                if s['fate'] != 'full' and i not in left and s['k'] <= j:
                    left.add(i)
                    out.append(('dispose', i))
        leave(0)
        for j in range(n_inputs(case, subs[-1])):
            out.append(('push', last, j))
            leave(j + 1)
        leave(10 ** 9)
        return out + [('complete', last)]
    out = []
    if case['sched'] == 'alt':
        while any(per):
            for q in per:
                if q:
                    out.append(q.pop(0))
        return out
    rng = random.Random(case['iseed'])
    while any(per):
        q = rng.choice([q for q in per if q])
        out.append(q.pop(0))
    return out


# ---- scale: very long lines / frames in many separator-free chunks of unequal sizes ------------------------
# case = {'kind': 'scale', 'framing': 'line'|'lp', 'p', 'order', 'seed': content seed, 'items': [length of every item],
#         'rest': line: length of the trailing unterminated line (0 = none); lp: None or [declared payload length,
#         number of bytes of that frame (prefix + payload) that are in the stream, fewer than the whole frame],
#         'sizes': [chunk sizes, consecutive; what is left over, if anything, is one more chunk],
#         'mode', 'where': how the sizes / the position of the big item were drawn (for describe() only)}
SCALE_MODES = ('bst', 'random', 'tiny', 'growing', 'uniform')
_TEXT = {10: 0x2028, 65: 0x1F600, 66: 0xE9, 67: 0x10FFFF, 68: 0x100}      # no newline; some wide characters


def scale_bytes(seed, k, n):
    """content of item k: n bytes that depend on the position (any loss, duplication or reordering shows)"""
    return random.Random('%d/%d' % (seed, k)).randbytes(n)


def scale_text(seed, k, n):
    """n characters without newline: all of latin-1 (incl. \\r, \\x00, \\x0b, \\x0c, \\x1c-\\x1e, \\x85) and some wide ones"""
    return scale_bytes(seed, k, n).decode('latin-1').translate(_TEXT)


def scale_stream(case):
    """(items, rest, chunks) of a scale case as real str / bytes, from the descriptor alone"""
    seed = case['seed']
    if case['framing'] == 'line':
        items = [scale_text(seed, k, n) for k, n in enumerate(case['items'])]
        rest = scale_text(seed, -1, case['rest'])
        s = ''.join(i + '\n' for i in items) + rest
    else:
        p, order = case['p'], case['order']
        items = [scale_bytes(seed, k, n) for k, n in enumerate(case['items'])]
        rest = b''
        if case['rest']:
            ln, have = case['rest']
            rest = (ln.to_bytes(p, order) + scale_bytes(seed, -1, ln))[:min(have, p + ln - 1)]
        s = b''.join(len(i).to_bytes(p, order) + i for i in items) + rest
    chunks, pos = [], 0
    for n in case['sizes']:
        chunks.append(s[pos:pos + n])
        pos += n
    if pos < len(s):
        chunks.append(s[pos:])
    return items, rest, chunks


def scale_sizes(rng, mode, total):
    """chunk sizes that add up to `total`"""
    if mode == 'bst':            # large, then small, then tiny (now and then in another order), again and again
        pat = [rng.randint(30000, 66000), rng.randint(1000, 20000), rng.randint(1, 200)]
        if rng.random() < 0.3:
            rng.shuffle(pat)
        nxt = lambda i: pat[i % 3]
    elif mode == 'random':
        nxt = lambda i: rng.choice([0, 1, 7, 50, 999, 4096, 30000, 66000, rng.randint(1, 70000), rng.randint(1, 70000)])
    elif mode == 'tiny':         # thousands of tiny chunks of unequal sizes
        m = max(4, total // rng.choice([1000, 2000, 3000, 6000]))
        nxt = lambda i: rng.randint(0 if rng.random() < 0.02 else 1, 2 * m)
    elif mode == 'growing':
        nxt = lambda i: 10 ** (i % 6)
    else:                        # uniform: the last chunk is the short one
        u = rng.choice([1000, 4096, 50000, 65536, rng.randint(256, 70000)])
        nxt = lambda i: u
    out, left, i = [], total, 0
    while left > 0:
        n = min(nxt(i), left)
        out.append(n)
        left -= n
        i += 1
    return out


def gen_scale(rng, framing, mode, where, hi, p=None):
    """where = 'terminated': the big line / frame is complete and stands between short items;  'trailing': it is the
    trailing unterminated line / the incomplete trailing frame"""
    order = rng.choice(['little', 'big']) if framing == 'lp' else None

    def big():
        if p == 2:
            return rng.choice([32768, 65535, rng.randint(32768, 65535), rng.randint(32768, 65535)])
        return rng.choice([65536, 65537, rng.randint(65536, 100000), rng.randint(65536, hi), rng.randint(65536, hi)])

    def small():
        return [rng.choice([0, 0, 1, 2, 7, 20]) for _ in range(rng.choice([0, 1, 2, 3]))]
    if where == 'terminated':
        items = small() + [big()] + small()
        if hi > 300000 and rng.random() < 0.3:
            items += [big()] + small()
        if framing == 'line':
            rest = rng.choice([0, 0, 3])
        else:
            rest = None
            if rng.random() < 0.4:
                ln = rng.choice([0, 1, 4])
                rest = [ln, rng.randrange(p + ln)]
    else:
        items = small() + ([big()] + small() if rng.random() < 0.3 else [])
        if framing == 'line':
            rest = big()
        else:
            ln = big()
            rest = [ln, rng.choice([p + ln - 1, p + ln - 1, rng.randint(p, p + ln - 1), rng.randint(0, p + ln - 1)])]
    if framing == 'line':
        total = sum(items) + len(items) + rest
    else:
        total = sum(items) + p * len(items) + (rest[1] if rest else 0)
    c = {'kind': 'scale', 'framing': framing, 'seed': rng.randrange(2 ** 32), 'items': items, 'rest': rest,
         'sizes': scale_sizes(rng, mode, total), 'mode': mode, 'where': where}
    if framing == 'lp':
        c['p'], c['order'] = p, order
    return c


def gen_scale_family(rng, tier):
    out = []
    if tier == 'thorough':
        for _ in range(20):
            for where in ('terminated', 'trailing'):
                for mode in SCALE_MODES:
                    out.append(gen_scale(rng, 'line', mode, where, 600000))
        for _ in range(8):
            for p in (2, 4, 8):
                for where in ('terminated', 'trailing'):
                    for mode in SCALE_MODES:
                        out.append(gen_scale(rng, 'lp', mode, where, 600000, p))
        return out
    if tier == 'search':
        return [gen_scale(rng, 'line', rng.choice(SCALE_MODES), rng.choice(['terminated', 'trailing']), 150000)
                for _ in range(3)] + \
               [gen_scale(rng, 'lp', rng.choice(SCALE_MODES), rng.choice(['terminated', 'trailing']), 150000,
                          rng.choice([2, 4, 8])) for _ in range(3)]
    for _ in range(2):
        for where in ('terminated', 'trailing'):
            for mode in ('bst', 'random', 'tiny'):
                out.append(gen_scale(rng, 'line', mode, where, 400000))
        for mode in ('growing', 'uniform'):
            out.append(gen_scale(rng, 'line', mode, rng.choice(['terminated', 'trailing']), 400000))
    for p, where, mode in [(4, 'terminated', 'bst'), (4, 'terminated', 'tiny'), (4, 'trailing', 'random'),
                           (8, 'terminated', 'random'), (8, 'terminated', 'bst'), (8, 'trailing', 'tiny'),
                           (2, 'terminated', 'bst'), (2, 'terminated', 'random'), (2, 'terminated', 'tiny'),
                           (2, 'trailing', 'bst')]:
        out.append(gen_scale(rng, 'lp', mode, where, 400000, p))
    for _ in range(6):
        out.append(gen_scale(rng, 'lp', rng.choice(SCALE_MODES), rng.choice(['terminated', 'trailing']), 400000,
                             rng.choice([2, 4, 8])))
    return out


def gen_lp_upper(rng):
    """prefix 1 with payloads of 128 .. 255 bytes (the upper half of what one byte encodes), content varying by
    position; complete frames and an incomplete trailing one; a plain lp case (small enough for the Coq model)"""
    order = rng.choice(['little', 'big'])
    items = [rng.randbytes(rng.choice([128, 129, 200, 254, 255, rng.randint(128, 255), rng.randint(128, 255), 0, 3]))
             for _ in range(rng.choice([1, 1, 2, 3]))]
    s = b''.join(len(i).to_bytes(1, order) + i for i in items)
    partial = b''
    if rng.random() < 0.5:
        it = rng.randbytes(rng.randint(128, 255))
        partial = (bytes([len(it)]) + it)[:rng.choice([1, len(it), rng.randint(0, len(it))])]
    s += partial
    mode = rng.choice(['cut', 'cut', 'sizes', 'bytes'])
    if mode == 'cut':
        chunks = cut(rng, s, rng.choice([0, 1, 2, 3, 6]))
    elif mode == 'bytes':
        chunks = [bytes([b]) for b in s]
    else:                       # large then small then tiny, scaled down
        pat, chunks, pos, i = [rng.randint(60, 200), rng.randint(5, 40), rng.randint(0, 3)], [], 0, 0
        while pos < len(s):
            chunks.append(s[pos:pos + pat[i % 3]])
            pos += pat[i % 3]
            i += 1
    return {'kind': 'lp', 'p': 1, 'order': order, 'items': [list(i) for i in items], 'partial': list(partial),
            'chunks': [list(c) for c in chunks]}


def dg(x):
    """length and digest of one delivered item"""
    if isinstance(x, str):
        return [len(x), hashlib.sha1(x.encode('utf-8', 'surrogatepass')).hexdigest()[:16]]
    if isinstance(x, (bytes, bytearray)):
        return [len(x), hashlib.sha1(bytes(x)).hexdigest()[:16]]
    return ['?', type(x).__name__]


def run_scale(case):
    mk_un, mk_fr, _, _ = ops_of(case)
    items, rest, chunks = scale_stream(case)
    r = run_timed(mk_un(), chunks)
    fr = run_timed(mk_fr(), items)
    return {'nsteps': len(r['steps']), 'at_sub': [dg(x) for x in r['sub']],
            'out': [[j] + dg(x) for j, st in enumerate(r['steps']) for x in st],      # [chunk index, length, digest]
            'final': [dg(x) for x in r['final']], 'end': r['end'],
            'framed': [dg(x) for x in sum(fr['steps'], [])], 'framed_other': [dg(x) for x in fr['sub'] + fr['final']],
            'frame_end': fr['end']}


def oracle_scale(case, obs):
    """C15 itself on a scale case, no model: the items are rebuilt from the descriptor and compared by length + digest"""
    kind = case['framing']
    items, rest, chunks = scale_stream(case)
    shape = '%s, items of %s, %s, %d chunks (%s): ' % (
        'line' if kind == 'line' else 'length_prefix(%d,%s)' % (case['p'], case['order']), case['items'],
        ('trailing unterminated line of %d' % case['rest']) if kind == 'line' else
        ('incomplete trailing frame %s' % (case['rest'],)), len(chunks), case['mode'])
    if kind == 'line':
        want = [dg(i) for i in items] + ([dg(rest)] if rest else [])
        framed = [dg(i + '\n') for i in items]
    else:
        want = [dg(i) for i in items]
        framed = [dg(len(i).to_bytes(case['p'], case['order']) + i) for i in items]
    if obs['framed'] != framed or obs['framed_other'] or obs['frame_end'] != 'completed':
        return {'sig': kind + ':frame', 'what': shape + 'frame() output is not %s (end=%s)' % (
            'item+newline' if kind == 'line' else 'prefix+payload', obs['frame_end'])}
    if kind == 'line' and rest and (not obs['final'] or obs['final'][-1] != dg(rest)):
        return {'sig': 'line:tail', 'what': shape + 'trailing unterminated line not delivered at completion'}
    if kind == 'lp' and obs['final']:
        return {'sig': 'lp:partial-delivered', 'what': shape + 'incomplete trailing frame delivered'}
    got = obs['at_sub'] + [e[1:] for e in obs['out']] + obs['final']
    if got != want or obs['end'] != 'completed':
        k = next((j for j, (a, b) in enumerate(zip(got, want)) if a != b), min(len(got), len(want)))
        g, w = (got[k] if k < len(got) else None), (want[k] if k < len(want) else None)
        how = ('same length, other content (pieces reordered or altered)' if g and w and g[0] == w[0] else
               'got (length, digest) %s want %s' % (g, w))
        return {'sig': kind + ':roundtrip', 'what': shape + 'unframe(rechunk(frame(items))) != items: %d items '
                'delivered, %d expected, first difference at item #%d: %s; end=%s' % (len(got), len(want), k, how, obs['end'])}
    return None


def generate(rng, tier):
    n = {'quick': 500, 'thorough': 12000, 'search': 400}[tier]
    cases = []
    for i in range(n):
        r = rng.random()
        cases.append(gen_malformed(rng) if r < 0.12 else gen_line(rng, tier != 'quick') if r < 0.56
                     else gen_lp(rng, tier != 'quick'))
    cases += [gen_resub(rng) for _ in range({'quick': 400, 'thorough': 8000, 'search': 150}[tier])]
    if tier != 'search':
        cases += exhaustive_cuts(rng, 2)
        cases += exhaustive_resub()
    if tier == 'thorough':
        cases += exhaustive_cuts(rng, 3)
    # last, so that the cases above are what they were before this family existed
    cases += [gen_lp_upper(rng) for _ in range({'quick': 40, 'thorough': 600, 'search': 10}[tier])]
    cases += gen_scale_family(rng, tier)
    return cases


def ops_of(case):
    """(make_unframe, make_frame, to_input, from_output) of a case"""
    from rxsci.framing import line, length_prefix
    if case.get('framing', case['kind']) == 'line':
        return line.unframe, line.frame, (lambda x: x), (lambda x: x)
    p, order = case['p'], case['order']
    return ((lambda: length_prefix.unframe(p, order)), (lambda: length_prefix.frame(p, order)),
            (lambda x: bytes(x)), (lambda b: list(b) if isinstance(b, (bytes, bytearray)) else repr(b)))


def run_resub(case):
    """ONE operator / ONE piped observable, subscribed once per entry of case['subs']; every subscription has its
    own observer, its own inputs and (sources defer / cold) its own source lifetime"""
    import rx
    from rx.subject import Subject
    mk_un, mk_fr, conv, back = ops_of(case)
    side, source, subs = case['side'], case['source'], case['subs']
    st = [{'inputs': [conv(x) for x in (s['chunks'] if side == 'u' else s['items'])], 'cur': [], 'at_sub': None,
           'steps': [], 'final': [], 'extra': [], 'end': 'none', 'alive': False, 'subject': None, 'disp': None}
          for s in subs]
    pending, crosstalk = [], 0

    def snap(e):
        x = e['cur'][:]
        del e['cur'][:]
        return x

    def observer_of(e):
        def on_error(err):
            if e['end'] == 'none':
                e['end'] = 'error:' + type(err).__name__

        def on_completed():
            if e['end'] == 'none':
                e['end'] = 'completed'
        return dict(on_next=lambda x: e['cur'].append(back(x)), on_error=on_error, on_completed=on_completed)

    def new_subject(*_):
        subj = Subject()
        st[pending[-1]]['subject'] = subj
        return subj

    def cold(observer, scheduler=None):
        i = pending[-1]
        e, s = st[i], subs[i]
        e['at_sub'] = snap(e)                    # whatever the operator emitted before its source produced anything
        n = len(e['inputs']) if s['fate'] == 'full' else min(len(e['inputs']), s['k'])
        for x in e['inputs'][:n]:
            observer.on_next(x)
            e['steps'].append(snap(e))
        if s['fate'] == 'error':
            observer.on_error(RuntimeError('source failed'))
        elif s['fate'] == 'full':
            observer.on_completed()
        e['final'] = snap(e)

    hot = Subject() if source == 'hot' else None

    def source_of():
        return rx.defer(new_subject) if source == 'defer' else hot if source == 'hot' else rx.create(cold)

    op = mk_un() if side == 'u' else mk_fr()                                     # the operator: built ONCE
    piped = source_of().pipe(op) if case['share'] == 'observable' else None      # the piped observable: built ONCE
    for act in resub_schedule(case):
        what, i = act[0], act[1]
        e = st[i]
        audience = [e]
        if what == 'sub':
            pending.append(i)
            o = piped if piped is not None else op(new_subject() if source == 'defer' else source_of())
            e['alive'] = True
            e['disp'] = o.subscribe(**observer_of(e))
            if e['at_sub'] is None:
                e['at_sub'] = snap(e)
            else:
                e['extra'] += snap(e)
        elif what == 'dispose':
            e['disp'].dispose()
            e['alive'] = False
            e['extra'] += snap(e)
        else:
            subj = hot if hot is not None else e['subject']
            if hot is not None:
                audience = [x for x in st if x['alive']]
            if what == 'push':
                subj.on_next(e['inputs'][act[2]])
                for x in audience:
                    x['steps'].append(snap(x))
            else:
                if what == 'complete':
                    subj.on_completed()
                else:
                    subj.on_error(RuntimeError('source failed'))
                for x in audience:
                    x['final'] = snap(x)
                    x['alive'] = False
        for x in st:                         # events at a subscription that was not driven by this action
            if x['cur'] and not any(x is y for y in audience):
                crosstalk += 1
                x['extra'] += snap(x)
    res = []
    for s, e in zip(subs, st):
        shared = {'at_sub': e['at_sub'] or [], 'steps': e['steps'], 'final': e['final'], 'extra': e['extra'], 'end': e['end']}
        # the other direction through a FRESH operator (plain, complete run), so that every subscription is a whole
        # round trip and the Coq model can be evaluated on it
        if side == 'u':
            f = run_timed(mk_fr(), [conv(x) for x in s['items']])
        else:
            f = run_timed(mk_un(), [conv(x) for x in s['chunks']])
        fresh = {'at_sub': [back(x) for x in f['sub']], 'steps': [[back(x) for x in q] for q in f['steps']],
                 'final': [back(x) for x in f['final']], 'extra': [], 'end': f['end']}
        res.append({'fate': s['fate'], 'shared': shared, 'fresh': fresh})
    return {'subs': res, 'crosstalk': crosstalk}


def run_impl(case):
    from rxsci.framing import line, length_prefix
    if case['kind'] == 'resub':
        return run_resub(case)
    if case['kind'] == 'scale':
        return run_scale(case)
    if case['kind'] == 'line':
        r = run_timed(line.unframe(), case['chunks'])
        fr = run_timed(line.frame(), case['items'] or [])
        return {'steps': r['steps'], 'final': r['final'], 'end': r['end'], 'framed': sum(fr['steps'], [])}
    p, order = case['p'], case['order']
    r = run_timed(length_prefix.unframe(p, order), [bytes(c) for c in case['chunks']])
    fr = run_timed(length_prefix.frame(p, order), [bytes(i) for i in case['items'] or []])
    return {'steps': [[list(b) for b in s] for s in r['steps']], 'final': [list(b) for b in r['final']],
            'end': r['end'], 'framed': [list(b) for b in sum(fr['steps'], [])]}


def oracle_stream(kind, case, obs):
    """C15 itself, no model: unframing any re-chunking of the framed items gives back the items.
    `case` has items / tail | partial / chunks, `obs` has steps / final / end / framed."""
    got = sum(obs['steps'], []) + obs['final']
    if kind == 'line':
        want = list(case['items']) + ([case['tail']] if case['tail'] else [])
        if ''.join(obs['framed']) + case['tail'] != ''.join(case['chunks']):
            return {'sig': 'line:frame', 'what': 'frame() output is not item+newline'}
        # a trailing unterminated line is delivered at completion, not before
        if case['tail'] and (not obs['final'] or obs['final'][-1] != case['tail']):
            return {'sig': 'line:tail', 'what': 'trailing unterminated line not delivered at completion'}
    else:
        want = case['items']
        if obs['final']:
            return {'sig': 'lp:partial-delivered', 'what': 'incomplete trailing frame delivered'}
        if sum(obs['framed'], []) + case['partial'] != sum(case['chunks'], []):
            return {'sig': 'lp:frame', 'what': 'frame() output is not prefix+payload'}
    if got != want or obs['end'] != 'completed':
        return {'sig': kind + ':roundtrip', 'what': 'unframe(rechunk(frame(items))) != items: got %r want %r end=%s'
                % (got[:6], want[:6], obs['end'])}
    return None


def flat(o):
    """everything a subscription received, in order"""
    return o['at_sub'] + sum(o['steps'], []) + o['final'] + o['extra']


def is_prefix(a, b):
    return len(a) <= len(b) and list(b[:len(a)]) == list(a)


def oracle_resub(case, obs):
    """every subscription of the one operator / piped observable is a stream in its own right: driven to completion
    it delivers exactly ITS items (as a fresh operator would), cut short it delivers a prefix of ITS items; never
    anything of another subscription"""
    kind, side = case['framing'], case['side']
    if 'raised' in obs:
        return {'sig': kind + ':resub:raised', 'what': 'framing raised %s to the caller: %s' % (obs['raised'], obs.get('msg'))}
    fates = [s['fate'] + ('' if s['fate'] == 'full' else '@%d' % s['k']) for s in case['subs']]
    for j, (s, o) in enumerate(zip(case['subs'], obs['subs'])):
        where = '%s.%s, one %s over a %s source subscribed %d times (%s; fates %s), subscription #%d: ' % (
            'line' if kind == 'line' else 'length_prefix(%d,%s)' % (case['p'], case['order']),
            'unframe' if side == 'u' else 'frame', case['share'], case['source'], len(fates),
            {'seq': 'one after the other', 'alt': 'alive at once, alternating',
             'inter': 'alive at once, interleaved'}[case['sched']], fates, j + 1)
        un, fr = (o['shared'], o['fresh']) if side == 'u' else (o['fresh'], o['shared'])
        rest = s['tail'] if kind == 'line' else s['partial']
        whole = ''.join(s['chunks']) if kind == 'line' else sum(s['chunks'], [])
        framed_all = flat(fr)
        framed = ''.join(framed_all) if kind == 'line' else sum(framed_all, [])
        if s['fate'] == 'full' or side == 'u':
            # both directions ran to completion (the cut-short one, if any, is the unframe side): the plain oracle
            # on the unframe output when it is complete, else the prefix rule below
            if s['fate'] == 'full':
                if un['at_sub'] or un['extra']:
                    return {'sig': kind + ':resub:roundtrip', 'what': where + 'items delivered outside its own lifetime: %r'
                            % (un['at_sub'] + un['extra'])[:6]}
                f = oracle_stream(kind, s, {'steps': un['steps'], 'final': un['final'], 'end': un['end'],
                                            'framed': framed_all})
                if f:
                    return {'sig': f['sig'].replace(':', ':resub:', 1), 'what': where + f['what']}
                continue
            if framed + rest != whole:
                return {'sig': kind + ':resub:frame', 'what': where + 'a fresh frame() did not give item framing'}
            if not is_prefix(flat(un), s['items']):
                return {'sig': kind + ':resub:foreign-data', 'what': where + 'received %r, not a prefix of its items %r'
                        % (flat(un)[:6], s['items'][:6])}
        else:
            # frame side cut short: what it emitted is the beginning of the framing of its items; the fresh unframe
            # of its chunks is a plain complete run
            if not is_prefix(framed, whole[:len(whole) - len(rest)]):
                return {'sig': kind + ':resub:frame', 'what': where + 'frame() output is not a prefix of the framing of its items'}
            if flat(un) != list(s['items']) + ([rest] if kind == 'line' and rest else []) or un['end'] != 'completed':
                return {'sig': kind + ':resub:roundtrip', 'what': where + 'a fresh unframe of its chunks != its items'}
    if obs['crosstalk']:
        return {'sig': kind + ':resub:crosstalk', 'what': 'a subscription received items while another one was driven (%d times)'
                % obs['crosstalk']}
    return None


def oracle(case, obs):
    if case['kind'] == 'resub':
        return oracle_resub(case, obs)
    if case['items'] is None:
        return None
    if 'raised' in obs:
        return {'sig': 'framing:raised', 'what': 'framing raised %s' % obs['raised']}
    if case['kind'] == 'scale':
        return oracle_scale(case, obs)
    return oracle_stream(case['kind'], case, obs)


def ended_inside_a_frame(case, s):
    """did a subscription that was cut short (unframe side) stop with a fragment of a frame in the buffer?"""
    if s['fate'] == 'full' or case['side'] != 'u':
        return False
    k = min(s['k'], len(s['chunks']))
    if case['framing'] == 'line':
        return not ''.join(s['chunks'][:k]).endswith('\n') and k > 0 and ''.join(s['chunks'][:k]) != ''
    n, ends, pos = len(sum(s['chunks'][:k], [])), {0}, 0
    for i in s['items']:
        pos += case['p'] + len(i)
        ends.add(pos)
    return n not in ends


def scale_biggest(case):
    """length of the longest line / frame (complete or not) of a scale case"""
    rest = case['rest'] if case['framing'] == 'line' else (case['rest'][0] if case['rest'] else 0)
    return max(case['items'] + [rest])


def nontrivial(case, obs):
    if case['kind'] == 'resub':
        # a later subscription that is a real stream (>= 1 item, >= 2 chunks) and runs to completion
        return any(s['fate'] == 'full' and len(s['items']) >= 1 and len(s['chunks']) >= 2 for s in case['subs'][1:])
    if case['kind'] == 'scale':
        # a line / frame of at least 32 KiB in at least 3 chunks
        return len(case['sizes']) >= 3 and scale_biggest(case) >= 32768
    return case['items'] is not None and len(case['items']) >= 2 and len(case['chunks']) >= 2


def describe(cases, obs):
    d = {'line': 0, 'lp': 0, 'malformed': 0, 'empty_chunks': 0, 'max_chunks': 0, 'prefix_sizes': {}, 'with_tail_or_partial': 0,
         'resub': 0, 'resub_subscriptions': 0, 'resub_framing_x_side': {}, 'resub_sharing_x_source_x_order': {},
         'resub_fate_of_earlier_subscriptions': {}, 'resub_earlier_subscription_ended_inside_a_frame': 0,
         'resub_two_or_more_alive_at_once': 0,
         'scale': 0, 'scale_framing_x_where_x_chunking': {}, 'scale_longest_item': 0, 'scale_shortest_big_item': 0,
         'scale_max_chunks': 0, 'scale_big_item_is_trailing': 0, 'scale_prefix_sizes': {},
         'lp_prefix1_payload_128_255': 0}

    def inc(key, k):
        d[key][k] = d[key].get(k, 0) + 1
    for c in cases:
        if c['kind'] == 'scale':
            d['scale'] += 1
            inc('scale_framing_x_where_x_chunking', '%s/%s/%s' % (c['framing'], c['where'], c['mode']))
            b = scale_biggest(c)
            d['scale_longest_item'] = max(d['scale_longest_item'], b)
            d['scale_shortest_big_item'] = min(d['scale_shortest_big_item'] or b, b)
            d['scale_max_chunks'] = max(d['scale_max_chunks'], len(c['sizes']))
            d['scale_big_item_is_trailing'] += c['where'] == 'trailing'
            d['empty_chunks'] += sum(1 for n in c['sizes'] if n == 0)
            if c['framing'] == 'lp':
                inc('scale_prefix_sizes', str(c['p']))
            continue
        if c['kind'] == 'resub':
            d['resub'] += 1
            d['resub_subscriptions'] += len(c['subs'])
            inc('resub_framing_x_side', '%s.%s' % (c['framing'], 'unframe' if c['side'] == 'u' else 'frame'))
            inc('resub_sharing_x_source_x_order', '%s/%s/%s' % (c['share'], c['source'], c['sched']))
            for s in c['subs'][:-1]:
                inc('resub_fate_of_earlier_subscriptions', s['fate'])
            d['resub_earlier_subscription_ended_inside_a_frame'] += any(ended_inside_a_frame(c, s) for s in c['subs'][:-1])
            d['resub_two_or_more_alive_at_once'] += c['sched'] != 'seq' and c['source'] != 'cold'
            if c['framing'] == 'lp':
                d['prefix_sizes'][str(c['p'])] = d['prefix_sizes'].get(str(c['p']), 0) + 1
            for s in c['subs']:
                d['empty_chunks'] += sum(1 for ch in s['chunks'] if len(ch) == 0)
                d['max_chunks'] = max(d['max_chunks'], len(s['chunks']))
            continue
        if c['items'] is None:
            d['malformed'] += 1
        d[c['kind']] += 1
        d['empty_chunks'] += sum(1 for ch in c['chunks'] if len(ch) == 0)
        d['max_chunks'] = max(d['max_chunks'], len(c['chunks']))
        if c['kind'] == 'lp':
            d['prefix_sizes'][str(c['p'])] = d['prefix_sizes'].get(str(c['p']), 0) + 1
            d['lp_prefix1_payload_128_255'] += c['p'] == 1 and any(len(i) >= 128 for i in c['items'] or [])
        if c.get('tail') or c.get('partial'):
            d['with_tail_or_partial'] += 1
    return d


def coq_preamble():
    return ('From Coq Require Import List ZArith NArith Bool.\nImport ListNotations.\n'
            'From RxVerif Require Import Base.Corr Framing.Line Framing.LengthPrefix Framing.C15Corr.\n')


CTYPE = 'c15case'
CHECKER = 'c15_check'


def zs(s):
    return c_zlist([ord(c) for c in s])


def c_line(items, framed, chunks, out, completed):
    return 'CLine %s %s %s %s %s' % (
        c_list([zs(i) for i in items]), c_list([zs(i) for i in framed]), c_list([zs(c) for c in chunks]),
        c_list([c_list([zs(l) for l in st]) for st in out]), c_bool(completed))


def c_lp(p, order, items, framed, chunks, out, completed):
    return 'CLp %s %s %s %s %s %s %s' % (
        c_nat(p), c_bool(order == 'big'), c_list([c_nlist(i) for i in items]), c_list([c_nlist(i) for i in framed]),
        c_list([c_nlist(c) for c in chunks]), c_list([c_list([c_nlist(l) for l in st]) for st in out]),
        c_bool(completed))


def the_sub(case):
    """which subscription of a resub case goes through the Coq model: one that is driven to completion (the last
    one always is), chosen by the case alone"""
    full = [j for j, s in enumerate(case['subs']) if s['fate'] == 'full']
    return full[case['iseed'] % len(full)]


def coq_term(case, obs):
    if 'raised' in obs:
        return 'CRaised'
    if case['kind'] == 'scale':
        return 'CSkip'                        # too large for the Coq VM: the model-free oracle alone judges it
    if case['kind'] == 'resub':
        # a completed subscription is a plain stream: its chunks, what it received per chunk and at completion
        j = the_sub(case)
        s, o = case['subs'][j], obs['subs'][j]
        un, fr = (o['shared'], o['fresh']) if case['side'] == 'u' else (o['fresh'], o['shared'])
        if un['at_sub'] or un['extra'] or fr['at_sub'] or fr['extra'] or fr['final']:
            return 'CRaised'                  # the model emits nothing outside the pushes / the completion
        try:
            framed, out, done = sum(fr['steps'], []), un['steps'] + [un['final']], un['end'] == 'completed'
            if case['framing'] == 'line':
                return c_line(s['items'], framed, s['chunks'], out, done)
            return c_lp(case['p'], case['order'], s['items'], framed, s['chunks'], out, done)
        except Exception:                     # something that is not text / bytes was delivered
            return 'CRaised'
    if case['kind'] == 'line':
        return c_line(case['items'] or [], obs['framed'], case['chunks'], obs['steps'] + [obs['final']],
                      obs['end'] == 'completed')
    return c_lp(case['p'], case['order'], case['items'] or [], obs['framed'], case['chunks'],
                obs['steps'] + [obs['final']], obs['end'] == 'completed')


def coq_model_expr(case):
    kind = case['kind']
    if kind == 'scale':
        return '(* scale case, %d elements: not evaluated in Coq *) tt' % sum(case['sizes'])
    if kind == 'resub':
        kind, chunks = case['framing'], case['subs'][the_sub(case)]['chunks']
    else:
        chunks = case['chunks']
    if kind == 'line':
        return 'z_unframe %s' % c_list([zs(c) for c in chunks])
    return 'n_unframe %s %s %s' % (c_nat(case['p']), c_bool(case['order'] == 'big'),
                                   c_list([c_nlist(c) for c in chunks]))


def neighbours(case, rng):
    """search stage: around a disagreeing re-subscription case, more of the same framing and sharing"""
    out = []
    if case['kind'] == 'resub':
        for _ in range(200):
            c = gen_resub(rng)
            if c['framing'] == case['framing'] and c['share'] == case['share']:
                out.append(c)
    return out


CLAIM = {
    'text': 'Theorems (Coq, closed under the global context) for every item list, every re-chunking incl. empty '
            'chunks and cuts inside a prefix/payload, every prefix size >= 1 and both byte orders: line and '
            'length-prefix unframe(rechunk(frame(items))) = items; trailing unterminated line delivered at '
            'completion; strict prefix of a frame never delivered; per-chunk promptness. The model is tied to '
            'rxsci/framing/*.py by evaluating it in Coq on the chunk sequences the implementation was run on '
            '(per-chunk outputs compared), including all 2-cut (thorough: 3-cut) placements of short streams. '
            'The theorems speak about ONE subscription. That each subscription of one unframe()/frame() operator '
            'or one piped observable is such a stream of its own (no carry-over shared between subscriptions) is '
            'TESTED, not proved: re-subscription cases build the operator / piped observable once and subscribe it '
            '2-3 times (sequential, alternating, interleaved; earlier lifetimes completed, disposed or ended by a '
            'source error after k chunks, k also inside a frame; rx.defer, hot Subject and synchronous rx.create '
            'sources), with a model-free oracle per subscription (exactly its own items when driven to completion, '
            'a prefix of them when cut short, nothing of another subscription), an exhaustive small scope, and the '
            'Coq model evaluated on one completed subscription per case. A SCALE family is likewise TESTED with the '
            'model-free oracle only (not evaluated in Coq, where one 40000 byte frame takes 20 s): lines / frames of '
            '64 KiB up to several hundred KiB (prefix 2: 32768..65535 bytes) with position-dependent content, as a '
            'terminated line / complete frame or as the trailing unterminated line / incomplete trailing frame, '
            'prefix 2/4/8, delivered in separator-free chunks of unequal sizes (large-small-tiny, random, thousands of '
            'tiny chunks, growing, uniform with a short last chunk); delivered items are compared by length and '
            'SHA-1 digest with the items rebuilt from the case descriptor. Prefix 1 with payloads of 128..255 bytes '
            'is covered by plain cases with model comparison.',
    'note': 'Trusted: Coq kernel+VM; hand-written model of line.py/length_prefix.py (tied by correspondence only); '
            'Python str.split/join, int.to_bytes/from_bytes, io.BytesIO and RxPY synchronous delivery are '
            'modelled, not verified. Independence of the subscriptions of one operator is outside the Coq model '
            '(tested by the re-subscription family only). Scale cases (frames >= 32 KiB) are outside the '
            'correspondence stage (term CSkip): the model is compared with the code on short frames only.',
    'technique': 'Coq proof (induction over chunk list with carry-over invariant; generic incremental parser) + vm_compute correspondence '
                 '+ model-free re-subscription testing (exhaustive small scope and random) + model-free scale testing '
                 '(frames up to several hundred KiB in unequal chunks)',
}
