"""C20 - parquet dump/load round-trips rows for every row count and batch size
(rxsci/container/parquet.py over rxsci/data/batch.py).  PARTIAL: pyarrow is not modelled.

Cases: (row count k, dump batch size n, load batch size m, row_group_size, compression, schema kind, path or
file object / custom open_obj).  The REAL parquet.dump_to_file writes a file under /verif/work/C20/, the file is
inspected with pyarrow (row counts of the row groups = the record batches actually written; rows via read_table)
and read back with the REAL parquet.load_from_file.  Rows are identified by their index (every row carries its
index; a row read back counts as row i only if it is EQUAL to source row i in every column).  Cases with a 'pat'
field have REPEATED row content (constant, periodic, duplicated, plateau rows: several source rows are equal in
every column, so that a whole dump batch can be equal to the batch before it); there the row read back at
position j counts as row j only if it is equal to source row j in every column (positional identification).  The Coq model
recomputes the batch-size sequence, the row order in the file and the loaded rows.
Schemas: the three fixed kinds (flat / nested / wide) and GENERATED schemas ({'cols': [[name, type], ...]}) with
exactly ONE column (every primitive type, a single list column, a single nested struct column), two columns, and
many columns (up to 40); rows of generated schemas carry no id column and are identified by POSITION.
RE-SUBSCRIPTION (field 'runs' = [k1, k2, ...]): ONE dump pipeline object source.pipe(dump_to_file(...)) over a
deferred source and ONE load_from_file observable are built once and subscribed once per run (the runs write the
same path again, or - io open_obj - different files); run r delivers its own k_r rows (also 0 rows) and after
each run the file must hold exactly the rows of THAT run.  The Coq model recomputes one of the runs (field 'sel').
KEY ORDER (field 'ko'): the row dicts pushed into dump_to_file carry their keys in schema order ('schema'), in
reversed schema order ('reversed'), in one random permutation for the whole case (['perm', seed]) or in a fresh
random permutation for every ROW (['rowperm', seed]); the key order of a dict is not part of the value of a row
(equal dicts), so the file must hold the same rows BY FIELD NAME (file columns in schema order) whatever the order.
SCALE family (field 'scale'; same runner, same oracle): dump batch sizes around the 16 bit widths and multiples of 2^15
(32768, 32769, 65535, 65536, 98304, 100000, thorough also 131072..262144) with row counts that are exact multiples, one
less, one more (65536, 65537, 98304, 131072, ... rows); 20000..100000 rows read back with load batch sizes 1..7
(thousands of load batches) and with load batch sizes above 65535; thorough: thousands of dump batches; generated
schemas of 100..300 columns; string / binary values of 32 KiB .. 200 KiB (thorough 1 MiB) with 1, 2 and 4 byte code
points.  Rows of the big cases are cheap (schema 'lean': id, a short string, id mod 65536; a function of the row index
alone).  The list model in Coq is quadratic in the batch size, so scale cases with model_cost > MODEL_MAX_COST are
judged by the oracle alone (term CSkip); the others are compared with the model like every other case.
Plus: rs.data.batch(n) alone, per-step emissions (kind 'batch')."""
import json
import math
import os
import random

from harness import core
from harness.core import c_list, c_nlist, c_N, c_bool, c_opt

PID = 'C20'
RULE = ('cases: row count k x dump batch size n x load batch size m x row_group_size x compression '
        '(none/snappy/gzip/zstd) x schema kind (flat ints/strings/floats; nested struct + list columns with nulls; '
        'wide with non-alphabetical column order; GENERATED schemas with exactly 1 column (each of int64/int32/'
        'uint8/uint16/float64/string/bool/binary/list<int64>/list<string>/struct/struct-with-list/list<struct>, '
        'exhaustively x k in {0,1,2,n,2n+1}), 2 columns, 3..40 columns of random types, names and order, values '
        'incl. nulls; such rows are identified by POSITION) x path | file object | custom open_obj; exhaustive k 0..12 x n 1..6 x '
        'm in {1,2,5}; every k in 0..300 (quick) at least once; exact multiples k = j*n forced for every n of '
        '{1,2,3,7,100,1000,1024,2000}; thorough: k sampled up to 5000. Row CONTENT: all rows distinct (default) and, '
        'field pat, REPEATED content spanning >= 2 full dump batches (several source rows equal in every column, so '
        'that a whole batch can be equal by value to the batch before it): constant rows, periodic rows with period '
        '1..4 and period = n / a divisor / a multiple of n, every row duplicated b times, random duplication of '
        'the previous row, a constant plateau inside distinct rows; exhaustive k in {4,6,12,13} x n 1..6 x pattern '
        'plus random k <= 300 (thorough: 2000); such rows are identified by POSITION (row j of the file must equal '
        'source row j in every column). RE-SUBSCRIPTION (field runs): one source.pipe(dump_to_file(...)) object over '
        'a deferred source and one load_from_file observable are built ONCE and subscribed 2-3 times, run r with its '
        'own k_r rows (k_r = 0, < n, = n, multiples of n, > n; empty first / empty later run), to the same path '
        '(rewritten) or to different files (open_obj); after EACH run the file must hold exactly the rows of that '
        'run (positional identification); exhaustive k1,k2 in {0,1,n-1,n,n+1,2n,2n+1} x n in {1,2,3,4}. '
        'KEY ORDER of the source row dicts (field ko, every row family above incl. generated schemas with several '
        'columns of one type, where exchanged columns raise nothing): schema order | reversed | one random '
        'permutation per case | a fresh random permutation per ROW (from the seed in the case); a row is equal to '
        'the source row only if every FIELD NAME carries the source value of that name and the columns of the file '
        'are in schema order; exhaustive key order x fixed schema x (k,n) in {(1,1),(2,1),(5,2)}; 2-3 columns of ONE type x every column type x every non-schema key order. '
        'SCALE family (field scale, same runner and oracle, every choice from a PRNG derived from the case PRNG): '
        'big-batch = dump batch_size in {32768, 32769, 65535, 65536, 98304, 100000} (thorough: every one of them x row '
        'count in {n-1, n, n+1, one of 2n-1/2n/2n+1, one of 65536/65537/98304/131072}, 3n rows, and a batch size of 131072..262144; '
        'quick: 4 cases, one of them always full batches of 65536 rows only) x load batch size in {1024 .. 131072 incl. '
        '65535/65536/65537/100000} x row_group_size none/1000/32768/65536/100000; many-load-batches = 20000..40000 '
        '(thorough ..100000) rows read back with load batch size 1..7 (2800..100000 load batches); many-dump-batches '
        '(thorough) = 40000..100000 rows in dump batches of 8..32; wide-schema = generated schemas of 100/128/200/255/256/'
        '257/300 columns; long-values = string and binary values of 0 .. 200000 characters (32767/32768/65535/65536/65537/'
        '102400/131072; thorough also 2^20) built from 1, 2 and 4 byte code points. Rows of the first three are cheap '
        '(id, short string, id mod 65536). Scale cases whose model evaluation would cost more than MODEL_MAX_COST list '
        'steps (quadratic in the batch size) are judged by the oracle alone (CSkip). '
        'non-trivial = k > n (at least two batches written); distinct = distinct '
        'case JSON')
TRUSTED = ['NOT modelled: pyarrow (RecordBatch.from_arrays, ParquetWriter, compression codecs, ParquetFile.iter_batches, '
           'schemas/encodings). In the Coq model a record batch IS the list of its rows, the file IS the list of record '
           'batches written, reading returns them in order; this is tied to pyarrow by the correspondence test only',
           'modelled not verified: rs.ops.scan/filter/map plumbing of rs.data.batch (the batch model is compared with '
           'rs.data.batch directly in the `batch` cases), RxPY synchronous delivery, Python list/dict semantics']
ASSUMPTIONS = ['batch.py and parquet.py modelled as repaired (DESIGN-repairs.md hunks e, k)',
               'rows are dicts matching the schema (keys in ANY order); batch sizes >= 1']
SHARD = 150
COQ_TARGETS = ['theories/Container/C20Corr.vo']

WORKDIR = os.path.join(core.WORK, PID)
NS = [1, 2, 3, 7, 100, 1000, 1024, 2000]
COMP = ['none', 'snappy', 'gzip', 'zstd']
SENTINEL = 10 ** 9


# ---------------------------------------------------------------------------------------------
PRIMS = ['i64', 'i32', 'u8', 'u16', 'f64', 'str', 'bool', 'bin']
STRUCT_A = ['struct', [['a', 'i32'], ['b', 'str']]]
STRUCT_B = ['struct', [['sa', 'str'], ['sb', ['list', 'u16']], ['sc', 'f64']]]
ONE_COLUMN_TYPES = PRIMS + [['list', 'i64'], ['list', 'str'], STRUCT_A, STRUCT_B, ['list', STRUCT_A]]
NAMES = ['a', 'b', 'c', 'x', 'y', 'z', 'id', 'name', 'value', 'ts', 'k', 'v', 'col', 'n', 'm', 'data', 'Key', 'f1', 'f2', '_t']


def pa_type(t):
    import pyarrow as pa
    if isinstance(t, str):
        return {'i64': pa.int64, 'i32': pa.int32, 'u8': pa.uint8, 'u16': pa.uint16, 'f64': pa.float64,
                'str': pa.string, 'bool': pa.bool_, 'bin': pa.binary}[t]()
    if t[0] == 'list':
        return pa.list_(pa_type(t[1]))
    return pa.struct([(n, pa_type(x)) for n, x in t[1]])


def gen_value(t, rng, i, nulls=True):
    """a value of type t for row i (valid for the type; None now and then)"""
    if nulls and rng.random() < 0.08:
        return None
    if isinstance(t, str):
        if t == 'i64':
            return rng.choice([i, -i, i * 3, rng.randrange(-2 ** 63, 2 ** 63)])
        if t == 'i32':
            return rng.choice([i, -i, rng.randrange(-2 ** 31, 2 ** 31)])
        if t == 'u8':
            return rng.choice([i % 256, rng.randrange(256)])
        if t == 'u16':
            return rng.choice([i % 65536, rng.randrange(65536)])
        if t == 'f64':
            return rng.choice([0.0, -0.0, 1.5, 1e300, -1e-300, float(i) / 3, i + 0.5, float('inf'), rng.random()])
        if t == 'str':
            return rng.choice([rng.choice(STRS), '%02d' % (i % 100), 's%d' % i, rng.choice(STRS) + str(i)])
        if t == 'bool':
            return rng.random() < 0.5
        return rng.choice([b'', bytes([i % 256, 0, 255]), rng.randbytes(rng.randrange(6))])
    if t[0] == 'list':
        return [gen_value(t[1], rng, i, nulls) for _ in range(rng.choice([0, 0, 1, 2, 2, 5]))]
    return {n: gen_value(x, rng, i, nulls) for n, x in t[1]}


def gen_schema(rng, ncols=None):
    """{'cols': [[name, type], ...]}: 1 column (half of the time), 2 columns, or many; random names / order / types"""
    if ncols is None:
        ncols = rng.choice([1] * 6 + [2] * 3 + [3, 4, 5, 8, 12, 20, 40])
    names = rng.sample(NAMES, min(ncols, len(NAMES))) + ['c%d' % j for j in range(len(NAMES), ncols)]
    return {'cols': [[nm, rng.choice(PRIMS * 3 + ONE_COLUMN_TYPES)] for nm in names]}


def is_gen(schema):
    return isinstance(schema, dict)


def schema_label(schema):
    if not is_gen(schema):
        return schema
    n = len(schema['cols'])
    return 'generated:%s' % ('1-column' if n == 1 else '2-columns' if n == 2 else '3..8-columns' if n <= 8 else '>8-columns')


def schema_of(kind):
    import pyarrow as pa
    if is_gen(kind):
        return pa.schema([(n, pa_type(t)) for n, t in kind['cols']])
    if kind == 'flat':
        return pa.schema([('id', pa.int64()), ('s', pa.string()), ('f', pa.float64()), ('u', pa.uint8())])
    if kind == 'lean':          # scale family: cheap rows, tens of thousands of them
        return pa.schema([('id', pa.int64()), ('s', pa.string()), ('u', pa.uint16())])
    if kind in ('longstr', 'longstr-1m'):   # scale family: string / binary values of 32 KiB .. 200 KiB (1 MiB)
        return pa.schema([('id', pa.int64()), ('s', pa.string()), ('b', pa.binary())])
    if kind == 'nested':
        return pa.schema([('id', pa.int64()), ('s', pa.string()),
                          ('st', pa.struct([('a', pa.int32()), ('b', pa.string()), ('c', pa.list_(pa.uint16()))])),
                          ('li', pa.list_(pa.int64())), ('f', pa.float64())])
    # wide: column order is not alphabetical and types repeat, so that swapped columns are visible
    return pa.schema([('z', pa.int64()), ('id', pa.int64()), ('b', pa.string()), ('a', pa.string()),
                      ('flag', pa.bool_()), ('y', pa.int64()), ('raw', pa.binary()), ('x', pa.float64())])


STRS = ['', 'a', 'é', '\U0001f600', 'line\nbreak', 'quote"', 'x' * 40, '\x00']
LONG_LENS = [0, 1, 1000, 32767, 32768, 65535, 65536, 65537, 102400, 102400, 102401, 131072, 200000]


def make_rows(kind, k, seed):
    rng = random.Random(seed)
    rows = []
    if is_gen(kind):
        return [{n: gen_value(t, rng, i) for n, t in kind['cols']} for i in range(k)]
    if kind == 'lean':          # no PRNG: the content of row i is a function of i (all rows distinct through id)
        return [{'id': i, 's': 'r%d' % (i % 97), 'u': i % 65536} for i in range(k)]
    if kind in ('longstr', 'longstr-1m'):
        lens = LONG_LENS + ([2 ** 20, 2 ** 20 + 1] if kind == 'longstr-1m' else [])
        for i in range(k):
            unit = rng.choice(['%d,', '\xe9%d;', '\U0001f600%d ']) % i      # 1, 2 and 4 byte code points
            ls, lb = rng.choice(lens), rng.choice([0, 0, 3, 65535, 65536, 102400])
            rows.append({'id': i, 's': (unit * (ls // len(unit) + 1))[:ls], 'b': bytes([i % 256, 0, 255]) * (lb // 3)})
        return rows
    for i in range(k):
        f = rng.choice([0.0, -0.0, 1.5, 1e300, -1e-300, float(i) / 3, float('inf'), rng.random()])
        if kind == 'flat':
            rows.append({'id': i, 's': rng.choice(STRS) + str(i), 'f': f, 'u': i % 256})
        elif kind == 'nested':
            st = None if rng.random() < 0.15 else {'a': rng.randrange(-2 ** 31, 2 ** 31), 'b': rng.choice(STRS + [None]),
                                                   'c': [rng.randrange(65536) for _ in range(rng.choice([0, 1, 3]))]}
            li = None if rng.random() < 0.1 else [rng.randrange(-2 ** 63, 2 ** 63) for _ in range(rng.choice([0, 0, 1, 2, 5]))]
            rows.append({'id': i, 's': rng.choice(STRS + [None]), 'st': st, 'li': li, 'f': f})
        else:
            rows.append({'z': -i, 'id': i, 'b': 'b%d' % i, 'a': rng.choice(STRS), 'flag': bool(i % 2), 'y': i * 7,
                         'raw': bytes([i % 256, 0, 255]), 'x': f})
    return rows


def content_index(case):
    """pat cases: which base row every source row is a (fresh, equal) copy of"""
    k, pat = case['k'], case['pat']
    t = pat[0]
    if t == 'const':
        return [0] * k
    if t == 'period':                   # i mod p
        return [i % pat[1] for i in range(k)]
    if t == 'blocks':                   # every row b times in a row
        return [i // pat[1] for i in range(k)]
    if t == 'plateau':                  # distinct rows, a constant stretch [a, a+l), distinct rows
        a, l = pat[1], pat[2]
        return [i if i < a else (a if i < a + l else i - l + 1) for i in range(k)]
    if t == 'dups':                     # each row equals the previous one with probability 1/2
        rng, out, c = random.Random(pat[1]), [], 0
        for i in range(k):
            if i and rng.random() < 0.5:
                c += 1
            out.append(c)
        return out
    raise ValueError('unknown row pattern %r' % (pat,))


def source_rows(case):
    """the rows pushed into dump_to_file: distinct dict objects; with `pat` several of them are equal by value"""
    if not case.get('pat'):
        return make_rows(case['schema'], case['k'], case['seed'])
    import copy
    ci = content_index(case)
    base = make_rows(case['schema'], max(ci) + 1 if ci else 0, case['seed'])
    return [copy.deepcopy(base[c]) for c in ci]


def run_counts(case):
    return list(case['runs']) if case.get('runs') else [case['k']]


def run_rows(case, r):
    """rows of run r (re-subscription cases: every run has its own rows; run `sel` is the one the model recomputes)"""
    if not case.get('runs'):
        return source_rows(case)
    c = dict(case)
    c['k'], c['seed'] = case['runs'][r], case['seed'] + 7919 * r
    return source_rows(c)


def positional(case):
    return bool(case.get('pat')) or is_gen(case['schema']) or bool(case.get('runs'))


KEY_ORDERS = ['schema', 'reversed', 'perm', 'rowperm']


def gen_key_order(rng):
    t = rng.choice(KEY_ORDERS)
    return t if t in ('schema', 'reversed') else [t, rng.randrange(10 ** 6)]


def ko_label(case):
    ko = case.get('ko') or 'schema'
    return ko if isinstance(ko, str) else ko[0]


def column_names(schema):
    return [n for n, _ in schema['cols']] if is_gen(schema) else list(schema_of(schema).names)


def _shuffled(rng, names):
    """a random permutation of names, not the identity if there is another one"""
    p = list(names)
    for _ in range(8):
        rng.shuffle(p)
        if p != names:
            break
    return p


def key_orders(case, k, run=0):
    """the order of the keys of each of the k row dicts pushed into dump_to_file (a list of column names per row)"""
    names = column_names(case['schema'])
    ko = case.get('ko') or 'schema'
    if ko == 'schema':
        return [names] * k
    if ko == 'reversed':
        return [names[::-1]] * k
    rng = random.Random(ko[1] * 64 + run)
    if ko[0] == 'perm':             # one permutation for all the rows of the case (of the run)
        return [_shuffled(rng, names)] * k
    if ko[0] == 'rowperm':          # a fresh permutation for every row
        return [_shuffled(rng, names) for _ in range(k)]
    raise ValueError('unknown key order %r' % (ko,))


def pushed_rows(case, rows, run=0):
    """fresh dicts EQUAL to `rows` (same value under every field name) with their keys inserted in the order `ko`"""
    return [{n: r[n] for n in order} for r, order in zip(rows, key_orders(case, len(rows), run))]


def same_typed_columns(schema):
    """number of columns that share their type with another column (exchanging them raises nothing)"""
    ts = [json.dumps(t) for _, t in schema['cols']] if is_gen(schema) else [str(t) for t in schema_of(schema).types]
    return sum(1 for t in ts if ts.count(t) > 1)


def equal_consecutive_batches(case):
    """number of full dump batches whose rows are equal (by value) to the rows of the batch before"""
    if not case.get('pat'):
        return 0
    ci, n = content_index(case), case['n']
    b = [ci[i:i + n] for i in range(0, len(ci), n)]
    return sum(1 for x, y in zip(b, b[1:]) if x == y)


_ATOMS = {int: 'int', str: 'str', bytes: 'bytes', type(None): 'NoneType'}


def canon(v):
    """bit-exact, order-preserving canonical form of a row value"""
    a = _ATOMS.get(type(v))
    if a is not None:           # fast path (exact types only: a bool is not an int here), same value as the last line
        return (a, v)
    if type(v) is dict:         # key ORDER matters (column order); atoms inlined, this is the hot spot of the scale family
        return ('d', tuple([(k, (_ATOMS[type(x)], x) if type(x) in _ATOMS else canon(x)) for k, x in v.items()]))
    if isinstance(v, float):
        return ('f', v.hex())
    if isinstance(v, dict):
        return ('d', tuple((k, canon(x)) for k, x in v.items()))       # key ORDER matters (column order)
    if isinstance(v, (list, tuple)):
        return ('l', tuple(canon(x) for x in v))
    if isinstance(v, bool):
        return ('b', v)
    return (type(v).__name__, v)


def indices(got, src_canon, positional=False):
    """row read back -> index of the source row it is equal to (all columns), else SENTINEL.
    positional (repeated row content: the id column does not identify a row): the row at position j is row j
    iff it is equal to source row j in all columns."""
    out = []
    if positional:
        for j, r in enumerate(got):
            out.append(j if j < len(src_canon) and isinstance(r, dict) and canon(r) == src_canon[j] else SENTINEL)
        return out
    for r in got:
        i = r.get('id') if isinstance(r, dict) else None
        ok = isinstance(i, int) and 0 <= i < len(src_canon) and canon(r) == src_canon[i]
        out.append(i if ok else SENTINEL)
    return out


def runs(idx):
    """[0,1,2,5,6] -> [[0,3],[5,2]] (maximal runs of consecutive indices)"""
    out = []
    for i in idx:
        if out and i != SENTINEL and out[-1][0] + out[-1][1] == i:
            out[-1][1] += 1
        else:
            out.append([i, 1])
    return out


# ---------------------------------------------------------------------------------------------
def mk(rng, k, n, m=None, **kw):
    c = {'kind': 'pq', 'k': k, 'n': n, 'm': m if m is not None else rng.choice([1, 2, 3, 7, 100, 1000, 1024, 2000]),
         'rg': rng.choice([None, None, None, 1, 2, 5, 64, 1000, 5000]),
         'comp': rng.choice(COMP), 'schema': rng.choice(['flat', 'nested', 'wide']),
         'io': rng.choice(['path', 'path', 'fileobj', 'open_obj']), 'seed': rng.randrange(10 ** 6),
         'ko': gen_key_order(rng)}
    c.update(kw)
    # keep the number of record batches / row groups per file moderate (each costs ~1 ms in pyarrow)
    while c['k'] > 120 * c['n']:
        c['n'] = min(x for x in NS if x > c['n'])
    if c['rg'] and c['k'] > 150 * c['rg']:
        c['rg'] = -(-c['k'] // 150)
    return c


def patterns(rng, k, n):
    ps = [['const'], ['period', 2], ['period', 3], ['period', n], ['blocks', 2], ['dups', rng.randrange(10 ** 6)],
          ['plateau', rng.randrange(0, max(1, k // 3)), rng.randrange(2 * n, max(2 * n, k) + 1)]]
    if n > 1:
        ps.append(['period', rng.choice([d for d in range(1, n + 1) if n % d == 0] + [2 * n, n + 1])])
    return ps


def repeated_content(rng, tier):
    out = []
    for k in (4, 6, 12, 13):
        for n in range(1, 7):
            for pat in patterns(rng, k, n):
                out.append(mk(rng, k, n, rng.choice([1, 2, 5, 1024]), pat=pat, rg=rng.choice([None, None, 2])))
    kmax = 300 if tier == 'quick' else 2000
    for _ in range(40 if tier == 'quick' else 600):
        n = rng.choice([1, 2, 3, 4, 5, 7, 16, 100])
        k = rng.choice([n * rng.randrange(2, 6), n * rng.randrange(2, 6) + rng.randrange(0, n), rng.randrange(2 * n, kmax + 1)])
        out.append(mk(rng, min(k, kmax), n, pat=rng.choice(patterns(rng, k, n))))
    return out


def mk_runs(rng, ks, n, **kw):
    """re-subscription case: run r delivers ks[r] rows through the ONE dump pipeline object"""
    sel = rng.randrange(len(ks))
    kw.setdefault('io', rng.choice(['path', 'path', 'open_obj']))
    if rng.random() < 0.3:
        kw.setdefault('schema', gen_schema(rng))
    c = mk(rng, max(ks), n, **kw)
    c.update({'k': ks[sel], 'runs': list(ks), 'sel': sel})
    return c


def resubscriptions(rng, tier):
    out = []
    if tier != 'search':
        for n in (1, 2, 3, 4):
            pts = sorted({0, 1, n - 1, n, n + 1, 2 * n, 2 * n + 1})
            for k1 in pts:
                for k2 in pts:
                    out.append(mk_runs(rng, [k1, k2], n, m=rng.choice([1, 2, 5, 1024]), rg=rng.choice([None, None, 2])))
    for _ in range({'quick': 80, 'thorough': 700, 'search': 40}[tier]):
        n = rng.choice([1, 2, 3, 5, 7, 16, 100, 1024])
        kmax = 300 if tier != 'thorough' else 1000
        ks = [min(kmax, rng.choice([0, rng.randrange(0, n + 1), n, n * rng.randrange(1, 4), n * rng.randrange(1, 4) + rng.randrange(0, n + 1),
                                    rng.randrange(0, 40), rng.randrange(0, kmax + 1)])) for _ in range(rng.choice([2, 2, 3]))]
        out.append(mk_runs(rng, ks, n))
    return out


def generated_schemas(rng, tier):
    out = []
    if tier != 'search':
        # exactly one column, every type
        for t in ONE_COLUMN_TYPES:
            for n in (1, 2, 3):
                for k in sorted({0, 1, 2, n, 2 * n + 1}):
                    out.append(mk(rng, k, n, rng.choice([1, 2, 5, 1024]), rg=rng.choice([None, None, 2]),
                                  schema={'cols': [[rng.choice(NAMES), t]]}))
        # two and three columns of ONE type (exchanged columns raise nothing), keys not in schema order
        for t in ONE_COLUMN_TYPES:
            for ko in KEY_ORDERS[1:]:
                n = rng.choice([1, 2, 3])
                out.append(mk(rng, rng.choice([1, 2, n, 2 * n + 1, 7]), n, rng.choice([1, 2, 5, 1024]),
                              schema={'cols': [[nm, t] for nm in rng.sample(NAMES, rng.choice([2, 3]))]},
                              ko=ko if ko == 'reversed' else [ko, rng.randrange(10 ** 6)]))
    for _ in range({'quick': 200, 'thorough': 1800, 'search': 60}[tier]):
        sch = gen_schema(rng)
        n = rng.choice([1, 2, 3, 4, 7, 16, 100, 1024])
        kmax = 300 if len(sch['cols']) <= 8 else 60
        k = min(kmax, rng.choice([rng.randrange(0, 30), n * rng.randrange(0, 4), n * rng.randrange(0, 4) + rng.randrange(0, n + 1),
                                  rng.randrange(0, kmax + 1)]))
        out.append(mk(rng, k, n, schema=sch))
    return out


# ---- SCALE family (field 'scale'): batches beyond 2^15 / 2^16 rows, thousands of load batches, wide schemas, long values
BIG_NS = [32768, 32769, 65535, 65536, 98304, 100000]        # dump batch sizes around the 16 bit widths and multiples of 2^15
BIG_KS = [65536, 65537, 98304, 131072]
BIG_MS = [1024, 2000, 4096, 32768, 65535, 65536, 65537, 100000, 131072]
WIDE_COLS = [100, 128, 200, 255, 256, 257, 300]
MODEL_MAX_COST = 6 * 10 ** 7     # the list model is quadratic in the batch size (b ++ [i]): about 1 s per 2.5 * 10^7


def model_cost(case):
    k, n, m, rg = case['k'], case['n'], case['m'], case['rg']
    return k * min(n, k) * 2 + k * min(m, k) + (k * min(rg, n, k) if rg else 0)


def in_model(case):
    """scale cases whose evaluation in Coq would take minutes are judged by the model-free oracle alone (CSkip)"""
    return not case.get('scale') or model_cost(case) <= MODEL_MAX_COST


def mk_scale(rng, what, k, n, m, **kw):
    c = {'kind': 'pq', 'scale': what, 'k': k, 'n': n, 'm': m,
         'rg': rng.choice([None, None, None, 1000, 32768, 65536, 100000]), 'comp': rng.choice(COMP), 'schema': 'lean',
         'io': rng.choice(['path', 'path', 'fileobj', 'open_obj']), 'seed': rng.randrange(10 ** 6),
         'ko': rng.choice(['schema', 'reversed', ['perm', rng.randrange(10 ** 6)]])}
    c.update(kw)
    return c


def around(rng, n, js=(1, 1, 2)):
    """a row count that is a multiple of n, one less or one more, or one of the listed counts"""
    j = rng.choice(js)
    return rng.choice([j * n - 1, j * n, j * n, j * n + 1, rng.choice(BIG_KS)])


def scale_big_batch(rng, n, k=None, ms=BIG_MS):
    return mk_scale(rng, 'big-batch', around(rng, n) if k is None else k, n, rng.choice(ms))


def scale_many_load_batches(rng, ks, ms=(1, 1, 2, 3, 5, 7)):
    k = rng.choice(ks) + rng.choice([-1, 0, 0, 1, rng.randrange(1000)])
    return mk_scale(rng, 'many-load-batches', k, rng.choice([1000, 1024, 2000, 4096, 32768]), rng.choice(ms),
                    rg=rng.choice([None, None, 1000, 5000]))


def scale_many_dump_batches(rng, ks):
    k = rng.choice(ks) + rng.choice([-1, 0, 1])
    return mk_scale(rng, 'many-dump-batches', k, rng.choice([8, 16, 25, 32]), rng.choice([1024, 65536, 7]), rg=None)


def scale_wide(rng, kmax):
    sch = gen_schema(rng, rng.choice(WIDE_COLS))
    n = rng.choice([1, 2, 7, 16, 100])
    k = rng.choice([rng.randrange(kmax // 2, kmax + 1), rng.randrange(2, kmax + 1), min(kmax, n * rng.randrange(1, 4)), min(kmax, 2 * n + 1)])
    return mk_scale(rng, 'wide-schema', k, n, rng.choice([1, 7, 100, 1024]), schema=sch, rg=rng.choice([None, None, 5, 64]),
                    ko=gen_key_order(rng))


def scale_long_values(rng, kmax, kind='longstr'):
    n = rng.choice([1, 2, 3, 7, 16, 100])
    k = rng.choice([rng.randrange(kmax // 2, kmax + 1), rng.randrange(2, kmax + 1), min(kmax, n * rng.randrange(1, 4)), min(kmax, 2 * n + 1)])
    return mk_scale(rng, 'long-values', k, n, rng.choice([1, 2, 7, 100, 1024]), schema=kind, rg=rng.choice([None, None, 1, 5, 64]),
                    ko=gen_key_order(rng))


def gen_scale(rng, tier):
    """the scale family (every choice from rng)"""
    if tier == 'quick':
        out = [scale_big_batch(rng, 65536, rng.choice([65536, 65536, 131072])),      # every row of the file in full batches of 2^16
               scale_big_batch(rng, rng.choice([32768, 32769]), ms=[65535, 65536, 65537, 100000]),      # load batches above 65535 rows
               scale_big_batch(rng, rng.choice([98304, 100000]), rng.choice([98303, 98304, 98305, 100000, 100001, 131072])),
               scale_big_batch(rng, 65535, rng.choice([65535, 65536, 65537])),
               scale_many_load_batches(rng, [20000], (1,)), scale_many_load_batches(rng, [30000, 32768, 40000], (2, 3, 5, 7)),
               scale_wide(rng, 120), scale_wide(rng, 60),
               scale_long_values(rng, 60), scale_long_values(rng, 40)]
        return out
    out = []
    for n in BIG_NS:                                # every listed batch size x multiple / one less / one more / listed counts
        for k in sorted({n - 1, n, n + 1, 2 * n + rng.choice([-1, 0, 0, 1]), rng.choice(BIG_KS)}):
            out.append(scale_big_batch(rng, n, k))
    out += [scale_big_batch(rng, n, 3 * n + d) for n, d in ((32768, 0), (65536, rng.choice([-1, 0, 0, 1])))]
    out += [scale_big_batch(rng, rng.choice([131072, 196608, 262144]), rng.choice([262144, 262145, 196608]))]
    out += [scale_many_load_batches(rng, [20000, 40000, 65536]) for _ in range(5)] + [scale_many_load_batches(rng, [100000])]
    out += [scale_many_dump_batches(rng, [40000, 65536, 100000]) for _ in range(2)]
    out += [scale_wide(rng, 300) for _ in range(10)]
    out += [scale_long_values(rng, 200) for _ in range(8)] + [scale_long_values(rng, 30, 'longstr-1m') for _ in range(3)]
    return out


def generate(rng, tier):
    cases = [
        {'kind': 'pq', 'k': 4, 'n': 2, 'm': 3, 'rg': None, 'comp': 'snappy', 'schema': 'flat', 'io': 'path', 'seed': 1},
        {'kind': 'pq', 'k': 5, 'n': 2, 'm': 1024, 'rg': None, 'comp': 'none', 'schema': 'nested', 'io': 'fileobj', 'seed': 2},
        {'kind': 'batch', 'k': 6, 'n': 3},
        {'kind': 'pq', 'k': 5, 'n': 2, 'm': 2, 'rg': None, 'comp': 'snappy', 'schema': 'wide', 'io': 'path', 'seed': 3,
         'ko': 'reversed'},
        {'kind': 'pq', 'k': 7, 'n': 3, 'm': 1024, 'rg': None, 'comp': 'none', 'schema': 'wide', 'io': 'path', 'seed': 4,
         'ko': ['rowperm', 5]},
    ]
    if tier == 'search':
        for _ in range(150):
            n = rng.choice([1, 2, 3, 4, 5, 7, 10])
            k = rng.choice([rng.randrange(0, 40), n * rng.randrange(0, 6)])
            cases.append(mk(rng, k, n, **({'pat': rng.choice(patterns(rng, k, n))} if rng.random() < 0.4 else {})))
        return cases + generated_schemas(rng, tier) + resubscriptions(rng, tier)
    # exhaustive small scope
    for k in range(0, 13):
        for n in range(1, 7):
            for m in (1, 2, 5):
                cases.append(mk(rng, k, n, m, rg=rng.choice([None, None, 2]), schema=rng.choice(['flat', 'nested', 'wide']),
                                io=rng.choice(['path', 'fileobj'])))
    # every row count once, with the listed batch sizes
    top = 300 if tier == 'quick' else 1200
    for k in range(0, top + 1):
        cases.append(mk(rng, k, rng.choice(NS[:5] if k <= 300 else NS)))
    # exact multiples and neighbours of multiples for every listed batch size
    for n in NS:
        mult = [1, 2, 3] if n >= 1000 and tier == 'quick' else [1, 2, 3, 5]
        for j in mult:
            for d in (-1, 0, 1):
                k = j * n + d
                if 0 <= k <= 5000:
                    cases.append(mk(rng, k, n))
    # every compression x schema x io at a multi-batch size
    for comp in COMP:
        for sch in ('flat', 'nested', 'wide'):
            for io in ('path', 'fileobj', 'open_obj'):
                cases.append(mk(rng, rng.choice([6, 9, 21, 100]), rng.choice([2, 3, 7]), comp=comp, schema=sch, io=io))
    n_rand = 150 if tier == "quick" else 1800
    for _ in range(n_rand):
        n = rng.choice(NS + [rng.randrange(1, 2001)])
        kmax = 400 if tier == 'quick' else 5000
        k = rng.choice([rng.randrange(0, kmax + 1), min(kmax, n * rng.randrange(0, 5)), rng.randrange(0, 30)])
        cases.append(mk(rng, k, n))
    # every key order of the row dicts x fixed schema, small sizes
    for ko in KEY_ORDERS:
        for sch in ('flat', 'nested', 'wide'):
            for k, n in ((1, 1), (2, 1), (5, 2)):
                cases.append(mk(rng, k, n, rng.choice([1, 2, 5, 1024]), schema=sch, rg=rng.choice([None, None, 2]),
                                ko=ko if ko in ('schema', 'reversed') else [ko, rng.randrange(10 ** 6)]))
    # repeated row content (several source rows equal in every column) over at least two full batches
    cases += repeated_content(rng, tier)
    # generated schemas: exactly one column (every type), two columns, many columns
    cases += generated_schemas(rng, tier)
    # one dump pipeline object / one load observable subscribed once per run
    cases += resubscriptions(rng, tier)
    # rs.data.batch alone
    for k in range(0, 14):
        for n in range(1, 6):
            cases.append({'kind': 'batch', 'k': k, 'n': n})
    for _ in range(40 if tier == 'quick' else 400):
        n = rng.choice([1, 2, 3, 7, 16, 100])
        cases.append({'kind': 'batch', 'k': rng.choice([n * rng.randrange(0, 4), rng.randrange(0, 250)]), 'n': n})
    # the column layer alone: create_record on row dicts, then load_from_file on a file holding that record batch
    cases += gen_cols(random.Random(rng.randrange(2 ** 62)), tier)
    # scale family (after everything else, from a stream of its own derived from rng)
    cases += gen_scale(random.Random(rng.randrange(2 ** 62)), tier)
    return cases


def mk_cols(rng, ncols, nrows, missing=False, extra=True, order=None):
    """a 'cols' case: schema names and dict keys are small integers (column 'c<i>'), values small integers; every
    row holds all schema names (in schema order, reversed or shuffled per row), some rows hold extra keys; with
    `missing` one row lacks one schema name (create_record must raise KeyError)"""
    names = rng.sample(range(0, 9), ncols)
    others = [x for x in range(0, 12) if x not in names]
    order = order or rng.choice(['schema', 'reversed', 'shuffled'])
    rows = []
    for i in range(nrows):
        ks = list(names)
        if order == 'reversed':
            ks.reverse()
        elif order == 'shuffled':
            rng.shuffle(ks)
        if extra and rng.random() < 0.4:
            for x in rng.sample(others, rng.randrange(1, 3)):
                ks.insert(rng.randrange(0, len(ks) + 1), x)
        rows.append([[k, rng.randrange(0, 60)] for k in ks])
    if missing and nrows:
        j = rng.randrange(nrows)
        drop = rng.choice(names)
        rows[j] = [kv for kv in rows[j] if kv[0] != drop]
    return {'kind': 'cols', 'names': names, 'rows': rows, 'm': rng.choice([1, 2, 3, 7, 1024]), 'order': order,
            'missing': bool(missing and nrows)}


def gen_cols(rng, tier):
    cases = [mk_cols(rng, 2, 3, order='schema', extra=False), mk_cols(rng, 2, 3, order='reversed'),
             mk_cols(rng, 3, 4, missing=True), mk_cols(rng, 1, 0), mk_cols(rng, 1, 5), mk_cols(rng, 4, 1)]
    for _ in range(60 if tier == 'quick' else 600):
        cases.append(mk_cols(rng, rng.randrange(1, 6), rng.randrange(0, 9), missing=rng.random() < 0.15))
    return cases


# ---------------------------------------------------------------------------------------------
def run_impl(case):
    import rx
    import rxsci as rs
    if case['kind'] == 'batch':
        from harness.rxutil import run_timed
        r = run_timed(rs.data.batch(case['n']), list(range(case['k'])))
        return {'steps': [[list(b) for b in st] for st in r['steps']], 'final': [list(b) for b in r['final']],
                'end': r['end']}
    import pyarrow.parquet as pq
    import rxsci.container.parquet as parquet
    if case['kind'] == 'cols':
        return run_cols(case, parquet, pq)
    os.makedirs(WORKDIR, exist_ok=True)
    ks = run_counts(case)
    multi = bool(case.get('runs'))
    base = os.path.join(WORKDIR, 'case_%d' % os.getpid())
    # io open_obj + several runs: every run is written to a file of its own; otherwise the same path is rewritten
    paths = [base + ('_%d.parquet' % r if r and case['io'] == 'open_obj' else '.parquet') for r in range(len(ks))]
    for q in set(paths):
        if os.path.exists(q):
            os.remove(q)
    schema = schema_of(case['schema'])
    rows_by_run = [run_rows(case, r) for r in range(len(ks))]
    pos = positional(case)
    opened, current = [], [0]

    def my_open(f, mode='rb', **kw):
        opened.append(mode)
        return open(paths[current[0]], mode)

    def source(_=None):
        # fresh dicts, equal to the source rows, keys inserted in the key order of the case
        return rx.from_(pushed_rows(case, rows_by_run[current[0]], current[0]))

    kw = {}
    target, fobj = paths[0], None
    if case['io'] == 'fileobj':
        target = fobj = open(paths[0], 'wb')
    elif case['io'] == 'open_obj':
        kw['open_obj'] = my_open
    # the dump pipeline object: built ONCE, subscribed once per run
    dumper = (rx.defer(source) if multi else source()).pipe(
        parquet.dump_to_file(target, schema, batch_size=case['n'], row_group_size=case['rg'],
                             compression=case['comp'], **kw))
    loader, per = None, []
    for r, k in enumerate(ks):
        current[0] = r
        path, end = paths[r], []
        src_canon = [canon(x) for x in rows_by_run[r]]
        try:
            at_end = []
            dumper.subscribe(on_next=lambda i: end.append('next'), on_error=lambda e: end.append('error:' + type(e).__name__),
                             on_completed=lambda: (end.append('completed'),
                                                   at_end.append(os.path.getsize(path) if os.path.exists(path) else -1)))
        finally:
            if fobj is not None:
                fobj.close()
        obs = {'dump_end': end, 'size': os.path.getsize(path) if os.path.exists(path) else None}
        # when completion is signalled the file the library opened itself must be complete (footer written, closed)
        obs['size_at_completion'] = at_end[0] if (at_end and case['io'] != 'fileobj') else None
        per.append(obs)
        pf = pq.ParquetFile(path)
        md = pf.metadata
        obs['rg_sizes'] = [md.row_group(i).num_rows for i in range(md.num_row_groups)]
        obs['codec'] = md.row_group(0).column(0).compression if md.num_row_groups else None
        obs['file_columns'] = pf.schema_arrow.names
        total = md.num_rows
        pf.close()
        # a file with far too many rows is already a violation: look at its first rows only (keeps a defective
        # tree from making the check slow)
        cap = 3 * k + 50
        if total > cap:
            first, pf2 = [], pq.ParquetFile(path)
            for b in pf2.iter_batches(batch_size=cap):
                first += b.to_pylist()
                if len(first) >= cap:
                    break
            pf2.close()
            file_idx = indices(first[:cap], src_canon, pos)
        else:
            in_file = pq.read_table(path).to_pylist()
            file_idx = indices(in_file, src_canon, pos)
            if SENTINEL in file_idx and ko_label(case) != 'schema':
                # diagnostic only: how many rows of the file hold, column by column, the values of the pushed dict
                # of the same position taken in KEY order (i-th key -> i-th column) although not equal to it by name
                names = column_names(case['schema'])
                bypos = [canon(dict(zip(names, d.values()))) for d in pushed_rows(case, rows_by_run[r], r)]
                obs['rows_filled_by_key_position'] = sum(
                    1 for j, x in enumerate(in_file)
                    if j < len(bypos) and file_idx[j] == SENTINEL and isinstance(x, dict) and canon(x) == bypos[j])
            if r and SENTINEL in file_idx:
                # diagnostic only: how many rows of the file are rows an EARLIER run delivered (and not this run's)
                mine = set(src_canon)
                earlier = {c for q in range(r) for c in map(canon, rows_by_run[q])} - mine
                obs['rows_of_earlier_runs'] = sum(1 for x in in_file if isinstance(x, dict) and canon(x) in earlier)
        obs['file_n'] = total
        obs['file_runs'] = runs(file_idx)
        got, lend = [], []
        if total > cap:
            obs.update({'load_end': ['not-run: file has %d rows for %d source rows' % (total, k)], 'load_n': 0,
                        'load_runs': [], 'open_obj_calls': list(opened)})
            break
        src, fobj2 = paths[0], None
        if case['io'] == 'fileobj':
            src = fobj2 = open(path, 'rb')
        try:
            if loader is None:      # the load observable: built ONCE, subscribed once per run
                loader = parquet.load_from_file(src, batch_size=case['m'], **kw)
            loader.subscribe(on_next=got.append, on_error=lambda e: lend.append('error:' + type(e).__name__),
                             on_completed=lambda: lend.append('completed'))
        finally:
            if fobj2 is not None:
                fobj2.close()
        load_idx = indices(got, src_canon, pos)
        obs['load_end'] = lend
        obs['load_n'] = len(load_idx)
        obs['load_runs'] = runs(load_idx)
        obs['open_obj_calls'] = list(opened)
    for q in set(paths):
        if os.path.exists(q):
            os.remove(q)
    if not multi:
        return per[0]
    out = dict(per[min(case.get('sel', 0), len(per) - 1)])      # the run the Coq model recomputes
    out['runs'] = per
    return out


def run_cols(case, parquet, pq):
    import io
    import pyarrow as pa
    names = ['c%d' % n for n in case['names']]
    schema = pa.schema([(n, pa.int64()) for n in names])
    data = [{'c%d' % k: v for k, v in row} for row in case['rows']]
    try:
        rb = parquet.create_record(schema)(data)
    except Exception as e:       # KeyError today; any exception is a refusal of the batch (None in the model)
        return {'cols': None, 'rows': [], 'load_end': [], 'create_record_raised': type(e).__name__}
    cols = [rb.column(i).to_pylist() for i in range(rb.num_columns)]
    buf = io.BytesIO()
    w = pq.ParquetWriter(buf, schema)
    w.write(rb)
    w.close()
    got, lend = [], []
    parquet.load_from_file(io.BytesIO(buf.getvalue()), batch_size=case['m']).subscribe(
        on_next=got.append, on_error=lambda e: lend.append('error:' + type(e).__name__),
        on_completed=lambda: lend.append('completed'))
    return {'cols': cols, 'column_names': list(rb.schema.names),
            'rows': [[[int(k[1:]), v] for k, v in d.items()] for d in got], 'load_end': lend}


def judge_cols(case, obs):
    """model-free: the columns are the values under each schema name, row by row; the loaded rows hold exactly the
    schema names in schema order with those values; KeyError exactly when a row lacks a schema name"""
    names = case['names']
    dicts = [dict((k, v) for k, v in row) for row in case['rows']]
    lacking = any(n not in d for d in dicts for n in names)
    if lacking:
        if obs['cols'] is not None:
            return {'sig': 'parquet:cols-no-error', 'what': 'a row lacks a schema column but create_record returned %r' % (obs['cols'],)}
        return None
    if obs['cols'] is None:
        return {'sig': 'parquet:cols-error', 'what': 'create_record raised ' + str(obs.get('create_record_raised')) + ' although every row has every schema column'}
    want_cols = [[d[n] for d in dicts] for n in names]
    if obs['cols'] != want_cols or obs.get('column_names') != ['c%d' % n for n in names]:
        return {'sig': 'parquet:cols-columns', 'what': 'record batch columns %r %r, expected %r' % (obs.get('column_names'), obs['cols'], want_cols)}
    want_rows = [[[n, d[n]] for n in names] for d in dicts]
    if obs['load_end'] != ['completed'] or obs['rows'] != want_rows:
        return {'sig': 'parquet:cols-rows', 'what': 'load gave %r %r, expected %r' % (obs['load_end'], obs['rows'][:6], want_rows[:6])}
    return None


def judge(case, k, obs, run=None):
    n = case['n']
    at = '' if run is None else '@resub'
    pre = '' if run is None else 'run %d of %s through ONE dump pipeline object (io %s): ' % (run + 1, case['runs'], case['io'])
    want = [[0, k]] if k else []
    kord = '' if ko_label(case) == 'schema' else ' [keys of the row dicts in order %s]' % (case['ko'],)
    if case.get('scale'):
        kord += ' [scale case %s: %d rows, dump batch_size %d, load batch_size %d, row_group_size %s, schema %s]' % (
            case['scale'], k, n, case['m'], case['rg'], schema_label(case['schema']))
    if obs.get('size_at_completion') is not None and obs['size_at_completion'] != obs.get('size'):
        return {'sig': 'parquet:completed-before-file-complete' + at, 'what': pre + 'dump_to_file signalled completion when the '
                'file held %s bytes; complete it holds %s' % (obs['size_at_completion'], obs.get('size'))}
    if obs['dump_end'] != ['completed']:
        return {'sig': 'parquet:dump-end' + at, 'what': pre + 'dump_to_file ended with %s (schema %s, %d rows)%s'
                % (obs['dump_end'], schema_label(case['schema']), k, kord)}
    if obs['file_runs'] != want:
        fr = obs['file_runs']
        flat = [i for s, l in fr[:50] for i in range(s, s + l)] if all(s != SENTINEL for s, l in fr[:50]) else []
        if k > 0 and k % n == 0 and fr == [[0, k], [k - n, n]]:
            sig, why = 'parquet:batch-duplicate-tail', 'the last batch is written twice'
        elif obs['file_n'] > k and flat[:n] == list(range(min(n, k))) and flat[n:2 * n] == list(range(min(n, k)))[:len(flat[n:2 * n])]:
            sig, why = 'parquet:buffers-not-cleared', 'the rows of the first batch appear again in the second record batch'
        elif obs['file_n'] < k and fr and fr[0][0] == 0 and all(s == SENTINEL for s, l in fr[1:]):
            sig, why = 'parquet:file-rows-missing', 'source rows are missing from the file (rows equal to earlier rows dropped?)'
        else:
            sig, why = 'parquet:file-rows-differ', 'file rows are not the source rows'
        if obs.get('rows_of_earlier_runs'):
            why += ' (%d rows of the file are rows an earlier run delivered)' % obs['rows_of_earlier_runs']
        if obs.get('rows_filled_by_key_position'):
            sig = 'parquet:columns-by-key-position'
            why += ' (%d rows of the file hold the i-th VALUE of the row dict in column i instead of the value of the ' \
                   'field of that name)' % obs['rows_filled_by_key_position']
        why += kord
        return {'sig': sig + at, 'what': '%s%s: %d source rows, batch_size %d -> %d rows in the file, runs (start,len) %s, '
                'row groups %s%s%s' % (pre, why, k, n, obs['file_n'], fr[:6], obs['rg_sizes'][:8],
                                       ' row pattern %s' % case['pat'] if case.get('pat') else '',
                                       ' schema %s' % case['schema']['cols'][:3] if is_gen(case['schema']) else '')}
    if obs['load_end'] != ['completed'] or obs['load_runs'] != want:
        return {'sig': 'parquet:load-differs' + at, 'what': pre + 'load_from_file(batch_size=%d): end %s, runs %s, want %s%s'
                % (case['m'], obs['load_end'], obs['load_runs'][:6], want, kord)}
    want_codec = {'none': 'UNCOMPRESSED', 'snappy': 'SNAPPY', 'gzip': 'GZIP', 'zstd': 'ZSTD'}[case['comp']]
    if k and obs['codec'] != want_codec:
        return {'sig': 'parquet:codec', 'what': 'file written with %s, asked %s' % (obs['codec'], want_codec)}
    return None


def oracle(case, obs):
    """C20 as written, no model: the file holds exactly the source rows once each in order; load returns them.
    Re-subscription cases: after EACH run the file holds exactly the rows of that run."""
    if case['kind'] == 'cols':
        if 'raised' in obs:
            return {'sig': 'parquet:cols-raised', 'what': 'raised %s: %s' % (obs['raised'], obs.get('msg'))}
        return judge_cols(case, obs)
    if case['kind'] != 'pq':
        return None
    if 'raised' in obs:
        return {'sig': 'parquet:raised', 'what': 'raised %s: %s' % (obs['raised'], obs.get('msg'))}
    if not case.get('runs'):
        return judge(case, case['k'], obs)
    for r, o in enumerate(obs['runs']):
        f = judge(case, case['runs'][r], o, r)
        if f:
            return f
    if len(obs['runs']) != len(case['runs']):
        return {'sig': 'parquet:runs-missing@resub', 'what': 'only %d of %d runs observed' % (len(obs['runs']), len(case['runs']))}
    return None


def nontrivial(case, obs):
    return case['kind'] == 'pq' and case['k'] > case['n']


def describe(cases, obs):
    d = {'pq': 0, 'batch': 0, 'cols': 0, 'cols_missing_field_cases': 0, 'cols_rows_with_extra_keys': 0,
         'cols_key_order': {}, 'cols_max_columns': 0, 'cols_max_rows': 0, 'cols_empty_batches': 0, 'max_rows': 0, 'exact_multiples': 0, 'empty': 0, 'fewer_than_batch': 0,
         'equal_to_batch': 0, 'comp': {}, 'schema': {}, 'io': {}, 'with_row_group_size': 0, 'dump_batch_sizes': {},
         'distinct_row_counts': 0, 'max_batches_written': 0, 'repeated_content': {},
         'cases_with_a_batch_equal_to_the_previous_batch': 0, 'equal_consecutive_batches': 0,
         'one_column_schema_types': {}, 'max_columns': 0, 'resubscription_cases': 0, 'resubscription_runs': 0,
         'resub_empty_later_run': 0, 'resub_empty_first_run': 0, 'resub_first_run_fills_a_batch': 0,
         'resub_to_different_files': 0, 'key_order': {}, 'key_order_by_schema': {},
         'rows_pushed_with_keys_not_in_schema_order': 0,
         'cases_keys_not_in_schema_order_and_several_columns_of_one_type': 0,
         'scale_cases': {}, 'scale_dump_batch_sizes': {}, 'scale_max_rows': 0, 'scale_max_rows_in_one_dump_batch': 0,
         'scale_full_dump_batches_of_a_multiple_of_32768_rows_above_32768': 0,
         'scale_rows_exact_multiple_of_batch_size': 0, 'scale_rows_multiple_plus_or_minus_one': 0,
         'scale_max_load_batches': 0, 'scale_max_dump_batches': 0, 'scale_max_load_batch_size': 0, 'scale_max_columns': 0,
         'scale_max_value_length': 0, 'scale_compared_with_model': 0, 'scale_oracle_only (CSkip)': 0}
    ks = set()
    for c, o in zip(cases, obs):
        d[c['kind']] += 1
        if c['kind'] == 'cols':
            d['cols_missing_field_cases'] += 1 if c['missing'] else 0
            d['cols_rows_with_extra_keys'] += sum(1 for r in c['rows'] if len(r) > len(c['names']))
            d['cols_key_order'][c['order']] = d['cols_key_order'].get(c['order'], 0) + 1
            d['cols_max_columns'] = max(d['cols_max_columns'], len(c['names']))
            d['cols_max_rows'] = max(d['cols_max_rows'], len(c['rows']))
            d['cols_empty_batches'] += 1 if not c['rows'] else 0
        if c['kind'] != 'pq':
            continue
        k, n = c['k'], c['n']
        ks.add(k)
        d['max_rows'] = max(d['max_rows'], k)
        d['exact_multiples'] += 1 if k > 0 and k % n == 0 else 0
        d['empty'] += 1 if k == 0 else 0
        d['fewer_than_batch'] += 1 if 0 < k < n else 0
        d['equal_to_batch'] += 1 if k == n else 0
        for key in ('comp', 'schema', 'io'):
            v = schema_label(c[key]) if key == 'schema' else c[key]
            d[key][v] = d[key].get(v, 0) + 1
        if is_gen(c['schema']):
            cols = c['schema']['cols']
            d['max_columns'] = max(d['max_columns'], len(cols))
            if len(cols) == 1:
                t = cols[0][1] if isinstance(cols[0][1], str) else json.dumps(cols[0][1], separators=(',', ':'))[:40]
                d['one_column_schema_types'][t] = d['one_column_schema_types'].get(t, 0) + 1
        if c.get('runs'):
            r = c['runs']
            d['resubscription_cases'] += 1
            d['resubscription_runs'] += len(r)
            d['resub_empty_later_run'] += 1 if r[0] > 0 and 0 in r[1:] else 0
            d['resub_empty_first_run'] += 1 if r[0] == 0 and any(r[1:]) else 0
            d['resub_first_run_fills_a_batch'] += 1 if r[0] >= n else 0
            d['resub_to_different_files'] += 1 if c['io'] == 'open_obj' else 0
        d['with_row_group_size'] += 1 if c['rg'] else 0
        kl = ko_label(c)
        d['key_order'][kl] = d['key_order'].get(kl, 0) + 1
        if kl != 'schema':
            lab = schema_label(c['schema'])
            d['key_order_by_schema'][lab] = d['key_order_by_schema'].get(lab, 0) + 1
            names, moved = column_names(c['schema']), 0
            for r, kr in enumerate(run_counts(c)):
                moved += sum(1 for o in key_orders(c, kr, r) if o != names)
            d['rows_pushed_with_keys_not_in_schema_order'] += moved
            d['cases_keys_not_in_schema_order_and_several_columns_of_one_type'] += \
                1 if moved and same_typed_columns(c['schema']) else 0
        if c.get('scale'):
            d['scale_cases'][c['scale']] = d['scale_cases'].get(c['scale'], 0) + 1
            d['scale_compared_with_model' if in_model(c) else 'scale_oracle_only (CSkip)'] += 1
            d['scale_max_rows'] = max(d['scale_max_rows'], k)
            d['scale_max_rows_in_one_dump_batch'] = max(d['scale_max_rows_in_one_dump_batch'], min(k, n))
            d['scale_max_dump_batches'] = max(d['scale_max_dump_batches'], math.ceil(k / n))
            d['scale_max_load_batches'] = max(d['scale_max_load_batches'], math.ceil(k / c['m']))
            d['scale_max_load_batch_size'] = max(d['scale_max_load_batch_size'], c['m'])
            if c['scale'] == 'big-batch':
                d['scale_dump_batch_sizes'][str(n)] = d['scale_dump_batch_sizes'].get(str(n), 0) + 1
                d['scale_full_dump_batches_of_a_multiple_of_32768_rows_above_32768'] += k // n if n % 32768 == 0 and n > 32768 else 0
                d['scale_rows_exact_multiple_of_batch_size'] += 1 if k % n == 0 else 0
                d['scale_rows_multiple_plus_or_minus_one'] += 1 if k % n in (1, n - 1) else 0
            if is_gen(c['schema']):
                d['scale_max_columns'] = max(d['scale_max_columns'], len(c['schema']['cols']))
            if c['scale'] == 'long-values' and k:
                d['scale_max_value_length'] = max([d['scale_max_value_length']] + [len(r['s']) for r in source_rows(c)])
        b = str(n) if n in NS else 'other'
        d['dump_batch_sizes'][b] = d['dump_batch_sizes'].get(b, 0) + 1
        d['max_batches_written'] = max(d['max_batches_written'], math.ceil(k / n))
        if c.get('pat'):
            d['repeated_content'][c['pat'][0]] = d['repeated_content'].get(c['pat'][0], 0) + 1
            e = equal_consecutive_batches(c)
            d['equal_consecutive_batches'] += e
            d['cases_with_a_batch_equal_to_the_previous_batch'] += e > 0
    d['distinct_row_counts'] = len(ks)
    return d


# ---------------------------------------------------------------------------------------------
def coq_preamble():
    return ('From Coq Require Import List ZArith NArith Bool.\nImport ListNotations.\n'
            'From RxVerif Require Import Base.Corr Container.Parquet Container.ParquetCols Container.C20Corr.\n')


CTYPE = 'c20case'
CHECKER = 'c20_check'


def c_pairs(kvs):
    return c_list(['(%s, %s)' % (c_N(k), c_N(v)) for k, v in kvs])


def c_runs(rs):
    return c_list(['(%s, %s)' % (c_N(s), c_N(l)) for s, l in rs])


def coq_term(case, obs):
    if 'raised' in obs:
        return 'CRaised'
    if not in_model(case):
        return 'CSkip'
    if case['kind'] == 'cols':
        def nat(v):
            return isinstance(v, int) and not isinstance(v, bool) and v >= 0
        if obs['cols'] is not None and not (all(nat(v) for c in obs['cols'] for v in c)
                                            and all(nat(k) and nat(v) for r in obs['rows'] for k, v in r)):
            return 'CRaised'        # something that is not a small integer came back: not expressible, never right
        return 'CCols %s %s %s %s' % (
            c_nlist(case['names']), c_list([c_pairs(r) for r in case['rows']]),
            c_opt(obs['cols'], lambda cs: c_list([c_nlist(c) for c in cs])), c_list([c_pairs(r) for r in obs['rows']]))
    if case['kind'] == 'batch':
        return 'CBatch %s %s %s' % (c_N(case['k']), c_N(case['n']),
                                    c_list([c_list([c_nlist(b) for b in st]) for st in obs['steps'] + [obs['final']]])
                                    if obs['end'] == 'completed' else '[]')
    return 'CPq %s %s %s %s %s %s %s %s' % (
        c_N(case['k']), c_N(case['n']), c_N(case['m']), c_opt(case['rg'], c_N), c_nlist(obs['rg_sizes']),
        c_runs(obs['file_runs']), c_runs(obs['load_runs']),
        c_bool(obs['dump_end'] == ['completed'] and obs['load_end'] == ['completed']))


def coq_model_expr(case):
    if case['kind'] == 'cols':
        return 'create_cols N N N.eqb %s %s' % (c_nlist(case['names']), c_list([c_pairs(r) for r in case['rows']]))
    if case['kind'] == 'batch':
        return 'batch_timed N %d (idx_rows %s)' % (case['n'], c_N(case['k']))
    k = min(case['k'], 60)      # printed for the reader of a replay file; the check itself uses the full k
    return 'dump N (N.to_nat %s) (idx_rows %s)' % (c_N(case['n']), c_N(k))


def neighbours(case, rng):
    out = [mk(rng, rng.randrange(0, 30), rng.choice([1, 2, 3, 5])) for _ in range(20)]
    for _ in range(10):
        n = rng.choice([1, 2, 3, 5])
        k = n * rng.randrange(2, 5)
        out.append(mk(rng, k, n, pat=rng.choice(patterns(rng, k, n))))
    out += [mk(rng, rng.randrange(0, 12), rng.choice([1, 2, 3]), schema=gen_schema(rng)) for _ in range(15)]
    out += [mk_runs(rng, [rng.randrange(0, 12), rng.randrange(0, 12)], rng.choice([1, 2, 3, 5])) for _ in range(15)]
    return out


CLAIM = {
    'text': 'PARTIAL. pyarrow is NOT modelled. Proved in Coq (closed under the global context), for ALL row lists, '
            'ALL dump batch sizes n >= 1 and ALL load batch sizes: the repaired rs.data.batch cuts the rows into '
            'chunks whose concatenation is the input, every chunk but the last has exactly n rows, a last shorter '
            'chunk is non-empty, no chunk for an empty input, and the sizes are (len/n) x n then len mod n if non-zero '
            '(so no duplicate final batch when n divides the row count); create_record with per-call column buffers '
            'returns exactly its batch; the file (= the record batches appended) holds the source rows once each in '
            'order; re-batching at load returns them. The shared-buffer closure of the unrepaired code is refuted in '
            'the model. A second layer models the COLUMN logic literally (ParquetCols.v): rows are dicts, create_record '
            'runs its two loops over the schema names and appends to one list per column, load rebuilds the rows with '
            'dict(zip(names, row)) over zip of the columns; proved for ALL schemas with at least one column, ALL row '
            'lists and ALL batch sizes: the columns are the transposition of the rows projected on the schema names '
            '(one column per name, one entry per row), create_record refuses the batch exactly when a row lacks a '
            'schema name, zip over the columns gives the projected rows back, the rebuilt row has exactly the schema '
            'names as keys in schema order each with the value of the source row, key order and extra keys of the '
            'pushed dict are irrelevant, a row pushed with exactly the schema names in schema order comes back '
            'identical, and batching + transposing + rebuilding returns every source row rebuilt, once, in order '
            '(C20_cols_*); create_record is called directly on generated row dicts (any key order, extra keys, missing '
            'fields) and load_from_file on a file holding exactly that record batch, both compared with the Coq '
            'functions on every run (CCols). '
            'These are theorems about a model in which a record batch is the list of its rows (or of its columns) and reading '
            'a file returns the record batches written, in order: that pyarrow behaves so (for compression none/'
            'snappy/gzip/zstd, int/string/float/struct/list columns, path and file object) is TESTED by the '
            'correspondence run, not proved: real files are written by dump_to_file, the row counts of the row '
            'groups actually written, the rows in the file (read_table) and the rows from load_from_file are compared '
            'with the values the model computes in Coq, rows being identified by index only when equal in every column. '
            'The source row dicts are pushed with their keys in schema order, reversed, in a random permutation per '
            'case and in a fresh random permutation per row (the key order of a dict is not part of the value of a '
            'row and does not appear in the model): a row of the file counts as source row i only if every field NAME '
            'carries the source value of that name, with the file columns in schema order. A SCALE family runs the same '
            'dump / inspect / load and the same oracle on dump batches of 32768..262144 rows (batch sizes around 2^15 and '
            '2^16 and multiples of 2^15; row counts that are exact multiples, one less, one more), thousands of load and '
            'dump batches, load batch sizes above 65535, schemas of 100..300 columns and values of 100 KiB..1 MiB; the '
            'list model being quadratic in the batch size, the largest of these are judged by the model-free oracle '
            'alone (CSkip in C20Corr.v) and not compared with the model.',
    'note': 'Trusted: Coq kernel+VM; hand-written model of batch.py/parquet.py as repaired (tied by correspondence only); '
            'pyarrow (oracle, not modelled); rs.ops.scan/filter/map plumbing and RxPY synchronous delivery are modelled, '
            'not verified. Encryption properties are not exercised.',
    'technique': 'Coq proof (induction over the rows with the scan state as invariant; div/mod uniqueness for the size '
                 'sequence; transposition lemmas for the column layer) + vm_compute correspondence on real parquet files',
}
