"""C16 - compression round-trips under re-chunking and flags truncated streams
(rxsci/compression/z.py, zstd.py).  PARTIAL: zlib / zstandard are not modelled.

Three kinds of cases
  toy    the REAL rxsci wrappers run with the codec objects replaced (monkey-patched in this process
         only, around the run) by the Python twin of the toy codec of Compress/Wrapper.v; the Coq model
         instantiated with the toy codec must emit the same events step by step.  No oracle (the
         property speaks about gzip/zstd); these cases tie the wrapper model to the wrapper code.
  real   the REAL wrappers on zlib / zstandard themselves (through a transparent recording proxy):
         round trip under a re-chunking of the compressed bytes, validity of the compressed stream per
         the reference decoders (gzip module, zlib, zstandard), ALL truncation points of short streams,
         sampled truncation points of long ones.  This is the model-free oracle - and at the same time
         the differential TEST of the codec laws H1-H3 the Coq theorems assume.  The recorded codec
         calls are replayed through the Coq wrapper model (event structure, number of calls, flush count).
  bad    malformed input (a str among the chunks for compress; garbage / corrupted / concatenated
         streams for decompress): model comparison only.
  resub  RE-SUBSCRIPTION: one operator / one piped observable (source.pipe(wrapper())) is built ONCE and
         subscribed two or three times - one subscription after the other, after a first subscription that
         was disposed early, or with two subscriptions alive at once (chunks interleaved) - every subscription
         with its own payload.  Every subscription is a stream in its own right and is judged by the same
         model-free oracle as a first subscription (valid standalone file, round trip, truncation flagged);
         the recorded codec calls of one completed subscription are replayed through the Coq wrapper model.
  scale  real cases (same runner, same oracle) at SCALE: streams of 1024..100000 chunks entering compress and
         entering decompress (1024 x 128 B, 3000 x 1 KiB, 4096 x 256 B, 8192 x 512 B, 20000 x 10 B and random
         counts x sizes), chunks of 128 KiB .. 3 MiB on both sides, payloads of several MiB that are
         incompressible and that are extremely redundant (a compressed piece of a few hundred bytes inflating by
         several MiB), gzip and zstd.  Runs of more than MODEL_MAX_STEPS[tier] chunks are not replayed through the Coq
         model (the few-chunk run on the other side of the same case is); the oracle judges all of them.
"""
import contextlib
import json
import gzip
import hashlib
import itertools
import random
import zlib

import zstandard
from rx.subject import Subject

from harness.core import c_list, c_nlist, c_nat, c_bool, c_N, c_opt

PID = 'C16'
RULE = ('toy cases: source chunk lists over a small alphabet, compressed by the real wrapper over the toy twin, '
        're-chunked (cuts anywhere, empty chunks incl. first/last), truncated, or corrupted; all 2-cut '
        're-chunkings and all truncation points of short toy streams. real cases: data kinds zeros/repetitive/'
        'text/random/mixed, sizes 0..several internal buffers (zlib 16 KiB output buffer, zstd 128 KiB block), '
        'source chunk sizes 0..400 KB, re-chunk sizes 0..300 KB cyclic with leading/trailing empty chunks; '
        'every truncation point of short streams (one chunk and two chunks each), sampled truncation points '
        'of long ones; all 2-cut re-chunkings of short streams. scale cases (real codecs, same oracle): streams of '
        '>= 1024 chunks into compress and (compressed bytes of hardly compressible data) into decompress - the shapes '
        '1024x128 B, 3000x1 KiB, 4096x256 B, 8192x512 B, 20000x10 B exactly (no empty chunk in front) for each of the '
        'four wrappers, plus random counts 1024..20000 (thorough: ..100000) x chunk sizes 1 B..16 KiB incl. 2^k and '
        '2^k+-1, optionally an empty chunk after every chunk, two sizes in turn, a short last chunk; chunks of 128 KiB..'
        '3 MiB on both sides with payloads of 2-5 MiB (thorough: ..24 MiB); extremely redundant payloads (zeros, short '
        'period) of 3-10 MiB (thorough: ..64 MiB) whose compressed stream reaches decompress in one or a few pieces, '
        'each inflating by several MiB; incompressible payloads of several MiB; sampled truncation points on some. '
        'Scale runs longer than 4200 (quick tier) / 8250 (thorough) chunks are judged by the oracle only (the Coq model replays the few-chunk side '
        'of the same case). non-trivial = a real-codec case with non-empty '
        'data whose compressed stream is cut into >= 2 chunks or truncated, or a toy case with >= 2 chunks on '
        'each side, or a resub case with a non-empty payload in a subscription after the first; distinct = distinct '
        'case JSON')
TRUSTED = ['gzip DEcompression is MODELLED (Compress/Inflate.v: RFC 1952 container with CRC-32 / ISIZE check around a full RFC 1951 '
           'inflate incl. fixed and dynamic Huffman blocks) and compared with the real zlib on every run (streams emitted by the '
           'real z.compress wrapper, their strict prefixes, bit-flipped / cut / extended variants with zlib verdicts); proved of '
           'the model: prefix facts (law H3 for every accepted stream), trailer check, stored-encoder round trip, H1-H3 for the '
           'codec built from it. also proved: gunzip inverts four encoders (fixed-Huffman literals / runs, arbitrary LZ77 tokens with a greedy compressor, one dynamic-Huffman block with a fixed complete code). NOT proved: the inflate output on arbitrary dynamic codes and multi-block streams (comparison with zlib only); '
           'zlib compressor. zstandard: the frame STRUCTURE is modelled (Compress/ZstdFrame.v) and compared with the real library on the streams of the real zstd.compress wrapper every run, with the prefix theorems (truncation never mistaken for completion), a raw-block encoder round trip and H1-H3 for its codec proved; the content of compressed blocks and the XXH64 value are not modelled',
           'zlib compression and zstandard (C libraries) enter the wrapper theorems as Section variables '
           'cstep/cflush/dstep/deof/dflush constrained by the named hypotheses H1 (decoder output, raising and '
           'eof depend only on the concatenation fed, on prefixes of encoder output), H2 (decode(encode whole) = '
           'whole, eof reached), H3 (no eof on a strict prefix); H1-H3 are tied to the real libraries only by the '
           'differential test of this check (a test, not a proof)',
           'reference decoders used by the oracle: CPython gzip module, zlib.decompressobj, '
           'zstandard.ZstdDecompressor (decompressobj and stream_reader)',
           'monkey-patching of zlib.compressobj/decompressobj and zstandard.ZstdCompressor/ZstdDecompressor in '
           'the harness process (toy twin, recording proxy); Python twin of the toy codec (tied to the Coq toy '
           'codec by the event-level comparison only)',
           'modelled not verified: RxPY Subject synchronous delivery and AutoDetachObserver stop-after-terminal']
ASSUMPTIONS = ['H1-H3 on the codec (hypotheses of the round-trip and truncation theorems; proved for the toy codec, '
               'tested for zlib/zstandard)',
               'zstd.py modelled as repaired (empty chunks are not handed to the decoder)',
               'chunks are bytes objects']
SHARD = 170        # 15 shards in the quick tier: the long terms of the scale cases are spread over all cores
COQ_TARGETS = ['theories/Compress/C16Corr.vo']

# ---------------------------------------------------------------------------------------------
# toy codec twin (Compress/Wrapper.v: toy_cbytes / toy_cflush / toy_dbyte / toy_dstep)
# ---------------------------------------------------------------------------------------------
BLK = 4


class ToyError(Exception):
    pass


class ToyC:
    def __init__(self):
        self.buf = b''

    def compress(self, data):
        out = bytearray()
        for b in bytes(data):
            self.buf += bytes([b])
            if len(self.buf) == BLK:
                out += bytes([BLK]) + self.buf
                self.buf = b''
        return bytes(out)

    def flush(self, *a):
        out = (bytes([len(self.buf)]) + self.buf if self.buf else b'') + b'\x00'
        self.buf = b''
        return out


class ToyD:
    def __init__(self, strict):
        self.strict, self.rem, self.eof, self.unused_data = strict, 0, False, b''

    def decompress(self, data):
        if self.strict and self.eof:
            raise ToyError('cannot use a decompressobj multiple times')
        out = bytearray()
        rem, eof = self.rem, self.eof
        for b in bytes(data):
            if eof:
                pass
            elif rem > 0:
                out.append(b)
                rem -= 1
            elif b == 0:
                eof = True
            elif b <= BLK:
                rem = b
            else:
                raise ToyError('bad length byte')
        self.rem, self.eof = rem, eof
        return bytes(out)

    def flush(self, *a):
        return b''


class Log:
    def __init__(self):
        self.calls, self.flush, self.nflush, self.eof = [], None, 0, None


class RecC:
    """transparent recording proxy around a real compressobj"""
    def __init__(self, real, log):
        self._r, self._l = real, log

    def compress(self, data):
        try:
            o = self._r.compress(data)
        except Exception:
            self._l.calls.append(None)
            raise
        self._l.calls.append(o)
        return o

    def flush(self, *a):
        self._l.nflush += 1
        o = self._r.flush(*a)
        self._l.flush = o
        return o


class RecD:
    def __init__(self, real, log):
        self._r, self._l = real, log

    def decompress(self, data):
        try:
            o = self._r.decompress(data)
        except Exception:
            self._l.calls.append(None)
            raise
        self._l.calls.append(o)
        return o

    @property
    def eof(self):
        e = self._r.eof
        self._l.eof = bool(e)
        return e

    def flush(self, *a):
        self._l.nflush += 1
        o = self._r.flush(*a)
        self._l.flush = o
        return o


class LogRouter:
    """re-subscription cases: a codec object logs into the Log that is current WHEN THE OBJECT IS CREATED
    (the harness makes a fresh Log current before each subscribe call)"""
    def __init__(self):
        self.current = Log()

    def fresh(self):
        self.current = Log()
        return self.current


def _log_of(log):
    return log.current if isinstance(log, LogRouter) else log


_REAL = (zlib.compressobj, zlib.decompressobj, zstandard.ZstdCompressor, zstandard.ZstdDecompressor)


@contextlib.contextmanager
def patched(mode, log=None):
    """mode 'toy': codec constructors give the toy twin; 'rec': the real objects behind a recorder."""
    rc, rd, RZC, RZD = _REAL
    if mode == 'toy':
        class ZC:
            def __init__(self, *a, **k):
                pass

            def compressobj(self, *a, **k):
                return ToyC()

        class ZD:
            def __init__(self, *a, **k):
                pass

            def decompressobj(self, *a, **k):
                return ToyD(True)
        zlib.compressobj = lambda *a, **k: ToyC()
        zlib.decompressobj = lambda *a, **k: ToyD(False)
    else:
        class ZC:
            def __init__(self, *a, **k):
                self._r = RZC(*a, **k)

            def compressobj(self, *a, **k):
                return RecC(self._r.compressobj(*a, **k), _log_of(log))

        class ZD:
            def __init__(self, *a, **k):
                self._r = RZD(*a, **k)

            def decompressobj(self, *a, **k):
                return RecD(self._r.decompressobj(*a, **k), _log_of(log))
        zlib.compressobj = lambda *a, **k: RecC(rc(*a, **k), _log_of(log))
        zlib.decompressobj = lambda *a, **k: RecD(rd(*a, **k), _log_of(log))
    zstandard.ZstdCompressor, zstandard.ZstdDecompressor = ZC, ZD
    try:
        yield
    finally:
        zlib.compressobj, zlib.decompressobj, zstandard.ZstdCompressor, zstandard.ZstdDecompressor = _REAL


def drive(op, inputs):
    """events emitted while each input is pushed, then (last element) at completion of the source"""
    src, cur = Subject(), []
    op(src).subscribe(on_next=lambda x: cur.append(('n', x)),
                      on_error=lambda e: cur.append(('e', type(e).__name__, str(e)[:80])),
                      on_completed=lambda: cur.append(('c',)))
    steps = [cur[:]]          # at subscription: must stay empty
    del cur[:]
    for x in inputs:
        src.on_next(x)
        steps.append(cur[:])
        del cur[:]
    src.on_completed()
    steps.append(cur[:])
    return steps


def wrappers(codec):
    import rxsci.compression.z as z
    import rxsci.compression.zstd as zs
    return (z.compress, z.decompress) if codec in ('z', 'gzip') else (zs.compress, zs.decompress)


def payload(steps):
    return b''.join(e[1] for st in steps for e in st if e[0] == 'n')


def ending(steps):
    for st in steps:
        for e in st:
            if e[0] == 'e':
                return 'error:' + e[1]
            if e[0] == 'c':
                return 'completed'
    return 'none'


# ---------------------------------------------------------------------------------------------
# generators
# ---------------------------------------------------------------------------------------------
def cut(rng, s, ncuts, empty_prob=0.2):
    pts = sorted(rng.randint(0, len(s)) for _ in range(ncuts))
    out, prev = [], 0
    for p in pts + [len(s)]:
        out.append(s[prev:p])
        prev = p
        if rng.random() < empty_prob:
            out.append(s[0:0])
    return out


def toy_encode(chunks):
    c = ToyC()
    return b''.join(c.compress(bytes(x)) for x in chunks) + c.flush()


def gen_toy(rng):
    codec = rng.choice(['z', 'zstd'])
    nch = rng.choice([0, 1, 1, 2, 3, 5, 8])
    chunks = [[rng.choice([0, 1, 2, 4, 5, 7, 255]) for _ in range(rng.choice([0, 0, 1, 2, 3, 4, 5, 9]))]
              for _ in range(nch)]
    w = toy_encode(chunks)
    r = rng.random()
    if r < 0.55:
        shape, s = 'rechunk', w
    elif r < 0.8:
        shape, s = 'truncated', w[:rng.randrange(len(w))]
    else:
        shape = 'corrupt'
        s = bytearray(w + (bytes(rng.choice([0, 1, 3, 9]) for _ in range(rng.randrange(4))) if rng.random() < 0.5 else b''))
        for _ in range(rng.choice([0, 1, 2])):
            if s:
                s[rng.randrange(len(s))] = rng.choice([0, 1, 2, 4, 5, 6, 200])
        s = bytes(s)
    rechunk = cut(rng, s, rng.choice([0, 1, 2, 3, 5, len(s)]), empty_prob=0.3)
    if rng.random() < 0.15:
        rechunk = [bytes([b]) for b in s]
    if rng.random() < 0.25:
        rechunk = rechunk + [b''] * rng.choice([1, 2])          # empty chunk(s) after the end
    if rng.random() < 0.1:
        rechunk = [b''] + rechunk
    if rng.random() < 0.03:
        rechunk = []
    return {'kind': 'toy', 'codec': codec, 'shape': shape, 'chunks': chunks, 'rechunk': [list(c) for c in rechunk]}


def exhaustive_toy():
    out = []
    for codec in ('z', 'zstd'):
        for chunks in ([[1, 2, 3], [], [4, 5, 6, 7, 8, 9]], [[]], [[7]], []):
            w = toy_encode(chunks)
            for pts in itertools.combinations_with_replacement(range(len(w) + 1), 2):
                ch, prev = [], 0
                for q in list(pts) + [len(w)]:
                    ch.append(list(w[prev:q]))
                    prev = q
                out.append({'kind': 'toy', 'codec': codec, 'shape': 'rechunk', 'chunks': chunks, 'rechunk': ch})
            for t in range(len(w)):
                for tail in ([], [[]]):
                    for split in sorted({0, t // 2, t}):
                        out.append({'kind': 'toy', 'codec': codec, 'shape': 'truncated', 'chunks': chunks,
                                    'rechunk': [list(w[:split]), list(w[split:t])] + tail})
    return out


WORDS = [b'the', b'quick', b'brown', b'fox', b'jumps', b'over', b'lazy', b'dog', b'\n', b' ', b'0123456789', b'\x00\xff']


def make_data(spec):
    rng = random.Random(spec['seed'])
    n, k = spec['size'], spec['gen']
    if k == 'zeros':
        return bytes(n)
    if k == 'rand':
        return rng.randbytes(n)
    if k == 'rep':
        pat = rng.randbytes(rng.choice([1, 3, 17, 1000]))
        return (pat * (n // len(pat) + 1))[:n]
    if k == 'text':
        out = bytearray()
        while len(out) < n:
            out += rng.choice(WORDS)
        return bytes(out[:n])
    out = bytearray()                     # mixed: alternating compressible and incompressible runs
    while len(out) < n:
        ln = rng.choice([1, 100, 5000, 70000])
        out += rng.randbytes(ln) if rng.random() < 0.5 else bytes([rng.randrange(256)]) * ln
    return bytes(out[:n])


def by_sizes(b, sizes, lead=0, tail=0, max_chunks=400):
    """cut b into chunks of the given sizes (cyclically; 0 = an empty chunk); after max_chunks chunks the
    rest goes into one chunk (keeps the Coq terms small)"""
    out, pos, i = [b[0:0]] * lead, 0, 0
    if not any(sizes):
        sizes = list(sizes) + [max(1, len(b))]
    while pos < len(b):
        s = sizes[i % len(sizes)] if i < max_chunks else len(b)
        out.append(b[pos:pos + s])
        pos += s
        i += 1
    return out + [b[0:0]] * tail


SMALL = [0, 1, 2, 3, 5, 8, 13, 64, 100, 1000]
BUF = [16383, 16384, 16385, 32768, 65536, 131071, 131072, 131073, 200000, 300000]


def gen_sizes(rng, big):
    pool = SMALL + (BUF if big else [])
    return [rng.choice(pool) for _ in range(rng.choice([1, 1, 2, 3, 5]))]


def gen_real(rng, tier, mode=None, big=None):
    codec = rng.choice(['gzip', 'zstd'])
    if big is None:
        big = rng.random() < (0.12 if tier == 'quick' else 0.25)
    mode = mode or rng.choice(['roundtrip'] * 6 + ['trunc_some'] * 2)
    if big:
        size = rng.choice([16384, 40000, 131072, 131073, 200000, 400000] + ([1000000, 2500000] if tier == 'thorough' else []))
    else:
        size = rng.choice([0, 0, 1, 2, 10, 100, 1000, 5000, 20000])
    data = {'gen': rng.choice(['zeros', 'rand', 'rep', 'text', 'mixed']), 'seed': rng.randrange(10 ** 6), 'size': size}
    case = {'kind': 'real', 'codec': codec, 'mode': mode, 'data': data,
            'src_sizes': gen_sizes(rng, big) + ([400000] if big and rng.random() < 0.3 else []),
            'src_lead': rng.choice([0, 0, 0, 1]), 'src_tail': rng.choice([0, 0, 0, 1, 2]),
            're_sizes': gen_sizes(rng, big), 're_lead': rng.choice([0, 0, 0, 1, 2]),
            're_tail': rng.choice([0, 0, 1, 1, 2])}
    if rng.random() < 0.08:
        case['src_sizes'], case['src_lead'], case['src_tail'] = [10 ** 9], 0, 0      # a single chunk
    if mode == 'trunc_some':
        case['trunc'] = [rng.random() for _ in range(8)]
    return case


def gen_trunc_all(rng):
    codec = rng.choice(['gzip', 'zstd'])
    size = rng.choice([0, 1, 5, 30, 100, 300])
    gen = rng.choice(['zeros', 'rep', 'text', 'rand']) if size > 100 else rng.choice(['zeros', 'rand', 'rep', 'text'])
    if gen == 'rand' and size > 100:
        size = 100
    return {'kind': 'real', 'codec': codec, 'mode': 'trunc_all',
            'data': {'gen': gen, 'seed': rng.randrange(10 ** 6), 'size': size},
            'src_sizes': gen_sizes(rng, False), 'src_lead': 0, 'src_tail': rng.choice([0, 1]),
            're_sizes': [10 ** 9], 're_lead': 0, 're_tail': rng.choice([0, 1]), 'split': rng.random()}


def gen_allcuts(rng, ncuts):
    c = gen_trunc_all(rng)
    c['mode'] = 'allcuts'
    c['ncuts'] = ncuts
    c['data']['size'] = min(c['data']['size'], 30 if ncuts == 2 else 8)
    return c


def gen_bad(rng):
    codec = rng.choice(['gzip', 'zstd'])
    if rng.random() < 0.3:
        # a str among the chunks handed to compress: compressor.compress raises TypeError
        n = rng.choice([1, 2, 4])
        return {'kind': 'bad', 'codec': codec, 'what': 'compress-str', 'n': n, 'at': rng.randrange(n)}
    what = rng.choice(['garbage', 'flip', 'trailing', 'two-frames'])
    return {'kind': 'bad', 'codec': codec, 'what': what, 'seed': rng.randrange(10 ** 6),
            'size': rng.choice([0, 10, 1000, 40000]), 're_sizes': gen_sizes(rng, False), 're_tail': rng.choice([0, 1])}



# ---- re-subscription of one operator / one piped observable ------------------------------------------
def resub_sub(rng, side, fate, size=None, big=False):
    if size is None:
        size = rng.choice([16384, 40000, 131073, 200000]) if big else rng.choice([0, 1, 10, 100, 1000, 1000, 5000, 20000])
    return {'data': {'gen': rng.choice(['zeros', 'rand', 'rep', 'text', 'mixed']), 'seed': rng.randrange(10 ** 6), 'size': size},
            'sizes': gen_sizes(rng, big), 'lead': rng.choice([0, 0, 0, 1]), 'tail': rng.choice([0, 0, 1, 2]),
            're': gen_sizes(rng, big), 'fate': fate, 'at': rng.choice([0.0, rng.random(), rng.random(), 0.999])}


def gen_resub(rng, tier):
    side = rng.choice(['c', 'd'])
    nsub = rng.choice([2, 2, 2, 3])
    early = ['full'] * 3 + ['dispose'] * 2 + (['trunc'] if side == 'd' else [])
    last = ['full'] * 5 + (['trunc'] if side == 'd' else [])
    subs = [resub_sub(rng, side, rng.choice(early if j < nsub - 1 else last), big=rng.random() < 0.06) for j in range(nsub)]
    return {'kind': 'resub', 'codec': rng.choice(['gzip', 'zstd']), 'side': side,
            'share': rng.choice(['observable', 'observable', 'operator']),
            'order': rng.choice(['seq', 'seq', 'seq', 'inter']), 'iseed': rng.randrange(10 ** 6), 'subs': subs}


def exhaustive_resub(rng):
    """wrapper x sharing x order x what happened to the FIRST subscription; the second is a plain full one"""
    out = []
    for codec in ('gzip', 'zstd'):
        for side in ('c', 'd'):
            firsts = [('full', None, 0.0), ('full', 0, 0.0), ('dispose', None, 0.0), ('dispose', None, 0.5),
                      ('dispose', None, 0.999)] + ([('trunc', None, 0.0), ('trunc', None, 0.6)] if side == 'd' else [])
            for share in ('observable', 'operator'):
                for order in ('seq', 'inter'):
                    for fate, size, at in firsts:
                        a = resub_sub(rng, side, fate, size=size if size is not None else rng.choice([10, 100, 1000]))
                        a['at'] = at
                        if not any(a['sizes']):
                            a['sizes'] = [7]
                        b = resub_sub(rng, side, 'full', size=rng.choice([1, 10, 100, 1000]))
                        out.append({'kind': 'resub', 'codec': codec, 'side': side, 'share': share, 'order': order,
                                    'iseed': rng.randrange(10 ** 6), 'subs': [a, b]})
    return out


def resub_schedule(case, n_inputs):
    """[(subscription index, action)]: per subscription 'sub', ('push', j)..., then 'complete' or 'dispose'.
    order 'seq': one subscription after the other; 'inter': a random merge (two or three alive at once)."""
    per = []
    for i, (s, n) in enumerate(zip(case['subs'], n_inputs)):
        if s['fate'] == 'dispose':
            n = min(n, int(s['at'] * (n + 1)))
        per.append([(i, 'sub')] + [(i, ('push', j)) for j in range(n)] +
                   [(i, 'dispose' if s['fate'] == 'dispose' else 'complete')])
    if case['order'] == 'seq':
        return [a for p in per for a in p]
    rng, out = random.Random(case['iseed']), []
    while any(per):
        p = rng.choice([p for p in per if p])
        out.append(p.pop(0))
    return out


# ---- SCALE: streams of >= 1024 chunks, chunks of >= 128 KiB, payloads of several MiB -----------------------
MIB = 1 << 20
NAMED_SHAPES = [(1024, 128), (3000, 1024), (4096, 256), (8192, 512), (20000, 10)]      # chunks x bytes per chunk
SCALE_COUNTS = [1024, 1025, 1500, 2048, 2049, 3000, 4096, 4097, 5000, 8192, 10000, 16384, 20000]
SCALE_COUNTS_THOROUGH = [30000, 50000, 65536, 100000]
SCALE_CHUNK = [1, 7, 10, 64, 100, 127, 128, 129, 255, 256, 512, 1000, 1023, 1024, 1025, 2048, 4096, 8192, 16384]
BIG_CHUNK = [131072, 131073, 200000, 262144, 262145, 524288, 1000000, MIB, MIB + 1, 2 * MIB, 3 * MIB + 17]
MODEL_MAX_STEPS = {'quick': 4200, 'thorough': 8250}        # longest recorded run of a scale case that is replayed through the Coq model
                              # (steps = chunks pushed); longer runs are judged by the oracle alone and the model
                              # replays the run on the other side of the same case, which has few chunks


def scale_case(rng, tier, codec, what, gen, size, src_sizes, re_sizes, mode='roundtrip'):
    c = {'kind': 'real', 'codec': codec, 'mode': mode, 'scale': what,
         'data': {'gen': gen, 'seed': rng.randrange(10 ** 6), 'size': size},
         'src_sizes': src_sizes, 'src_lead': rng.choice([0, 0, 0, 1]), 'src_tail': rng.choice([0, 0, 0, 1, 2]),
         're_sizes': re_sizes, 're_lead': rng.choice([0, 0, 0, 1]), 're_tail': rng.choice([0, 0, 1, 2]),
         'max_chunks': 10 ** 7, 'model_max': MODEL_MAX_STEPS.get(tier, 4200)}
    if mode == 'trunc_some':
        c['trunc'] = [rng.random() for _ in range(4)] + [0.999999]
    return c


def gen_many(rng, tier, codec, side, shape=None):
    """a stream of n >= 1024 chunks of sz bytes, entering compress (side 'c': the source chunks) or decompress
    (side 'd': the compressed bytes of an incompressible / hardly compressible payload cut into sz byte chunks)"""
    cap = (6 if tier == 'quick' else 24) * MIB
    if shape is None:
        while True:
            n = rng.choice(SCALE_COUNTS + (SCALE_COUNTS_THOROUGH if tier == 'thorough' else []))
            sz = rng.choice(SCALE_CHUNK)
            if n * sz <= cap:
                break
    else:
        n, sz = shape
    sizes = [sz]
    r = rng.random()
    if shape is None and r < 0.15:
        sizes = [sz, 0]                                    # an empty chunk after every chunk
    elif shape is None and r < 0.3:
        sizes = [sz, rng.choice(SCALE_CHUNK)]              # two chunk sizes in turn
    per = sum(sizes) / len(sizes)
    extra = rng.choice([0, 0, 0, 1, sz // 2, sz + 1]) if shape is None else 0      # a short last chunk
    other = rng.choice([[rng.choice(BUF + BIG_CHUNK) for _ in range(rng.choice([1, 2]))], [65536], [10 ** 9]])   # the far side: few chunks
    if side == 'c':
        g = rng.choice(['zeros', 'rand', 'rep', 'text', 'mixed'])
        return scale_case(rng, tier, codec, 'many-chunks-in', g, int(n * per) + extra, sizes, other)
    # side 'd': the compressed stream must itself be n * sz bytes or more
    g = rng.choice(['rand', 'rand', 'mixed', 'text']) if shape is None else 'rand'
    size = (int(n * per) + extra) * {'rand': 1, 'mixed': 3, 'text': 5}[g]
    if size > 2 * cap:
        g, size = 'rand', int(n * per) + extra
    return scale_case(rng, tier, codec, 'many-chunks-compressed', g, size, other, sizes,
                      mode='roundtrip' if rng.random() < 0.8 else 'trunc_some')


def gen_bigchunk(rng, tier, codec, gen=None):
    """chunks of 128 KiB and more on both sides, payload of several MiB"""
    g = gen or rng.choice(['zeros', 'rand', 'rand', 'rep', 'text', 'mixed'])
    size = rng.choice([2 * MIB, 3 * MIB + 1, 4 * MIB, 5000000] + ([8 * MIB, 16 * MIB + 5, 24 * MIB] if tier == 'thorough' else []))
    pick = lambda: [rng.choice(BIG_CHUNK) for _ in range(rng.choice([1, 1, 2]))]
    return scale_case(rng, tier, codec, 'big-chunks', g, size, rng.choice([pick(), pick(), [10 ** 9]]),
                      rng.choice([pick(), pick(), [10 ** 9]]), mode='roundtrip' if rng.random() < 0.8 else 'trunc_some')


def gen_inflate(rng, tier, codec, gen=None):
    """an extremely redundant payload of several MiB: its compressed stream is a few KiB, handed to decompress in
    one piece or in a few pieces, each of which inflates by several MiB"""
    g = gen or rng.choice(['zeros', 'rep'])
    size = rng.choice([3 * MIB, 4 * MIB + 3, 8 * MIB, 10000000] + ([32 * MIB, 64 * MIB + 1] if tier == 'thorough' else []))
    src = rng.choice([[10 ** 9], [MIB], [65536], [rng.choice(BIG_CHUNK)], [4096]])
    if size // src[0] > 20000:
        src = [65536]
    re = rng.choice([[10 ** 9], [10 ** 9], [65536], [1000], [rng.choice([100, 300, 5000])]])
    return scale_case(rng, tier, codec, 'one-piece-inflates-by-MiB', g, size, src, re)


def gen_scale(rng, tier):
    out = []
    for codec in ('gzip', 'zstd'):
        for shape in NAMED_SHAPES:                         # the named shapes, through all four wrappers, exactly
            c, d = gen_many(rng, tier, codec, 'c', shape), gen_many(rng, tier, codec, 'd', shape)
            c['src_lead'] = d['re_lead'] = 0               # (no empty chunk in front: chunk k is the k-th item)
            out += [c, d]
        for g in ('rand', 'zeros' if tier == 'quick' else 'text'):
            out.append(gen_bigchunk(rng, tier, codec, g))
        for g in ('zeros', 'rep'):
            out.append(gen_inflate(rng, tier, codec, g))
    n_many, n_big, n_inf = {'quick': (6, 2, 2), 'thorough': (120, 40, 30)}[tier]
    for _ in range(n_many):
        out.append(gen_many(rng, tier, rng.choice(['gzip', 'zstd']), rng.choice(['c', 'c', 'd'])))
    for _ in range(n_big):
        out.append(gen_bigchunk(rng, tier, rng.choice(['gzip', 'zstd'])))
    for _ in range(n_inf):
        out.append(gen_inflate(rng, tier, rng.choice(['gzip', 'zstd'])))
    if tier == 'thorough':                                 # every named shape x every data kind into compress
        for codec in ('gzip', 'zstd'):
            for shape in NAMED_SHAPES:
                for g in ('zeros', 'rand', 'rep', 'text', 'mixed'):
                    c = gen_many(rng, tier, codec, 'c', shape)
                    c['data']['gen'], c['src_lead'] = g, 0
                    out.append(c)
    return out


def generate(rng, tier):
    n_toy, n_real, n_ta, n_ac, n_bad = {'quick': (1200, 400, 40, 10, 80), 'thorough': (15000, 6000, 800, 150, 1200),
                                        'search': (150, 60, 6, 0, 10)}[tier]
    n_resub = {'quick': 250, 'thorough': 4000, 'search': 40}[tier]
    # three small, readable cases first (they become the evidence samples)
    cases = [
        {'kind': 'toy', 'codec': 'zstd', 'shape': 'rechunk', 'chunks': [[1, 2, 3], [], [4, 5, 6, 7, 8, 9]],
         'rechunk': [[4, 1, 2], [], [3, 4, 1], [9, 0], []]},
        {'kind': 'real', 'codec': 'zstd', 'mode': 'roundtrip', 'data': {'gen': 'text', 'seed': 1, 'size': 100},
         'src_sizes': [7, 0], 'src_lead': 0, 'src_tail': 0, 're_sizes': [5], 're_lead': 0, 're_tail': 1},
        {'kind': 'real', 'codec': 'gzip', 'mode': 'trunc_all', 'data': {'gen': 'text', 'seed': 2, 'size': 30},
         'src_sizes': [7], 'src_lead': 0, 'src_tail': 0, 're_sizes': [10 ** 9], 're_lead': 0, 're_tail': 0, 'split': 0.5},
    ]
    cases += [gen_toy(rng) for _ in range(n_toy)]
    cases += [gen_real(rng, tier) for _ in range(n_real)]
    cases += [gen_trunc_all(rng) for _ in range(n_ta)]
    cases += [gen_allcuts(rng, 2) for _ in range(n_ac)]
    cases += [gen_bad(rng) for _ in range(n_bad)]
    cases += [gen_resub(rng, tier) for _ in range(n_resub)]
    if tier != 'search':
        cases += exhaustive_toy()
        cases += exhaustive_resub(rng)
        # every (codec, data kind) with a multi-buffer size, trailing empty chunk included
        for codec in ('gzip', 'zstd'):
            for g in ('zeros', 'rand', 'rep', 'text', 'mixed'):
                c = gen_real(rng, tier, mode='roundtrip', big=True)
                c['codec'], c['data']['gen'] = codec, g
                c['data']['size'] = 300000 if tier == 'quick' else 1500000
                cases.append(c)
    if tier == 'thorough':
        cases += [gen_allcuts(rng, 3) for _ in range(20)]
    # the Coq model of gzip decompression (Compress/Inflate.v) against the real zlib, on streams the REAL z.compress
    # wrapper emits (own random stream derived from rng)
    import random as _random
    gr = _random.Random(rng.randrange(2 ** 62))
    for _ in range({'quick': 14, 'thorough': 160, 'search': 2}[tier]):
        cases.append({'kind': 'gunzip', 'codec': 'gzip', 'seed': gr.randrange(10 ** 9),
                      'gen': gr.choice(['text', 'rand', 'rep', 'mixed', 'empty', 'one', 'words']),
                      'size': gr.choice([0, 1, 5, 60, 300, 900, 2500]), 'nchunks': gr.choice([1, 1, 2, 3, 5])})
    # the Coq model of the zstd FRAME STRUCTURE (Compress/ZstdFrame.v) against the real zstandard library, on streams the
    # REAL zstd.compress wrapper emits
    for _ in range({'quick': 12, 'thorough': 140, 'search': 2}[tier]):
        cases.append({'kind': 'zscan', 'codec': 'zstd', 'seed': gr.randrange(10 ** 9),
                      'gen': gr.choice(['text', 'rand', 'rep', 'mixed', 'empty', 'one', 'words', 'rep']),
                      'size': gr.choice([0, 1, 5, 60, 300, 900, 2500, 6000]), 'nchunks': gr.choice([1, 1, 2, 3, 5])})
    if tier != 'search':
        # generated last (the random stream of the families above is unchanged), then spread evenly over the list
        # so that the long Coq terms are spread over the shards, which are evaluated in parallel
        sc = gen_scale(rng, tier)
        step = max(1, (len(cases) - 3) // len(sc))
        for j, c in enumerate(sc):
            cases.insert(3 + j * (step + 1), c)
    return cases


# ---------------------------------------------------------------------------------------------
# running the implementation
# ---------------------------------------------------------------------------------------------
def ids_of(log, steps):
    """payloads -> small identifiers (same content = same identifier); events in identifier form"""
    table = {}

    def ident(b):
        return table.setdefault(bytes(b) if isinstance(b, (bytes, bytearray)) else repr(b).encode(), len(table))
    calls = [None if c is None else ident(c) for c in log.calls]
    flush = None if log.flush is None else ident(log.flush)
    evs = [[['n', ident(e[1])] if e[0] == 'n' else [e[0]] + list(e[1:2]) for e in st] for st in steps]
    return calls, flush, evs


def jev(steps):
    return [[['n', list(e[1])] if e[0] == 'n' else [e[0]] + list(e[1:2]) for e in st] for st in steps]


def run_rec(op, inputs):
    log = Log()
    with patched('rec', log):
        steps = drive(op, inputs)
    return log, steps


def trace_obs(log, steps, inputs):
    calls, flush, evs = ids_of(log, steps)
    return {'sub': evs[0], 'events': evs[1:], 'calls': calls, 'flush': flush, 'nflush': log.nflush,
            'eof': log.eof, 'empties': [len(i) == 0 for i in inputs]}


def ref_check(codec, comp, data):
    """the compressed stream as a standalone file, per the reference decoders"""
    try:
        if codec == 'gzip':
            if gzip.decompress(comp) != data:
                return 'gzip module decodes to different bytes'
            d = zlib.decompressobj(wbits=zlib.MAX_WBITS | 16)
            if d.decompress(comp) + d.flush() != data or not d.eof or d.unused_data:
                return 'zlib: no clean end of stream'
        else:
            d = zstandard.ZstdDecompressor().decompressobj()
            if d.decompress(comp) != data or not d.eof or d.unused_data:
                return 'zstandard decompressobj: different bytes or no clean end of frame'
            import io
            if zstandard.ZstdDecompressor().stream_reader(io.BytesIO(comp)).read() != data:
                return 'zstandard stream_reader decodes to different bytes'
            zstandard.get_frame_parameters(comp)
    except Exception as e:
        return 'reference decoder raised %s: %s' % (type(e).__name__, str(e)[:80])
    return None


def run_resub(case):
    """one operator / one piped observable, subscribed once per entry of case['subs']"""
    import rx
    comp_op, decomp_op = wrappers(case['codec'])
    side, st = case['side'], []
    for s in case['subs']:
        data = make_data(s['data'])
        e = {'data': data, 'comp_ref': None, 'cur': [], 'steps': [], 'log': None, 'disp': None, 'subject': None}
        if side == 'c':
            stream = data
        else:
            comp = payload(drive(comp_op(), by_sizes(data, [1000])))          # a fresh compress operator
            e['comp_ref'] = ref_check(case['codec'], comp, data)
            stream = comp[:int(s['at'] * len(comp))] if s['fate'] == 'trunc' else comp
        e['stream'] = stream
        e['inputs'] = by_sizes(stream, s['sizes'], s['lead'], s['tail'])
        st.append(e)
    router, crosstalk, pending = LogRouter(), 0, []

    def new_subject(*_):
        subj = Subject()
        st[pending[-1]]['subject'] = subj
        return subj

    def observer_of(e):
        return dict(on_next=lambda x: e['cur'].append(('n', x)),
                    on_error=lambda err: e['cur'].append(('e', type(err).__name__, str(err)[:80])),
                    on_completed=lambda: e['cur'].append(('c',)))

    with patched('rec', router):
        op = comp_op() if side == 'c' else decomp_op()                         # the operator: built ONCE
        piped = rx.defer(new_subject).pipe(op) if case['share'] == 'observable' else None     # built ONCE
        for i, act in resub_schedule(case, [len(e['inputs']) for e in st]):
            e = st[i]
            if act == 'sub':
                pending.append(i)
                e['log'] = router.fresh()
                o = piped if piped is not None else op(new_subject())
                e['disp'] = o.subscribe(**observer_of(e))
            elif act == 'complete':
                e['subject'].on_completed()
            elif act == 'dispose':
                e['disp'].dispose()
            else:
                e['subject'].on_next(e['inputs'][act[1]])
            e['steps'].append(e['cur'][:])
            del e['cur'][:]
            crosstalk += sum(1 for x in st if x is not e and x['cur'])       # events of a subscription that was not driven
    subs = []
    for s, e in zip(case['subs'], st):
        data, out, steps = e['data'], payload(e['steps']), e['steps']
        o = {'fate': s['fate'], 'n_chunks': len(e['inputs']), 'n_pushed': max(0, len(steps) - 2), 'data_len': len(data),
             'data_sha': hashlib.sha1(data).hexdigest(), 'stream_len': len(e['stream']), 'end': ending(steps),
             'out_len': len(out), 'out_sha': hashlib.sha1(out).hexdigest(), 'at_subscribe': jev(steps[:1])[0],
             'comp_ref': e['comp_ref']}
        if side == 'c' and s['fate'] == 'full':
            o['ref'] = ref_check(case['codec'], out, data)
            back = drive(decomp_op(), by_sizes(out, s['re'], 0, s['tail']))   # a fresh decompress operator
            o['rt_end'], o['rt_ok'] = ending(back), payload(back) == data
        if side == 'd':
            o['out_is_prefix'] = data.startswith(out)
        if s['fate'] != 'dispose':
            o['trace'] = trace_obs(e['log'], steps, e['inputs'])
        subs.append(o)
    return {'subs': subs, 'crosstalk': crosstalk}


def gunzip_payload(case):
    import random
    r = random.Random(case['seed'])
    n, g = case['size'], case['gen']
    if g == 'empty':
        return b''
    if g == 'one':
        return bytes([r.randrange(256)])
    if g == 'rand':
        return bytes(r.randrange(256) for _ in range(n))
    if g == 'rep':
        return (bytes(r.randrange(256) for _ in range(r.choice([1, 3, 7]))) * (n + 1))[:n]
    if g == 'words':
        w = [b'alpha', b'beta', b'gamma', b'delta', b' ', b'\n', b'0123456789']
        return b''.join(r.choice(w) for _ in range(n // 4 + 1))[:n]
    if g == 'text':
        return bytes(r.choice(b'abcdefghij klmnop\nqrstuvwxyz,.') for _ in range(n))
    return bytes((r.randrange(256) if r.random() < 0.3 else 65 + (i % 7)) for i in range(n))


def zlib_verdict(stream):
    """what zlib.decompressobj(wbits=31) makes of a whole stream: (0, payload) complete, nothing unused; (1, ..) valid so
    far but incomplete; (2, ..) zlib.error; None = complete with unused data (not compared)"""
    import zlib
    d = zlib.decompressobj(wbits=31)
    try:
        out = d.decompress(stream)
        out += d.flush()
    except zlib.error:
        return 2, b''
    if d.eof:
        return (0, out) if not d.unused_data else None
    return 1, b''


def run_gunzip(case):
    import random
    comp_op, _ = wrappers('gzip')
    data = gunzip_payload(case)
    r = random.Random(case['seed'] + 1)
    k = case['nchunks']
    cuts = sorted(r.randrange(len(data) + 1) for _ in range(k - 1))
    chunks = [data[a:b] for a, b in zip([0] + cuts, cuts + [len(data)])]
    steps = drive(comp_op(), chunks)
    stream = payload(steps)
    end = ending(steps)
    pre = sorted(set(r.randrange(len(stream)) for _ in range(6))) if stream else []
    v = zlib_verdict(stream)
    # mutants of the stream (bit flips, cuts, garbage appended): zlib's verdict on each
    muts = []
    for _ in range(6):
        b = bytearray(stream)
        kind = r.randrange(3)
        if kind == 0 and b:
            i = r.randrange(len(b))
            b[i] ^= 1 << r.randrange(8)
        elif kind == 1 and b:
            del b[r.randrange(len(b)):]
        else:
            b += bytes(r.randrange(256) for _ in range(r.choice([1, 4])))
        mv = zlib_verdict(bytes(b))
        if mv is not None:
            muts.append([list(b), mv[0], list(mv[1])])
    return {'stream': list(stream), 'payload': list(data), 'cuts': pre, 'end': str(end), 'zlib': (v[0] if v else -1),
            'zlib_payload_ok': bool(v) and v[0] == 0 and v[1] == data, 'mutants': muts}


def run_zscan(case):
    import random
    import zstandard
    comp_op, _ = wrappers('zstd')
    data = gunzip_payload(case)
    r = random.Random(case['seed'] + 1)
    k = case['nchunks']
    cuts = sorted(r.randrange(len(data) + 1) for _ in range(k - 1))
    chunks = [data[a:b] for a, b in zip([0] + cuts, cuts + [len(data)])]
    steps = drive(comp_op(), chunks)
    stream = payload(steps)
    end = ending(steps)
    pre = sorted(set(r.randrange(len(stream)) for _ in range(6))) if stream else []
    trail = bytes(r.randrange(256) for _ in range(r.choice([0, 1, 5])))
    # what the real library says: eof exactly on the full stream, the trailing bytes unused, the payload back
    d = zstandard.ZstdDecompressor().decompressobj()
    try:
        out = d.decompress(stream + trail)
        lib = {'eof': bool(d.eof), 'unused': list(d.unused_data), 'payload_ok': out == data}
    except zstandard.ZstdError as e:
        lib = {'error': str(e)[:80]}
    pre_eof = []
    for c in pre:
        dd = zstandard.ZstdDecompressor().decompressobj()
        try:
            dd.decompress(stream[:c])
            pre_eof.append(bool(dd.eof))
        except zstandard.ZstdError:
            pre_eof.append('error')
    return {'stream': list(stream), 'cuts': pre, 'trail': list(trail), 'end': str(end), 'lib': lib, 'prefix_eof': pre_eof,
            'n_payload': len(data)}


def run_impl(case):
    if case['kind'] == 'gunzip':
        return run_gunzip(case)
    if case['kind'] == 'zscan':
        return run_zscan(case)
    comp_op, decomp_op = wrappers(case['codec'])
    if case['kind'] == 'resub':
        return run_resub(case)
    if case['kind'] == 'toy':
        with patched('toy'):
            cst = drive(comp_op(), [bytes(c) for c in case['chunks']])
            dst = drive(decomp_op(), [bytes(c) for c in case['rechunk']])
        return {'csub': jev(cst[:1]), 'cobs': jev(cst[1:]), 'dsub': jev(dst[:1]), 'dobs': jev(dst[1:])}
    if case['kind'] == 'bad':
        if case['what'] == 'compress-str':
            inputs = [b'abc'] * case['n']
            inputs[case['at']] = 'abc'
            log, st = run_rec(comp_op(), inputs)
            return {'side': 'c', 'trace': trace_obs(log, st, inputs)}
        rng = random.Random(case['seed'])
        data = rng.randbytes(case['size'])
        comp = payload(drive(comp_op(), by_sizes(data, [1000])))
        if case['what'] == 'garbage':
            s = rng.randbytes(max(1, case['size'] // 10))
        elif case['what'] == 'flip':
            s = bytearray(comp)
            s[rng.randrange(len(s))] ^= 1 << rng.randrange(8)
            s = bytes(s)
        elif case['what'] == 'trailing':
            s = comp + rng.randbytes(rng.choice([1, 5, 100]))
        else:
            s = comp + comp
        inputs = by_sizes(s, case['re_sizes'], 0, case['re_tail'])
        log, st = run_rec(decomp_op(), inputs)
        return {'side': 'd', 'trace': trace_obs(log, st, inputs), 'end': ending(st)}
    # ---- real codec ----
    data = make_data(case['data'])
    mc = case.get('max_chunks', 400)
    src = by_sizes(data, case['src_sizes'], case['src_lead'], case['src_tail'], mc)
    clog, cst = run_rec(comp_op(), src)
    comp = payload(cst)
    obs = {'n_src_chunks': len(src), 'data_len': len(data), 'data_sha': hashlib.sha1(data).hexdigest(),
           'comp_len': len(comp), 'comp_end': ending(cst), 'ctrace': trace_obs(clog, cst, src),
           'src_concat_ok': b''.join(src) == data, 'ref': ref_check(case['codec'], comp, data),
           'max_src_chunk': max([len(x) for x in src] + [0])}
    mode = case['mode']
    if mode in ('roundtrip', 'trunc_some'):
        streams = [comp] if mode == 'roundtrip' else sorted({comp[:int(f * len(comp))] for f in case['trunc']}, key=len)
        runs = []
        for s in streams:
            inputs = by_sizes(s, case['re_sizes'], case['re_lead'], case['re_tail'], mc)
            dlog, dst = run_rec(decomp_op(), inputs)
            out = payload(dst)
            runs.append({'len': len(s), 'n_chunks': len(inputs), 'rechunk_ok': b''.join(inputs) == s,
                         'max_in_chunk': max([len(x) for x in inputs] + [0]),
                         'max_emitted': max([len(e[1]) for st in dst for e in st if e[0] == 'n'] + [0]),
                         'end': ending(dst), 'out_len': len(out), 'out_sha': hashlib.sha1(out).hexdigest(),
                         'out_is_prefix': data.startswith(out), 'trace': trace_obs(dlog, dst, inputs)})
        obs['runs'] = runs[:3] if mode == 'roundtrip' else runs
        return obs
    if mode == 'trunc_all':
        ends, first = [], None
        for t in range(len(comp)):
            k = int(case['split'] * t)
            for inputs in ([comp[:t]], [comp[:k], comp[k:t]] + [b''] * case['re_tail']):
                dlog, dst = run_rec(decomp_op(), inputs)
                e = ending(dst)
                ends.append(e)
                if first is None and e.startswith('error') and t > len(comp) // 2:
                    first = {'t': t, 'trace': trace_obs(dlog, dst, inputs)}
        obs['ends'] = {e: ends.count(e) for e in set(ends)}
        obs['n_trunc_runs'] = len(ends)
        obs['sample'] = first
        return obs
    # allcuts: every placement of ncuts cuts in the compressed stream
    bad, n, sample = [], 0, None
    for pts in itertools.combinations_with_replacement(range(len(comp) + 1), case['ncuts']):
        inputs, prev = [], 0
        for q in list(pts) + [len(comp)]:
            inputs.append(comp[prev:q])
            prev = q
        dlog, dst = run_rec(decomp_op(), inputs)
        n += 1
        if payload(dst) != data or ending(dst) != 'completed':
            bad.append([list(pts), ending(dst)])
        if sample is None and n == 7:
            sample = {'trace': trace_obs(dlog, dst, inputs)}
    obs['n_cut_runs'], obs['bad_cuts'], obs['sample'] = n, bad[:5], sample
    obs['n_bad_cuts'] = len(bad)
    return obs


# ---------------------------------------------------------------------------------------------
# oracle (model-free): C16 as written, on the real codecs
# ---------------------------------------------------------------------------------------------
def oracle_resub(case, obs):
    """every subscription of the one operator / piped observable is a stream in its own right"""
    codec, side = case['codec'], case['side']
    if 'raised' in obs:
        return {'sig': codec + ':resub:raised', 'what': 'wrapper raised %s to the caller: %s' % (obs['raised'], obs.get('msg'))}
    fates = [s['fate'] for s in case['subs']]
    for j, o in enumerate(obs['subs']):
        where = '%s.%s, one %s subscribed %d times (%s, fates %s), subscription #%d' % (
            codec, 'compress' if side == 'c' else 'decompress', case['share'], len(fates),
            'one after the other' if case['order'] == 'seq' else 'alive at once, chunks interleaved', fates, j + 1)
        bad = None
        if o['comp_ref']:
            bad = ('invalid-file', 'a fresh compress did not give a valid standalone file: %s' % o['comp_ref'])
        elif o['fate'] == 'dispose':
            continue
        elif side == 'c':
            if o['end'] != 'completed':
                bad = ('compress-failed', 'compress ended with %s after %d of %d chunks' % (o['end'], o['n_pushed'], o['n_chunks']))
            elif o['ref']:
                bad = ('invalid-file', 'its output is not a valid standalone %s file of ITS %d payload bytes: %s'
                       % (codec, o['data_len'], o['ref']))
            elif o['rt_end'] != 'completed' or not o['rt_ok']:
                bad = ('roundtrip', 'decompress(rechunk(its output)) != its payload (end %s)' % o['rt_end'])
        elif o['fate'] == 'full':
            if o['end'] != 'completed' or o['out_len'] != o['data_len'] or o['out_sha'] != o['data_sha']:
                bad = ('roundtrip', 'decompress of a complete stream: end=%s, %d of %d bytes%s' % (
                    o['end'], o['out_len'], o['data_len'], '' if o['out_is_prefix'] else ', not a prefix of its payload'))
        else:
            if not o['end'].startswith('error'):
                bad = ('truncation-completed', 'stream cut at %d bytes ended with %s' % (o['stream_len'], o['end']))
            elif not o['out_is_prefix']:
                bad = ('truncation-wrong-data', 'truncated stream delivered bytes that are not a prefix of its payload')
        if bad:
            return {'sig': '%s:resub:%s' % (codec, bad[0]), 'what': where + ': ' + bad[1]}
    if obs['crosstalk']:
        return {'sig': codec + ':resub:crosstalk', 'what': 'a subscription received events while another one was driven (%d times)'
                % obs['crosstalk']}
    return None


def oracle(case, obs):
    if case['kind'] == 'resub':
        return oracle_resub(case, obs)
    if case['kind'] == 'zscan':
        if 'raised' in obs:
            return {'sig': 'zstd:raised', 'what': 'wrapper raised %s to the caller' % obs['raised']}
        lib = obs['lib']
        if 'error' in lib or not lib['eof'] or lib['unused'] != obs['trail'] or not lib['payload_ok'] or any(obs['prefix_eof']):
            return {'sig': 'zstd:stream-invalid', 'what': 'what zstd.compress emitted for %d bytes is not one complete frame of that '
                    'payload for the zstandard library itself (%s; eof on strict prefixes: %s; wrapper ended %s)'
                    % (obs['n_payload'], json.dumps(lib)[:160], obs['prefix_eof'], obs['end'])}
        return None
    if case['kind'] == 'gunzip':
        if 'raised' in obs:
            return {'sig': 'gzip:raised', 'what': 'wrapper raised %s to the caller' % obs['raised']}
        if not obs['zlib_payload_ok']:
            return {'sig': 'gzip:stream-invalid', 'what': 'what z.compress emitted for %d bytes is not a complete gzip file of '
                    'that payload for zlib itself (verdict %s, wrapper ended %s)' % (len(obs['payload']), obs['zlib'], obs['end'])}
        return None
    if case['kind'] != 'real':
        return None
    codec = case['codec']
    if 'raised' in obs:
        return {'sig': codec + ':raised', 'what': 'wrapper raised %s to the caller' % obs['raised']}
    if obs['comp_end'] != 'completed':
        return {'sig': codec + ':compress-failed', 'what': 'compress ended with %s' % obs['comp_end']}
    if obs['ref']:
        return {'sig': codec + ':invalid-file', 'what': 'compress output is not a valid standalone %s file: %s'
                % (codec, obs['ref'])}
    if case['mode'] == 'roundtrip':
        for r in obs['runs']:
            if r['end'] == 'completed' and r['out_len'] == obs['data_len'] and r['out_sha'] == obs['data_sha']:
                continue
            if codec == 'zstd' and r['end'] == 'error:ZstdError' and r['out_sha'] == obs['data_sha']:
                return {'sig': 'zstd:chunk-after-eof',
                        'what': 'zstd.decompress delivered all the data, then signalled ZstdError on a chunk that '
                                'arrived after the end of the frame (%d chunks, re_tail=%d)' % (r['n_chunks'], case['re_tail'])}
            return {'sig': codec + ':roundtrip', 'what': 'decompress(rechunk(compress(x))) != x: end=%s, %d of %d bytes'
                    % (r['end'], r['out_len'], obs['data_len'])}
    elif case['mode'] == 'trunc_some':
        for r in obs['runs']:
            if r['len'] < obs['comp_len'] and not r['end'].startswith('error'):
                return {'sig': codec + ':truncation-completed', 'what': 'stream cut at %d of %d bytes ended with %s'
                        % (r['len'], obs['comp_len'], r['end'])}
            if r['len'] < obs['comp_len'] and not r['out_is_prefix']:
                return {'sig': codec + ':truncation-wrong-data', 'what': 'truncated stream delivered bytes that are not a prefix'}
    elif case['mode'] == 'trunc_all':
        wrong = {e: n for e, n in obs['ends'].items() if not e.startswith('error')}
        if wrong:
            return {'sig': codec + ':truncation-completed', 'what': 'truncated streams ended with %s (of %d runs)'
                    % (wrong, obs['n_trunc_runs'])}
    else:
        if obs['n_bad_cuts']:
            b = obs['bad_cuts'][0]
            if codec == 'zstd' and b[1] == 'error:ZstdError':
                return {'sig': 'zstd:chunk-after-eof', 'what': 'cuts %s of a %d byte stream: ZstdError on the chunk after '
                        'the end of the frame (%d of %d cut placements fail)' % (b[0], obs['comp_len'], obs['n_bad_cuts'], obs['n_cut_runs'])}
            return {'sig': codec + ':roundtrip', 'what': 'cuts %s: %s' % (b[0], b[1])}
    return None


def nontrivial(case, obs):
    if 'raised' in obs:
        return False
    if case['kind'] == 'gunzip':
        return len(obs['payload']) >= 60
    if case['kind'] == 'zscan':
        return obs['n_payload'] >= 60
    if case['kind'] == 'toy':
        return len(case['chunks']) >= 2 and len(case['rechunk']) >= 2
    if case['kind'] == 'resub':
        return any(o['data_len'] > 0 and o['fate'] != 'dispose' for o in obs['subs'][1:])
    if case['kind'] == 'real' and obs['data_len'] > 0:
        if case['mode'] in ('trunc_all', 'allcuts', 'trunc_some'):
            return True
        return obs['runs'][0]['n_chunks'] >= 2
    return False


def describe(cases, obs):
    keep = [(c, o) for c, o in zip(cases, obs) if c['kind'] not in ('gunzip', 'zscan')]
    zs_ = [(c, o) for c, o in zip(cases, obs) if c['kind'] == 'zscan' and 'raised' not in o]
    gz = [(c, o) for c, o in zip(cases, obs) if c['kind'] == 'gunzip' and 'raised' not in o]
    d = describe_wrappers([c for c, _ in keep], [o for _, o in keep])
    d['gzip_model_cases'] = {'streams': len(gz), 'max_stream_bytes': max([len(o['stream']) for _, o in gz] or [0]),
                             'max_payload_bytes': max([len(o['payload']) for _, o in gz] or [0]),
                             'prefix_cuts': sum(len(o['cuts']) for _, o in gz),
                             'mutated_streams_by_zlib_verdict': {str(v): sum(1 for _, o in gz for m in o['mutants'] if m[1] == v) for v in (0, 1, 2)},
                             'first_block_types (BTYPE of the first deflate block)': {
                                 str(t): sum(1 for _, o in gz if len(o['stream']) > 10 and ((o['stream'][10] >> 1) & 3) == t) for t in (0, 1, 2)}}
    d['zstd_frame_model_cases'] = {'streams': len(zs_), 'max_stream_bytes': max([len(o['stream']) for _, o in zs_] or [0]),
                                   'prefix_cuts': sum(len(o['cuts']) for _, o in zs_),
                                   'with_trailing_bytes': sum(1 for _, o in zs_ if o['trail'])}
    return d


def describe_wrappers(cases, obs):
    d = {'toy': 0, 'real': 0, 'bad': 0, 'resub': 0, 'resub_subscriptions': 0, 'resub_wrapper_x_sharing_x_order': {},
         'resub_fate_of_first_subscription': {}, 'resub_full_subscription_after_a_disposed_one': 0,
         'resub_max_payload': 0, 'modes': {}, 'codecs': {}, 'data_kinds': {}, 'max_data_len': 0,
         'max_comp_len': 0, 'truncation_runs': 0, 'cut_placement_runs': 0, 'toy_shapes': {},
         'rechunks_with_trailing_empty_chunk': 0, 'max_rechunk_chunks': 0, 'incompressible_cases': 0,
         'scale_cases': {}, 'scale_max_chunks_into_compress': 0, 'scale_max_chunks_into_decompress': 0,
         'scale_streams_of_1024_or_more_chunks': {'gzip.compress': 0, 'gzip.decompress': 0, 'zstd.compress': 0,
                                                  'zstd.decompress': 0},
         'scale_max_chunk_into_compress': 0, 'scale_max_chunk_into_decompress': 0,
         'scale_max_item_emitted_by_decompress': 0, 'scale_max_inflation_of_one_piece': 0,
         'scale_incompressible_MiB_payloads': 0, 'scale_redundant_MiB_payloads': 0,
         'scale_long_runs_replayed_through_model': 0, 'scale_long_runs_oracle_only': 0}
    for c, o in zip(cases, obs):
        d[c['kind']] += 1
        d['codecs'][c['codec']] = d['codecs'].get(c['codec'], 0) + 1
        if c['kind'] == 'toy':
            d['toy_shapes'][c['shape']] = d['toy_shapes'].get(c['shape'], 0) + 1
            if c['rechunk'] and not c['rechunk'][-1]:
                d['rechunks_with_trailing_empty_chunk'] += 1
        if c['kind'] == 'resub' and 'raised' not in o:
            d['resub_subscriptions'] += len(c['subs'])
            key = '%s.%s/%s/%s' % (c['codec'], c['side'], c['share'], c['order'])
            d['resub_wrapper_x_sharing_x_order'][key] = d['resub_wrapper_x_sharing_x_order'].get(key, 0) + 1
            f = c['subs'][0]['fate']
            d['resub_fate_of_first_subscription'][f] = d['resub_fate_of_first_subscription'].get(f, 0) + 1
            fs = [x['fate'] for x in c['subs']]
            d['resub_full_subscription_after_a_disposed_one'] += any(
                a == 'dispose' and 'full' in fs[i + 1:] for i, a in enumerate(fs))
            d['resub_max_payload'] = max([d['resub_max_payload']] + [x['data_len'] for x in o['subs']])
        if c['kind'] != 'real' or 'raised' in o:
            continue
        d['modes'][c['mode']] = d['modes'].get(c['mode'], 0) + 1
        g = c['data']['gen']
        d['data_kinds'][g] = d['data_kinds'].get(g, 0) + 1
        d['max_data_len'] = max(d['max_data_len'], o['data_len'])
        d['max_comp_len'] = max(d['max_comp_len'], o['comp_len'])
        if o['comp_len'] >= o['data_len'] > 1000:
            d['incompressible_cases'] += 1
        d['truncation_runs'] += o.get('n_trunc_runs', 0) + (len(o['runs']) if c['mode'] == 'trunc_some' else 0)
        d['cut_placement_runs'] += o.get('n_cut_runs', 0)
        if c.get('scale'):
            key, r = '%s/%s' % (c['scale'], c['codec']), o['runs'][-1]
            d['scale_cases'][key] = d['scale_cases'].get(key, 0) + 1
            d['scale_max_chunks_into_compress'] = max(d['scale_max_chunks_into_compress'], o['n_src_chunks'])
            d['scale_max_chunks_into_decompress'] = max(d['scale_max_chunks_into_decompress'], r['n_chunks'])
            d['scale_streams_of_1024_or_more_chunks'][c['codec'] + '.compress'] += o['n_src_chunks'] >= 1024
            d['scale_streams_of_1024_or_more_chunks'][c['codec'] + '.decompress'] += r['n_chunks'] >= 1024
            d['scale_max_chunk_into_compress'] = max(d['scale_max_chunk_into_compress'], o['max_src_chunk'])
            d['scale_max_chunk_into_decompress'] = max(d['scale_max_chunk_into_decompress'], r['max_in_chunk'])
            d['scale_max_item_emitted_by_decompress'] = max(d['scale_max_item_emitted_by_decompress'], r['max_emitted'])
            if r['max_in_chunk'] < 100000:
                d['scale_max_inflation_of_one_piece'] = max(d['scale_max_inflation_of_one_piece'],
                                                            r['max_emitted'] - r['max_in_chunk'])
            d['scale_incompressible_MiB_payloads'] += o['comp_len'] >= o['data_len'] >= 2 * MIB
            d['scale_redundant_MiB_payloads'] += o['data_len'] >= 2 * MIB and o['comp_len'] * 500 < o['data_len']
            longest = max(o['n_src_chunks'], r['n_chunks'])
            if longest >= 1024:
                replayed = len(the_trace(c, o)[1]['events']) - 1 >= longest
                d['scale_long_runs_replayed_through_model' if replayed else 'scale_long_runs_oracle_only'] += 1
        if c['mode'] == 'roundtrip':
            d['max_rechunk_chunks'] = max(d['max_rechunk_chunks'], o['runs'][0]['n_chunks'])
            if c['re_tail']:
                d['rechunks_with_trailing_empty_chunk'] += 1
    return d


# ---------------------------------------------------------------------------------------------
# Coq side
# ---------------------------------------------------------------------------------------------
def coq_preamble():
    return ('From Coq Require Import List ZArith NArith Bool.\nImport ListNotations.\n'
            'From RxVerif Require Import Compress.ZstdFrame.\nFrom RxVerif Require Import Compress.Inflate.\nFrom RxVerif Require Import Base.Corr Compress.Wrapper Compress.C16Corr.\n')


CTYPE = 'c16case'
CHECKER = 'c16_check'


def c_ev(e, pay):
    return 'Next %s' % pay(e[1]) if e[0] == 'n' else 'Error' if e[0] == 'e' else 'Completed'


def c_evss(steps, pay):
    return c_list([c_list([c_ev(e, pay) for e in st]) for st in steps])


def c_trace_c(t):
    return 'CTraceC %s %s %s %s %s' % (c_nat(len(t['empties'])), c_list([c_opt(x, c_N) for x in t['calls']]),
                                       c_opt(t['flush'], c_N), c_nat(t['nflush']), c_evss(t['events'], c_N))


def c_trace_d(t, skip):
    return 'CTraceD %s %s %s %s %s %s %s' % (c_bool(skip), c_list([c_bool(b) for b in t['empties']]),
                                             c_list([c_opt(x, c_N) for x in t['calls']]), c_bool(bool(t['eof'])),
                                             c_opt(t['flush'], c_N), c_nat(t['nflush']), c_evss(t['events'], c_N))


def the_trace(case, obs):
    """which recorded run of a real/bad case is replayed through the model: (side, trace)"""
    if case['kind'] == 'bad':
        return obs['side'], obs['trace']
    if case['kind'] == 'resub':
        # one of the subscriptions whose source completed (the generator guarantees there is one)
        done = [o for o in obs['subs'] if 'trace' in o]
        return case['side'], done[case['iseed'] % len(done)]['trace']
    if case.get('scale'):
        # the many-chunk side if it is short enough for the model evaluation, otherwise the other side
        c, d = ('c', obs['ctrace']), ('d', obs['runs'][-1]['trace'])
        first, second = (c, d) if (case['scale'] == 'many-chunks-in' or
                                   (case['scale'] != 'many-chunks-compressed' and case['data']['seed'] % 2)) else (d, c)
        if len(first[1]['events']) <= case.get('model_max', 4200) or len(second[1]['events']) >= len(first[1]['events']):
            return first
        return second
    if case['mode'] in ('roundtrip', 'trunc_some'):
        # alternate between the compress trace and a decompress trace
        if case['data']['seed'] % 3 == 0:
            return 'c', obs['ctrace']
        return 'd', obs['runs'][case['data']['seed'] % len(obs['runs'])]['trace']
    if obs.get('sample'):
        return 'd', obs['sample']['trace']
    return 'c', obs['ctrace']


def coq_term(case, obs):
    if 'raised' in obs:
        return 'CRaised'
    if case['kind'] == 'zscan':
        zl = lambda l: '[' + '; '.join(str(x) for x in l) + ']%Z' if l else '(@nil Z)'
        return 'CZstdScan %s [%s] %s' % (zl(obs['stream']), '; '.join('%d%%nat' % c for c in obs['cuts']), zl(obs['trail']))
    if case['kind'] == 'gunzip':
        zl = lambda l: '[' + '; '.join(str(x) for x in l) + ']%Z' if l else '(@nil Z)'
        return 'CGunzip %s %s [%s] [%s]' % (
            zl(obs['stream']), zl(obs['payload']), '; '.join('%d%%nat' % c for c in obs['cuts']),
            '; '.join('(%s, %d%%N, %s)' % (zl(m[0]), m[1], zl(m[2])) for m in obs['mutants']))
    skip = case['codec'] == 'zstd'
    if case['kind'] == 'toy':
        if obs['csub'] != [[]] or obs['dsub'] != [[]]:
            return 'CRaised'
        return 'CToy %s %s %s %s %s %s' % (c_bool(skip), c_bool(skip), c_list([c_nlist(c) for c in case['chunks']]),
                                           c_evss(obs['cobs'], c_nlist), c_list([c_nlist(c) for c in case['rechunk']]),
                                           c_evss(obs['dobs'], c_nlist))
    side, t = the_trace(case, obs)
    if t['sub']:
        return 'CRaised'
    return c_trace_c(t) if side == 'c' else c_trace_d(t, skip)


def coq_model_expr(case):
    if case['kind'] == 'zscan':
        return 'zstd_scan (zstd_raw [104; 105]%Z)'
    if case['kind'] == 'gunzip':
        return 'gunzip (gzip_stored [104; 105]%Z)'
    skip = c_bool(case['codec'] == 'zstd')
    if case['kind'] == 'toy':
        return '(toy_compress %s, toy_decompress %s %s %s)' % (
            c_list([c_nlist(c) for c in case['chunks']]), skip, skip, c_list([c_nlist(c) for c in case['rechunk']]))
    # real codecs are not modelled: show what the repaired wrapper does with a decoder that has reached eof
    # when a trailing empty chunk arrives (the shape of defect h)
    return 'toy_decompress %s %s [[1;7;0]%%N; []]' % (skip, skip)


def neighbours(case, rng):
    out = []
    if case['kind'] == 'resub':
        for _ in range(20):
            c = gen_resub(rng, 'quick')
            c['codec'], c['share'] = case['codec'], case['share']
            out.append(c)
        return out
    for _ in range(10):
        c = gen_real(rng, 'quick', mode='roundtrip', big=False)
        c['codec'] = case['codec']
        out.append(c)
    return out


CLAIM = {
    'text': 'PARTIAL. The zlib COMPRESSOR and the content of zstd compressed blocks are not modelled; the zstd frame structure is (ZstdFrame.v: complete / incomplete / invalid decided from headers and block headers, compared with the real library every run; a complete frame stays complete, a strict prefix is incomplete; C16_zstd_*); gzip DEcompression is (Inflate.v: full inflate with '
            'stored / fixed / dynamic Huffman blocks inside the gzip container, CRC-32 and ISIZE checked; three-valued answer Done / '
            'NeedMore / Bad), compared with the real zlib on every run, and for it are proved: a complete stream stays complete '
            'under appended bytes, NO strict prefix of a complete stream is complete (it is NeedMore, never Bad) - truncation is '
            'never mistaken for completion, for every stream the model accepts -, Done implies a matching trailer, the stored-block '
            'encoder round-trips every byte list, and H1-H3 hold for the codec built from the model (C16_gzip_model_*: round trip '
            'under any re-chunking and truncation => Error, without premises). Proved in Coq (closed under the global '
            'context): the rxsci wrapper logic of z.py/zstd.py for ANY codec object - every compress() output is '
            'forwarded while its chunk is pushed, flush() is called exactly once at completion and followed by '
            'Completed; decompress emits Completed iff no decoder call raised, the decoder reports eof at completion '
            'and flush succeeds, and Error otherwise (exactly one of the two); zstd.py as repaired hands no empty '
            'chunk to the decoder. From these, for every codec satisfying the named hypotheses H1 (decoder behaviour '
            'depends only on the concatenation fed, on prefixes of encoder output), H2 (decode(encode whole) = whole '
            'with eof) and H3 (no eof on a strict prefix): decompress(rechunk(compress(chunks))) delivers concat '
            'chunks and completes for EVERY re-chunking incl. empty chunks, and every truncation, however chunked, '
            'ends in Error, never Completed. H1-H3 are PROVED for an executable toy codec (so the premises are '
            'satisfiable) and the unrepaired zstd wrapper is refuted on it. H1-H3 for zlib/zstandard are NOT proved: '
            'they are checked by differential TESTING in this check (round trips under re-chunking with chunk sizes '
            '0..several internal buffers, compressible and incompressible data, reference decoders gzip/zlib/'
            'zstandard on the compressed stream, all truncation points of short streams; and at scale: streams of 1024 '
            'to 20000 chunks (thorough: to 100000) into each of the four wrappers, chunks of 128 KiB to 3 MiB, '
            'incompressible payloads of several MiB, extremely redundant payloads of 3-10 MiB (thorough: to 64 MiB) '
            'whose compressed stream is handed to decompress in pieces that each inflate by several MiB - every '
            'compressed result must be a valid standalone file for the reference decoders and round-trip; recorded '
            'runs of more than 4200 (quick tier) / 8250 (thorough) chunks are judged by this test only, not replayed through the model). The wrapper model is tied '
            'to the code by running the real wrappers over a Python twin of the toy codec (event-level comparison in '
            'Coq) and by replaying the recorded calls of the real codec objects through the model.',
    'note': 'Trusted: Coq kernel+VM; hand-written model of the four wrappers (tied by correspondence only); zlib, '
            'zstandard, gzip module (not modelled - hypotheses H1-H3, tested not proved); Python twin of the toy codec '
            'and the monkey-patching/recording proxy in the harness process; RxPY synchronous delivery and '
            'stop-after-terminal are modelled, not verified. "Valid standalone gzip/zstd file" is a test against the '
            'reference decoders only.',
    'technique': 'Coq proof over an abstract codec (Section variables + named hypotheses), instantiated by a proved toy '
                 'codec; vm_compute correspondence (toy twin, replay of recorded codec calls); differential testing of '
                 'the real libraries',
}
