"""C08 - tee_map equals running each branch independently and joining the results."""
import json
from harness import muxlib, muxgen, muxprop
from harness.muxprop import *  # noqa: F401,F403
from harness.pyval import enc, dec

PID = 'C08'
RULE = ('tee_map with 1-4 branches of random pipelines (streaming, filtering, reducing, nested windows, nested tee), the '
        'three join modes, on 1-3 interleaved keys with reused slots, under group_by/roll/split, and on plain observables. '
        'Oracle: every branch pipeline is ALSO run alone on the same trace; the join specification (merge / zip / '
        'combine_latest as in the property text) applied to the recorded branch outputs, per key and per source event, must '
        'equal the tee output. a scale family: 70-270 keys live at once, created in waves while join cells of earlier keys are pending (branches of different cadence). non-trivial = >= 2 branches emitting different numbers of items; distinct = distinct JSON')
ASSUMPTIONS = ['branches emit no unhandled mux error (errors_handled)']


def generate(rng, tier):
    n = {'quick': 400, 'thorough': 10000, 'search': 300}[tier]
    cases = []
    for _ in range(n):
        cases.append(gen_case(rng, len(cases)))
    for _ in range({'quick': 8, 'thorough': 200, 'search': 3}[tier]):
        # scale: tens to hundreds of simultaneously live keys (queue growth, cell indices key[0]*n+i beyond word and
        # block boundaries), branches of different cadence so that cells stay pending while other keys are created
        brs = rng.choice([[[['first']], [['last']], [['count', 1]]], [[['count', 0]], [['lag', 1]]],
                          [[['identity']], [['scan', ['add'], muxgen.ev(0), 0, None]], [['first']]],
                          [[['take', 1]], [['count', 1]], [['identity']], [['last']]]])
        mode = rng.choice(['zip', 'zip', 'combine_latest', 'merge'])
        cases.append({'ast': [['tee', mode, brs]], 'trace': muxgen.gen_trace_scale(rng, rng.choice(['many', 'many', 'long2'])),
                      'mode': mode, 'branches': brs, 'ctx': 'top', 'scale': True})
    # rs.math.dist.describe: tee_map(min, max, mean, stddev, quantiles...) over the streaming distribution - it must be
    # the zip of those operators run independently on the same stream (consecutive items of one key re-emit the SAME
    # Distogram object, mutated in place)
    for _ in range({'quick': 6, 'thorough': 120, 'search': 2}[tier]):
        bins = rng.choice([5, 20, 100])
        qs = rng.choice([[0.25, 0.5, 0.75], [0.5], [0.1, 0.9], []])
        brs = [[['dist_metric', bins, m]] for m in ('min', 'max', 'mean', 'stddev')] + [[['dist_metric', bins, 'quantile', q]] for q in qs]
        plain = rng.random() < 0.3
        trace = muxgen.gen_trace(rng, muxgen.INT, nkeys=rng.choice([1, 2, 3]), max_items=rng.choice([None, 8]))
        cases.append({'ast': [['dist_describe', bins, qs]], 'trace': trace, 'mode': 'zip', 'branches': brs,
                      'ctx': 'plain' if plain else 'top', 'dist': True})
    return cases


def gen_case(rng, index=0, plain=None):
    if True:
        plain = (rng.random() < 0.25) if plain is None else plain
        g = muxgen.Gen(rng, heads=not plain, plain_ok=plain, max_depth=3)
        g.no_early = plain and index % 2 == 0     # inside the timed plain model of tee_map (no take/first)
        nb = rng.choice([1, 2, 2, 3, 3, 4])
        brs = []
        for _ in range(nb):
            b, _ = g.pipe(muxgen.INT, 1, rng.randint(0, 3), in_tee=True)
            g.taken = False
            brs.append(b)
        mode = rng.choice(['zip', 'merge', 'combine_latest'])
        core = [['tee', mode, brs]]
        ctx = 'plain' if plain else rng.choice(['top', 'top', 'top', 'group', 'roll', 'split'])
        ast = {'group': [['group', ['mod', 2], core]], 'roll': [['roll', rng.randint(1, 4), rng.randint(1, 3), core]],
               'split': [['split', ['floordiv', 4], core]]}.get(ctx, core)
        trace = muxgen.gen_trace(rng, muxgen.INT, nkeys=rng.choice([1, 2, 3]))
        return {'ast': ast, 'trace': trace, 'mode': mode, 'branches': brs, 'ctx': ctx}


def run_impl(case):
    if case['ctx'] == 'plain':
        lts = muxgen.lifetimes_of(case['trace'])
        items = lts[0][1] if lts else []
        obs = {'plain': safe(lambda: muxlib.run_plain(case['ast'], items)), 'items': items,
               'alone': [safe(lambda b=b: muxlib.run_plain(b, items)) for b in case['branches']]}
        # the model comparison uses the mux run of the same tee on that single key
        obs.update(muxlib.run_mux(case['ast'], muxprop.single_trace(items)))
        obs['trace'] = muxprop.single_trace(items)
        return obs
    obs = muxlib.run_mux(case['ast'], case['trace'])
    if case['ctx'] == 'top':
        obs['alone'] = [safe(lambda b=b: muxlib.run_mux(b, case['trace'])['steps']) for b in case['branches']]
    return obs


def safe(f):
    try:
        return f()
    except Exception as e:
        return {'raised': type(e).__name__}


def join_spec(mode, n, tagged, cells):
    """tagged: [(branch index, item)] in arrival order; cells: per-key join state (mutated). Returns emitted items."""
    out = []
    for i, v in tagged:
        if mode == 'merge':
            out.append(v)
            continue
        cells[i] = ('some', v)
        if mode == 'zip':
            if all(c is not None for c in cells):
                out.append(['t', [c[1] for c in cells]])
                for j in range(n):
                    cells[j] = None
        else:
            out.append(['t', [c[1] if c is not None else ['n'] for c in cells]])
    return out


def oracle(case, obs):
    if 'raised' in obs:
        return None
    mode, n = case['mode'], len(case['branches'])
    if case['ctx'] == 'plain':
        p = obs['plain']
        if 'raised' in p or any('raised' in a for a in obs['alone']):
            return None
        if any(a['end'] != 'completed' for a in obs['alone']) or p['end'] != 'completed':
            return None
        cells = [None] * n
        want = []
        # per source item: outputs of branch 0 first, then branch 1, ... ; then what each branch emits at completion
        for step in list(range(len(obs['items']))) + ['final']:
            tagged = []
            for bi, a in enumerate(obs['alone']):
                outs = a['final'] if step == 'final' else a['steps'][step]
                tagged += [(bi, v) for v in outs]
            want += join_spec(mode, n, tagged, cells)
        if p['items'] != want:
            return {'sig': 'tee:join-plain', 'what': 'plain tee_map(%s) on %s: emitted %s, join of the branches run alone %s'
                    % (mode, muxprop.short(obs['items']), muxprop.short(p['items']), muxprop.short(want))}
        return None
    if case['ctx'] != 'top' or muxprop.has_fatal(obs['steps']):
        return None
    alone = obs['alone']
    if any(isinstance(a, dict) for a in alone) or any(muxprop.has_fatal(a) for a in alone):
        return None
    cells = {}
    for p, e in enumerate(case['trace']):
        k = tuple(e[1])
        if e[0] == 'c':
            cells[k] = [None] * n
        tagged = []
        for bi, a in enumerate(alone):
            for o in a[p]:
                if o[0] == 'n':
                    tagged.append((bi, o[2]))
                elif o[0] == 'e':
                    return None
        want = join_spec(mode, n, tagged, cells[k])
        got = [o[2] for o in obs['steps'][p] if o[0] == 'n']
        if got != want:
            return {'sig': 'tee:join', 'what': 'tee_map(%s), %d branches, event %d (%s) of key %s: emitted %s, join of the '
                    'branches run alone %s' % (mode, n, p, e[0], list(k), muxprop.short(got), muxprop.short(want))}
    return None


def nontrivial(case, obs):
    a = obs.get('alone')
    if not a or any(isinstance(x, dict) for x in a) or len(a) < 2:
        return False
    if case['ctx'] == 'plain':
        return len(set(len(x['items']) for x in a)) >= 2
    return len(set(sum(1 for st in x for o in st if o[0] == 'n') for x in a)) >= 2


def describe(cases, obs):
    m, c, nb = {}, {}, {}
    for cs in cases:
        m[cs['mode']] = m.get(cs['mode'], 0) + 1
        c[cs['ctx']] = c.get(cs['ctx'], 0) + 1
        nb[str(len(cs['branches']))] = nb.get(str(len(cs['branches'])), 0) + 1
    return {'join_modes': m, 'contexts': c, 'branches': nb, 'operator_histogram': muxprop.op_histogram(cases)}


def coq_term(case, obs):
    if case['ctx'] == 'plain':
        if 'raised' in obs:
            return 'MCRaised'
        main = muxlib.coq_muxcase(case['ast'], obs['trace'], obs)
        p = obs.get('plain')
        if not main.startswith('MC ') or not isinstance(p, dict) or 'raised' in p or p.get('end') != 'completed' or p.get('sub'):
            return main
        # the timed plain model of tee_map (Mux/PlainTimed.v) against the real plain run, step by step
        from harness.pyval import coq_val
        cl = lambda l: '[%s]' % '; '.join(coq_val(x) for x in l)
        run = '(%s, [%s], %s)' % (cl(obs['items']), '; '.join(cl(st) for st in p['steps']), cl(p['final']))
        return 'MCAnd (%s) (MCPlainT %s [%s])' % (main, muxlib.coq_pipe(case['ast']), run)
    return muxlib.coq_muxcase(case['ast'], case['trace'], obs)


CLAIM = {
    'text': "Theorems (Coq) for every list of n >= 1 branches (arbitrary refined machines), the three joins and every input: slot-level tee (shared queue, cells at key[0]*n+i) refines the per-key product with n private cells; inside the tee every branch evolves exactly as when run alone; the timed tee output is the join folded over source events (branch order within an event) of the independently run branches' outputs, and at completion the join of their completion outputs; the joins are characterised per mode; tee_map on a PLAIN observable, written as list functions (the join folded over the source items of the branches' own timed plain outputs), equals the per-key local machine of the multiplexed tee_map step by step (C08_plain_tee_equals_keyed_tee), and the real plain tee runs are compared with that list semantics step by step. Oracle: every branch is ALSO run alone on the real code and joined by a Python join spec, per key and per source event; plain tee included.",
    'note': 'Trusted: Coq kernel+VM; hand-written model; branches must not leak unhandled mux errors upstream of the tee (errors_handled).',
    'technique': 'Coq proof (forward-simulation refinement of a slot-level model by per-key local machines, list-level induction) + vm_compute correspondence against /repo + model-free oracle',
}
