"""C19 - JSON-lines dump/load round-trips objects, with or without compression
(rxsci/container/json.py over data/codec.py, framing/line.py, compression/*.py, io/file.py).
PARTIAL: orjson, the CPython text codecs, zlib and zstandard are not modelled.

Cases
  small  a few small objects written by the REAL dump_to_file and read by the REAL load_from_file (file
         under /verif/work/C19/).  Taps (monkey-patched in this process only, around the run): the text
         chunks entering line.unframe and the lines it emits per chunk; the items of json.dump.  The Coq
         model (Framing.Line on the actual text chunks, json_load with orjson's answers as a table)
         recomputes the lines per chunk and the delivered objects.
  hand   a hand-written file: blank lines, top-level null, invalid JSON lines, \\r\\n, no final newline,
         optional skip / ignore_error (model comparison only, no oracle).
  big    files of 0 .. 5 x 64 KiB (thorough: 1.5 MB): multi-byte characters, escapes and the line
         terminator placed across the 64 KiB read boundary; compared by lengths (sizes of the chunks
         file.read delivers, length of every line unframe emits per chunk, number of objects) with the
         length-level model evaluated in Coq, and by equality of the objects in Python.
  raw    (a field of any of the above, case['raw'] = {seed, hi, full}): dump_to_file / load_from_file get a
         custom open_obj whose reader is an io.RawIOBase stream that legitimately returns SHORT reads: the
         k-th read(n) delivers min(n, cap_k, bytes left) bytes, cap_k drawn from random.Random(seed) - uniform
         in 1..hi, or unbounded with probability `full`; never 0 bytes before the end of the data.  The caps of
         the successive calls are recorded by the stream; on big cases they go to the Coq model (raw_sizes),
         on small cases the text chunks that result go to Framing.Line in full.
  redundant  (a flavour of big): 1.5 - 3 MiB (thorough: up to 8 MiB) of telemetry-like records that hardly
         change from one to the next, so that gzip / zstd shrink the file by a factor > 30 and ONE <= 64 KiB
         piece of the compressed file inflates to more than 1 MiB; compression None / gzip / zstd.
  scale  (flavours longlines / huge of big, case['scale'] = True; same observation, model term and oracle as big):
         longlines - 2-5 objects per file whose JSON line is 200 KiB .. 2 MiB (thorough: up to 4 MiB) of payload
         characters, i.e. 3 .. 30 and more 64 KiB read chunks EACH, in DEcreasing / mixed (at least one descent) /
         increasing order or all of one length over different alphabets, 0-3 small objects in between; the content
         of every long string depends on the position and is nowhere periodic (random hex / base64, a decimal
         arithmetic progression, numbered blocks of 1-4-byte characters, escapes, quotes, NUL); every compression
         setting, builtin file | custom open_obj | short-read raw stream (thorough: also utf-16 / utf-32).
         huge - 20-34 MiB (thorough 24-96 MiB) of near-identical records (lines of 10 KiB .. 1 MiB that differ by a
         running number and the place of one marker) which gzip shrinks by a factor > 170 and zstd by hundreds to
         thousands: the file is a few KB .. two read chunks and ONE <= 64 KiB piece of it inflates to more than
         8 MiB (up to tens of MiB) of text; gzip and zstd (thorough: also 10-20 MiB uncompressed = hundreds of read
         chunks), also through a raw stream handing out pieces of <= 20000 bytes / <= 64 KiB.
  doc    lines=False: the file holds ONE JSON document - one object written by the REAL dump_to_file (a single
         line with its newline), or written by the harness with json.dumps (compact or indent=1, i.e. over many
         lines; ensure_ascii or not; with or without a trailing newline) and compressed by the gzip module /
         zstandard - of 2 bytes .. several 64 KiB read chunks ON DISK (gzip / zstd: payloads of random base64 /
         hex / float digits so that the COMPRESSED file exceeds 64 KiB too; None/utf-8: files of exactly
         k x 64 KiB - 1, + 0, + 1 bytes), builtin file | custom open_obj | short-read raw stream (read(-1) =
         readall()).  load_from_file(lines=False) must deliver exactly [the object].  Taps: the chunks
         file.read delivers, the text items entering json.load.  Coq: file.read(size=-1) = the whole file in
         one chunk (doc_read_sizes), readall over the recorded caps, load on the text items (by key).
Oracle (model-free): the objects read back == the objects written (type-exact, floats bit-exact), in order,
one item per object, stream completes.  (Whether the file content is the concatenation of orjson lines after
reference decompression is recorded in the evidence distribution, not judged.)"""
import base64
import contextlib
import gzip
import io
import json
import os
import random

import orjson
import zstandard

from harness import core
from harness.core import c_list, c_nlist, c_zlist, c_N, c_nat, c_bool, c_opt, c_str

PID = 'C19'
RULE = ('small: 0-6 objects (nested dicts/lists, 64-bit ints, floats incl. -0.0/1e300/5e-324, bools, nulls inside, '
        'strings with \\n, \\r, quotes, backslashes, NUL, 2/3/4-byte characters) x compression None/gzip/zstd x encoding '
        'utf-8 (mostly)/utf-16/utf-32 x skip x path | custom open_obj; hand: hand-written files with blank lines, null '
        'lines, invalid lines, CRLF, missing final newline, ignore_error; big: file sizes 0..5x64 KiB (thorough up to '
        '1.5 MB) with a 2/3/4-byte character, an escape sequence, a quote or the line terminator placed at every '
        'offset across a 64 KiB boundary (uncompressed utf-8), otherwise random content; raw: about a quarter of the '
        'small/big cases (15% of hand) plus a dedicated family (every compression x cap range 1..hi, hi in 1..100000) use '
        'a custom open_obj whose reader is an io.RawIOBase stream returning SHORT reads - the k-th read(n) delivers '
        'min(n, cap_k, bytes left) >= 1 bytes, cap_k from random.Random(case.raw.seed), b"" only at the end of the '
        'data - so that file.read delivers chunks of 1 byte .. 64 KiB cutting characters, escapes, compressed frames '
        'anywhere; redundant: 1.5-3 MiB (thorough up to 8 MiB) of telemetry-like records that compress by a factor '
        '> 30, compression None/gzip/zstd, so that one <= 64 KiB piece of the compressed file inflates past 1 MiB '
        '(also through a raw stream); scale family: (a) files with 2-5 objects whose line is 200 KiB - 2 MiB '
        '(thorough up to 4 MiB; log-uniform) = 3 .. 30+ read chunks each, in decreasing | mixed | increasing order | '
        'equal lengths over different alphabets, 0-3 small objects between them, position-dependent non-periodic '
        'content (random hex | base64 | decimal progression | numbered blocks of multi-byte characters and escapes), '
        'x compression None/gzip/zstd x builtin file | open_obj | short-read raw stream (quick: 2 per compression + 3; '
        'thorough: 11 per compression + 5, utf-16/32 in a quarter); (b) 20-34 MiB (thorough 24-96 MiB) of '
        'near-identical records (lines of 10 KiB - 1 MiB, log-uniform; 7 padding units incl. one with escapes, thorough 3 '
        'more with 2/3/4-byte characters) that gzip shrinks > 170 x and zstd hundreds to thousands x, so that ONE <= 64 KiB piece '
        'of the gzip / zstd file inflates to > 8 MiB of text (quick: 2 gzip + 2 zstd + 1 gzip through a raw stream; '
        'thorough: 6 + 6 + 4 raw + 1 uncompressed file of 10-20 MiB); doc (lines=False): ONE document per file - written by dump_to_file (single '
        'line + newline) or by the harness with json.dumps (compact | indent=1, ensure_ascii | not, trailing newline | '
        'none; compressed with the gzip module / zstandard) - flavours rows (floats, hex tags) / blob (random base64) / '
        'nested / unicode / pad, text sizes 2 bytes .. 12 x 64 KiB so that the file ON DISK spans 1 .. 7 read chunks for '
        'every compression setting (poorly compressible payloads for gzip/zstd), pad: uncompressed utf-8 files of '
        'exactly k x 64 KiB - 1 | + 0 | + 1 bytes; x encoding utf-8 (mostly)/utf-16/utf-32 x ignore_error x builtin '
        'file | custom open_obj | short-read raw stream (read(-1) = readall() over caps 1..hi). non-trivial = a round-trip case '
        'with >= 2 objects whose text contains a non-ASCII character or an escaped newline, or a big case whose '
        'file spans >= 2 read chunks or where one read chunk gave > 1 MiB of text, or a doc case whose file on disk '
        'is larger than one 64 KiB read chunk; distinct = distinct case JSON')
TRUSTED = ['orjson: MODELLED on the float-free subset of JSON (Container/Json.v: json_print / json_parse), with its premises '
           '(loads(dumps o) = o, dumps o non-empty, no raw newline, no control byte, valid UTF-8) PROVED for the model and the '
           'model compared with the real orjson on every run (the text rxsci json.dump emits for generated values = json_print; '
           'json_parse = orjson.loads on noisy and mutated texts, rejections included); a SECOND model (Container/JsonFloat.v over FloatText.v) adds finite binary64 floats: '
           'orjson float layout (shortest round-trip digits, fixed notation for -5 < digits + exponent <= 16, else d[.ddd]e+-x) and a correctly '
           'rounded number parser (overflow to infinity = rejection), same theorems, compared with orjson.dumps / loads on every run (kind jfloat); '
           'outside both models: nan / inf (orjson writes null), ints beyond orjson range on dumps, orjson nesting limits (254 / 1024); minimality of '
           'the digit string is tied to orjson by the comparison only',
           'NOT modelled: CPython incremental '
           'text codecs (premise: decode of any re-chunking of encode = same text; C17), zlib/zstandard (premise: '
           'decompress of any re-chunking of compress = same bytes; C16). They are hypotheses of the composition theorem, '
           'tied to the libraries by this differential test only',
           'reference decoders used by the oracle: gzip module, zstandard, orjson itself',
           'monkey-patched taps on rxsci.framing.line.unframe and rxsci.io.file.read (doc cases: also on '
           'rxsci.container.json.load, to see the text items that enter it) in the harness process',
           'doc cases: the documents the harness writes itself are serialised by the json module of CPython and '
           'compressed by the gzip module / zstandard one-shot compressors; read(-1) on the raw stream of the harness is '
           'io.RawIOBase.readall() of CPython (read(io.DEFAULT_BUFFER_SIZE) until an empty read) - modelled, not verified',
           'modelled not verified: file objects (append / sequential read; a raw stream delivers min(size, cap, bytes '
           'left) per read call, the caps being recorded by the harness stream itself), RxPY synchronous delivery, '
           'ops.skip/map/filter',
           'the raw stream of the harness (ShortReader, an io.RawIOBase subclass over the bytes of the file) stands for '
           'pipes / sockets / remote stores; only the READ side returns short counts - the writer given to '
           'dump_to_file is the builtin buffered file']
ASSUMPTIONS = ['objects are JSON-representable dicts (str keys, ints in the 64-bit range, finite floats, valid Unicode)',
               'lines=True, newline="\\n"; lines=False only for a file that holds exactly one JSON document (skip=0)',
               'a file object returned by open_obj delivers b"" only at the end of the data (a non-blocking stream '
               'returning None or b"" early is outside the property) and its write() accepts the whole chunk',
               'zstd.py as repaired (no effect on this property: file.read delivers no '
               'empty chunk)']
SHARD = 60
COQ_TARGETS = ['theories/Container/C19Corr.vo']

WORKDIR = os.path.join(core.WORK, PID)
READ = 64 * 1024
STR = ['', 'a', 'line\nbreak', '\r', '\r\n', 'q"uote', 'back\\slash', '\\n', '\x00', 'é', '€', '\U0001f600',
       'tab\t', ' ', 'x' * 30, '{"a":1}', 'null', ' ', '\n\n', 'ü\U0001f600\n"']
INTS = [0, 1, -1, 2 ** 31, -2 ** 31, 2 ** 53 + 1, 2 ** 63 - 1, -2 ** 63, 2 ** 64 - 1, 10 ** 15]
FLOATS = [0.0, -0.0, 1.5, 0.1, 1e300, -1e-300, 5e-324, 1.7976931348623157e308, 3.141592653589793, 1e22, 123456789.125]


def gen_value(rng, depth):
    r = rng.random()
    if depth <= 0 or r < 0.55:
        k = rng.randrange(6)
        return (rng.choice(STR), rng.choice(INTS), rng.choice(FLOATS), rng.random() < 0.5, None,
                rng.randrange(-1000, 1000))[k]
    if r < 0.78:
        return [gen_value(rng, depth - 1) for _ in range(rng.choice([0, 1, 2, 3]))]
    return gen_obj(rng, depth - 1)


def gen_obj(rng, depth=2):
    return {rng.choice(['a', 'b', 'k\n', 'é', 'q"', '', 'long key ' * 3, 'z']) + str(i): gen_value(rng, depth)
            for i in range(rng.choice([0, 1, 2, 3, 4]))}


def canon(v):
    """type-exact, bit-exact canonical form (stricter than ==); dict key order ignored as == does"""
    if isinstance(v, float):
        return ('f', v.hex())
    if isinstance(v, dict):
        return ('d', tuple(sorted((k, canon(x)) for k, x in v.items())))
    if isinstance(v, list):
        return ('l', tuple(canon(x) for x in v))
    return (type(v).__name__, v)


def big_objs(spec):
    """deterministic object list for a big case: total utf-8 size about spec['size']"""
    if spec['flavour'] in ('longlines', 'huge'):
        return scale_objs(spec)
    rng = random.Random(spec['seed'])
    objs, size = [], 0
    st = spec.get('straddle')
    if st:
        ch = {'emoji': '\U0001f600', 'e3': '€', 'e2': 'é', 'escape': '\n', 'quote': '"'}.get(st['what'])
        target = READ * st['j']
        if ch is not None:
            # '{"pad":"' + p*'x' + '"}\n' is p + 11 bytes; then '{"s":"' is 6 bytes; ch starts at p + 17
            p = target - st['d'] - 17
            objs += [{'pad': 'x' * p}, {'s': ch + 'tail' + ch}]
        elif st['what'] == 'nl_last':          # the newline of line 1 is the last byte of the read chunk
            objs += [{'pad': 'x' * (target - 11)}, {'s': 'after'}]
        else:                                    # nl_first: the newline is the first byte of the next chunk
            objs += [{'pad': 'x' * (target - 10)}, {'s': 'after'}]
        size = sum(len(orjson.dumps(o)) + 1 for o in objs)
    flavour = spec['flavour']
    while size < spec['size']:
        if flavour == 'ascii':
            o = {'id': len(objs), 'v': 'abc' * rng.randrange(40), 'n': rng.choice(INTS), 'f': rng.choice(FLOATS)}
        elif flavour == 'unicode':
            o = {'id': len(objs), 'é': ''.join(rng.choice(['é', '€', '\U0001f600', 'a', '\n', '"', '\\'])
                                               for _ in range(rng.randrange(60)))}
        elif flavour == 'long':
            o = {'id': len(objs), 'blob': rng.choice(['z', 'é', '\U0001f600']) * rng.choice([10, 5000, 70000])}
        elif flavour == 'redundant':         # telemetry-like: compresses by a factor > 30
            o = {'unit': 'thermo-é-中-\U0001f321', 'status': rng.choice(['nominal', 'nominal', 'nominal', 'degraded']),
                 'note': 'all "good"\nno alarm', 'readings': [0.0, -0.0, 21.5, 21.5, None, True, {'cal': [1, 2, 3]}],
                 'limits': {'lo': -40.0, 'hi': 125.0, 'i64': 2 ** 63 - 1}, 'seq': len(objs)}
        else:
            o = gen_obj(rng, 3)
            o['id'] = len(objs)
        objs.append(o)
        size += len(orjson.dumps(o)) + 1
    return objs


# ---- scale: lines far longer than the read chunk; files of tens of MiB that shrink to one read chunk -------
KIB = 1024
LONG_ALPHAS = ['hex', 'b64', 'uni', 'count']
LONG_UNI = ['é', '€', '\U0001f600', 'a', 'b', ' ', '\n', '"', '\\', '中', '\x00', '\t', 'ü', '0', 'Z']
HUGE_UNITS = ['0', '0,', 'ok;', '21.5 ', 'nominal|', '0000000000000001', 'all "good"\n', 'é0', '中-', '\U0001f321.']


def long_payload(rng, n, alpha):
    """a string of n characters whose content depends on the position and is nowhere periodic"""
    if alpha == 'hex':         # keeps about 1/2 of its size under gzip / zstd
        return '%0*x' % (n, rng.getrandbits(4 * n))
    if alpha == 'b64':         # keeps about 3/4
        return base64.b64encode(rng.randbytes(n * 3 // 4 + 3)).decode()[:n]
    if alpha == 'count':       # an arithmetic progression in decimal: shrinks by a factor 3-5, still no two places alike
        start, step = rng.randrange(10 ** 9), rng.randrange(1, 1000)
        return ','.join(str(start + i * step) for i in range(n // 10 + 2))[:n]
    # uni: 1/2/3/4-byte characters, escapes, quotes, NUL; blocks from a pool, each followed by its running number
    pool = [''.join(rng.choice(LONG_UNI) for _ in range(rng.randrange(20, 200))) for _ in range(61)]
    parts, size = [], 0
    while size < n:
        parts.append('%s%d' % (rng.choice(pool), len(parts)))
        size += len(parts[-1])
    return ''.join(parts)[:n]


def scale_objs(spec):
    """deterministic object list of a scale case (flavour longlines | huge), from spec['seed'] only"""
    rng = random.Random(spec['seed'])
    objs = []

    def smalls(n):
        for _ in range(n):
            k = len(objs)
            objs.append({'id': k, 'name': 'small-%d' % k, 'v': [k, k / 2, None, True], 'é': rng.choice(STR)})
    if spec['flavour'] == 'longlines':
        # several objects whose line is far longer than the 64 KiB read chunk, in the order given by the case
        for n, alpha in spec['lines']:
            smalls(rng.randrange(spec['smalls'] + 1))
            objs.append({'id': len(objs), 'name': 'long-%d' % len(objs), 'payload': long_payload(rng, n, alpha),
                         'after': [n, -0.0, None]})
        smalls(rng.randrange(spec['smalls'] + 1))
        return objs
    # huge: near-identical telemetry-like records of about spec['line'] bytes each, spec['size'] bytes in all; what
    # differs from one record to the next is the running number and the place of one marker inside the padding
    unit = HUGE_UNITS[spec['unit']]
    reps = max(1, spec['line'] // len(unit.encode('utf-8')))
    pad = unit * reps
    size = 0
    while size < spec['size']:
        k = len(objs)
        at = (k * 7919 + spec['seed']) % (len(pad) + 1)
        o = {'seq': k, 'sensor': 's-%d' % (k % 5), 'status': 'ok', 'value': 21.5, 'limits': {'lo': -40.0, 'i64': 2 ** 63 - 1},
             'mask': pad[:at] + '<%d>' % k + pad[at:], 'flags': [0, 0, 0, None, True, -0.0]}
        objs.append(o)
        size += len(o['mask']) * len(unit.encode('utf-8')) // len(unit) + 120
    objs.append({'seq': len(objs), 'sensor': 'last', 'status': None})
    return objs


# ---------------------------------------------------------------------------------------------
MIB = 1 << 20
NOCAP = 1 << 30          # a read call that is not capped: the stream fills the request
RAW_HI_SMALL = [1, 2, 3, 7, 32, 200, 5000]
RAW_HI_BIG = [700, 4096, 20000, 50000, READ - 1, READ, 100000]


def gen_raw(rng, his, p):
    """with probability p: the spec of a raw stream that returns short reads (every choice from rng)"""
    spec = {'seed': rng.randrange(10 ** 6), 'hi': rng.choice(his), 'full': rng.choice([0.0, 0.0, 0.3])}
    return spec if rng.random() < p else None


def gen_small(rng):
    n = rng.choice([0, 1, 2, 2, 3, 4, 6])
    c = {'kind': 'small', 'objs': [gen_obj(rng, rng.choice([0, 1, 2])) for _ in range(n)],
         'comp': rng.choice([None, None, 'gzip', 'zstd']), 'enc': rng.choice(['utf-8'] * 6 + ['utf-16', 'utf-32']),
         'skip': rng.choice([0, 0, 0, 0, 1, 2, 7]), 'open_obj': rng.random() < 0.25, 'ignore': rng.random() < 0.2}
    c['raw'] = gen_raw(rng, RAW_HI_SMALL, 0.25)
    c['open_obj'] = c['open_obj'] or c['raw'] is not None
    return c


HAND = ['{"a":1}', '{}', '', '', 'null', '{bad', ' ', '{"s":"x\\ny"}', '[1,2]', '"str"', '12', '{"a":1}\r', 'true',
        '{"é":"\U0001f600"}', '\t', '{"a":1}{"b":2}']


def gen_hand(rng):
    lines = [rng.choice(HAND) for _ in range(rng.choice([0, 1, 2, 3, 5, 8]))]
    text = '\n'.join(lines) + rng.choice(['\n', '\n', '', '\n\n'])
    c = {'kind': 'hand', 'text': text, 'comp': rng.choice([None, None, 'gzip', 'zstd']), 'enc': 'utf-8',
         'skip': rng.choice([0, 0, 1, 2, 3]), 'open_obj': False, 'ignore': rng.random() < 0.4}
    c['raw'] = gen_raw(rng, RAW_HI_SMALL, 0.15)
    c['open_obj'] = c['raw'] is not None
    return c


def gen_big(rng, tier, straddle=None, comp='?', size=None, raw='?'):
    top = 5 * READ if tier != 'thorough' else rng.choice([5 * READ, 5 * READ, 1500000])
    spec = {'kind': 'big', 'seed': rng.randrange(10 ** 6),
            'size': size if size is not None else rng.choice([0, 100, READ - 50, READ, READ + 1, 2 * READ, rng.randrange(top)]),
            'flavour': rng.choice(['ascii', 'unicode', 'long', 'mixed']),
            'comp': rng.choice([None, None, 'gzip', 'zstd']) if comp == '?' else comp,
            'enc': rng.choice(['utf-8'] * 8 + ['utf-16', 'utf-32']), 'skip': rng.choice([0, 0, 0, 1, 5]),
            'open_obj': rng.random() < 0.2, 'ignore': False}
    spec['raw'] = gen_raw(rng, RAW_HI_BIG, 0.25)
    if raw != '?':
        spec['raw'] = raw
    if straddle:
        spec.update({'straddle': straddle, 'comp': None, 'enc': 'utf-8', 'raw': None})
        spec['size'] = max(spec['size'], straddle['j'] * READ + 100) if size is None else size
    spec['open_obj'] = spec['open_obj'] or spec['raw'] is not None
    return spec


def gen_redundant(rng, tier, comp, raw=None):
    """a large, highly compressible payload (> 1 MiB of text out of one <= 64 KiB piece of the compressed file)"""
    top = 3 * MIB if tier != 'thorough' else rng.choice([3 * MIB, 3 * MIB, 8 * MIB])
    c = gen_big(rng, tier, comp=comp, size=rng.randrange(3 * MIB // 2, top), raw=raw)
    c['flavour'] = 'redundant'
    if tier != 'thorough':
        c['enc'] = 'utf-8'
    return c


# ---- scale family (kind big, flavours longlines / huge) ---------------------------------------
def gen_longlines(rng, tier, comp, order, raw=None):
    """2-5 objects whose JSON line is 200 KiB .. 2 MiB (thorough: a third of the files up to 4 MiB) long (payload
    characters; log-uniform), i.e. 3 .. 30 and more read chunks each, in DEcreasing | mixed (at least one descent) | increasing order, or all of the same length but
    over different alphabets; 0..3 small objects between them; the content of every long string depends on the
    position (random hex / base64, an arithmetic progression, numbered blocks of multi-byte characters and escapes)"""
    m = rng.choice([2, 3, 3, 4] if tier != 'thorough' else [2, 3, 4, 5])
    sizes = sorted(int(200 * KIB * (10 if tier != 'thorough' else rng.choice([10, 10, 20])) ** rng.random()) for _ in range(m))
    if tier != 'thorough':            # quick: at most about 4 MiB per file
        while sum(sizes) > 4 * MIB:
            sizes[-1] = sizes[-1] * 2 // 3
            sizes.sort()
    if order == 'dec':
        sizes.reverse()
    elif order == 'mixed':
        for _ in range(50):
            rng.shuffle(sizes)
            if any(a > b for a, b in zip(sizes, sizes[1:])) and (m < 3 or any(a < b for a, b in zip(sizes, sizes[1:]))):
                break
    elif order == 'same':
        sizes = [sizes[-1] if tier == 'thorough' else min(sizes[-1], 4 * MIB // m)] * m
    alphas = [rng.choice(LONG_ALPHAS) for _ in range(m)]
    if order == 'same':               # same number of characters, different alphabets (different numbers of bytes)
        alphas = [LONG_ALPHAS[(i + rng.randrange(4)) % 4] if i else 'uni' for i in range(m)]
        rng.shuffle(alphas)
    return {'kind': 'big', 'scale': True, 'flavour': 'longlines', 'order': order, 'seed': rng.randrange(10 ** 6),
            'lines': [[n, a] for n, a in zip(sizes, alphas)], 'smalls': rng.choice([0, 1, 3]), 'size': sum(sizes),
            'comp': comp, 'enc': 'utf-8' if tier != 'thorough' else rng.choice(['utf-8'] * 6 + ['utf-16', 'utf-32']),
            'skip': rng.choice([0, 0, 0, 1]), 'open_obj': raw is not None or rng.random() < 0.2, 'ignore': False, 'raw': raw}


def gen_huge(rng, tier, comp, size=None, raw=None):
    """tens of MiB of near-identical records (lines of 10 KiB .. 1 MiB, log-uniform): gzip shrinks them by a factor of several
    hundred, zstd by thousands, so that the whole file is a few tens of KB and ONE <= 64 KiB piece of it inflates
    to more than 8 MiB of text"""
    if size is None:
        size = rng.randrange(20 * MIB, 34 * MIB) if tier != 'thorough' else rng.randrange(24 * MIB, rng.choice([48, 72, 96]) * MIB)
    return {'kind': 'big', 'scale': True, 'flavour': 'huge', 'seed': rng.randrange(10 ** 6), 'size': size,
            'line': int(10 * KIB * 100 ** rng.random()), 'unit': rng.randrange(len(HUGE_UNITS) - (3 if tier != 'thorough' else 0)),
            'comp': comp, 'enc': 'utf-8', 'skip': rng.choice([0, 0, 2]), 'open_obj': raw is not None or rng.random() < 0.2,
            'ignore': False, 'raw': raw}


def gen_scale(rng, tier):
    """the scale family (every choice from rng)"""
    if tier == 'search':
        return []
    q = tier == 'quick'
    out = []
    for comp in (None, 'gzip', 'zstd'):
        for order in (('dec', 'mixed') if q else ('dec', 'mixed') * 4 + ('inc', 'same', 'same')):
            out.append(gen_longlines(rng, tier, comp, order))
    for order in ('same', 'inc'):
        for comp in ((rng.choice([None, 'gzip', 'zstd']),) if q else ()):
            out.append(gen_longlines(rng, tier, comp, order))
    # ... and through a raw stream returning short reads
    for comp in ((rng.choice([None, 'gzip', 'zstd']),) if q else (None, 'gzip', 'zstd', 'gzip', 'zstd')):
        out.append(gen_longlines(rng, tier, comp, rng.choice(['dec', 'mixed']),
                                 raw={'seed': rng.randrange(10 ** 6), 'hi': rng.choice([20000, READ, 100000]), 'full': 0.3}))
    for comp in ('gzip', 'zstd'):
        for _ in range(2 if q else 6):
            out.append(gen_huge(rng, tier, comp))
    # pieces of <= 20000 bytes / <= 64 KiB of the compressed file handed out by a raw stream
    for comp in (('gzip',) if q else ('gzip', 'zstd', 'gzip', 'zstd')):
        out.append(gen_huge(rng, tier, comp, raw={'seed': rng.randrange(10 ** 6), 'hi': rng.choice([20000, READ]),
                                                  'full': 0.3}))
    if not q:                             # the same kind of payload without compression: hundreds of read chunks
        out.append(gen_huge(rng, tier, None, size=rng.randrange(10 * MIB, 20 * MIB)))
    return out


# ---- lines=False: one document per file ------------------------------------------------------
DOC_FLAVOURS = ['rows', 'blob', 'nested', 'unicode', 'hex']
UNI = ['é', '€', '\U0001f600', 'a', 'b', ' ', '\n', '"', '\\', '中', '\x00', '\t', 'ü']


def doc_serialise(obj, spec):
    """the text of a document the HARNESS writes (writer == 'harness'): CPython json module"""
    seps = (',', ':') if spec['compact'] and spec['indent'] is None else None
    return json.dumps(obj, ensure_ascii=spec['ascii'], indent=spec['indent'], separators=seps) + spec['tail']


def doc_text(obj, spec):
    """the text expected on disk (after decompression and decoding)"""
    if spec['writer'] == 'dump':
        return orjson.dumps(obj).decode() + '\n'
    return doc_serialise(obj, spec)


def doc_obj(spec):
    """deterministic document (a dict) for a doc case; its text is about spec['size'] bytes (flavour pad: the
    utf-8 text is exactly spec['size'] bytes when that is feasible)"""
    rng = random.Random(spec['seed'])
    size, fl = spec['size'], spec['flavour']
    if fl == 'pad':
        base = len(doc_text({'pad': ''}, spec).encode('utf-8'))
        return {'pad': 'x' * max(0, size - base)}
    if fl == 'blob':       # one long random base64 string: gzip / zstd keep about 3/4 of it
        return {'id': rng.randrange(10 ** 6), 'blob': base64.b64encode(rng.randbytes(size * 3 // 4)).decode(),
                'é': '€ "q"\n'} if size > 40 else {}
    doc, n = {}, 2
    if fl == 'rows':       # the shape of a table export: random floats and hex tags compress to about 1/3
        rows = []
        doc = {'name': 'déjà vu ☃ "quoted"\nsecond line', 'rows': rows} if size > 0 else {}
        n = 60
        while n < size:
            r = {'id': len(rows), 'x': rng.random(), 'ok': len(rows) % 2 == 0, 'none': None,
                 'tag': '%032x' % rng.getrandbits(128)}
            rows.append(r)
            n += 90
    elif fl == 'hex':      # a dict of many random hex strings (about 1/2 after compression)
        while n < size:
            k = rng.choice([8, 32, 200, 3000])
            doc['k%d' % len(doc)] = '%0*x' % (k, rng.getrandbits(4 * k))
            n += k + 10
    elif fl == 'unicode':  # multi-byte characters, escapes, quotes, NUL
        items = []
        doc = {'é': items, 'n': [2 ** 63 - 1, -0.0, 5e-324, None]} if size > 0 else {}
        n = 40
        while n < size:
            t = ''.join(rng.choice(UNI) for _ in range(rng.randrange(1, 80)))
            items.append(t)
            n += len(t.encode('utf-8')) + 4
    else:                  # nested: the value generator of the small cases
        while n < size:
            v = gen_value(rng, 3)
            doc[rng.choice(['a', 'k\n', 'é', 'q"', 'z']) + str(len(doc))] = v
            n += len(orjson.dumps(v)) + 6
    return doc


def gen_doc(rng, tier, comp='?', size=None, flavour=None, writer=None, raw='?', enc=None):
    """a lines=False case: one document per file (every choice from rng)"""
    top = 5 * READ if tier != 'thorough' else rng.choice([5 * READ, 12 * READ])
    writer = writer or rng.choice(['dump', 'harness'])
    c = {'kind': 'doc', 'seed': rng.randrange(10 ** 6),
         'size': size if size is not None else rng.choice([0, 30, 500, 5000, READ - 300, READ + 300, 2 * READ + 5,
                                                            rng.randrange(200), rng.randrange(top), rng.randrange(top)]),
         'flavour': flavour or rng.choice(DOC_FLAVOURS), 'writer': writer,
         'indent': rng.choice([None, None, 1]), 'compact': rng.random() < 0.5, 'ascii': rng.random() < 0.5,
         'tail': rng.choice(['', '\n']),
         'comp': rng.choice([None, 'gzip', 'zstd']) if comp == '?' else comp,
         'enc': enc or rng.choice(['utf-8'] * 8 + ['utf-16', 'utf-32']), 'skip': 0, 'lines': False,
         'open_obj': rng.random() < 0.2, 'ignore': rng.random() < 0.3}
    his = RAW_HI_SMALL if c['size'] < 3000 else RAW_HI_BIG
    c['raw'] = gen_raw(rng, his, 0.25) if raw == '?' else raw
    c['open_obj'] = c['open_obj'] or c['raw'] is not None
    return c


def gen_docs(rng, tier):
    if tier == 'search':
        return [gen_doc(rng, tier) for _ in range(8)] + \
               [gen_doc(rng, tier, comp=comp, size=rng.randrange(3 * READ, 6 * READ), flavour='blob')
                for comp in (None, 'gzip', 'zstd')]
    q = tier == 'quick'
    out = [gen_doc(rng, tier) for _ in range(40 if q else 600)]
    # big documents: the file ON DISK spans several 64 KiB read chunks for every compression setting
    for comp in (None, 'gzip', 'zstd'):
        for writer in ('dump', 'harness'):
            for fl, lo, hi in (('blob', 2 * READ, 6 * READ), ('rows', 4 * READ, 10 * READ), ('hex', 3 * READ, 8 * READ)):
                for _ in range(1 if q else 5):
                    out.append(gen_doc(rng, tier, comp=comp, size=rng.randrange(lo, hi), flavour=fl, writer=writer,
                                       raw=None, enc='utf-8'))
        # ... and through a raw stream returning short reads
        for hi in ((20000,) if q else RAW_HI_BIG):
            out.append(gen_doc(rng, tier, comp=comp, size=rng.randrange(3 * READ, 7 * READ),
                               flavour=rng.choice(['blob', 'hex']), enc='utf-8',
                               raw={'seed': rng.randrange(10 ** 6), 'hi': hi, 'full': rng.choice([0.0, 0.3])}))
        # compressed size just around one read chunk (blob keeps about 0.76 of its text size)
        for _ in range(2 if q else 12):
            if comp:
                out.append(gen_doc(rng, tier, comp=comp, size=rng.randrange(int(READ / 0.80), int(READ / 0.72)),
                                   flavour='blob', enc='utf-8'))
    # uncompressed utf-8 files of exactly k x 64 KiB - 1 | + 0 | + 1 bytes
    for k in ((1, 2) if q else (1, 2, 3, 5)):
        for d in (-1, 0, 1):
            for writer in ('dump', 'harness'):
                c = gen_doc(rng, tier, comp=None, size=k * READ + d, flavour='pad', writer=writer, raw=None, enc='utf-8')
                c['indent'] = None
                out.append(c)
    return out


def straddles(js):
    out = []
    for j in js:
        out += [{'what': 'emoji', 'j': j, 'd': d} for d in (1, 2, 3)]
        out += [{'what': 'e3', 'j': j, 'd': d} for d in (1, 2)]
        out += [{'what': w, 'j': j, 'd': 1} for w in ('e2', 'escape')]
        out += [{'what': 'quote', 'j': j, 'd': d} for d in (0, 1, 2)]      # '\\"' before / across / after the cut
        out += [{'what': w, 'j': j, 'd': 0} for w in ('nl_last', 'nl_first')]
    return out


def generate(rng, tier):
    cases = [
        {'kind': 'small', 'objs': [{'a': 'line\nbreak', 'b': [1, 2.5, None, True]}, {'é': '\U0001f600 "q"'}],
         'comp': None, 'enc': 'utf-8', 'skip': 0, 'open_obj': False, 'ignore': False, 'raw': None},
        {'kind': 'small', 'objs': [{'n': 2 ** 63 - 1}, {}, {'f': -0.0}], 'comp': 'zstd', 'enc': 'utf-8', 'skip': 1,
         'open_obj': True, 'ignore': False, 'raw': None},
        {'kind': 'hand', 'text': '{"a":1}\n\nnull\n{"b":2}', 'comp': None, 'enc': 'utf-8', 'skip': 0, 'open_obj': False,
         'ignore': False, 'raw': None},
    ]
    # a raw stream that hands out 1..3 bytes per read call, for every compression setting
    for comp in (None, 'gzip', 'zstd'):
        cases.append({'kind': 'small', 'objs': [{'é': 'line\nbreak \U0001f600'}, {'q': '"', 'n': [1, -0.0, None]}, {}],
                      'comp': comp, 'enc': 'utf-8', 'skip': 0, 'open_obj': True, 'ignore': False,
                      'raw': {'seed': rng.randrange(10 ** 6), 'hi': 3, 'full': 0.0}})
    n_small, n_hand, n_big = {'quick': (900, 300, 80), 'thorough': (8000, 3000, 1200), 'search': (80, 30, 6)}[tier]
    cases += [gen_small(rng) for _ in range(n_small)]
    cases += [gen_hand(rng) for _ in range(n_hand)]
    cases += [gen_big(rng, tier) for _ in range(n_big)]
    if tier != 'search':
        for st in straddles([1, 2] if tier == 'quick' else [1, 2, 3, 4, 5]):
            cases.append(gen_big(rng, tier, straddle=st))
        for comp in (None, 'gzip', 'zstd'):
            for fl in ('ascii', 'unicode', 'long', 'mixed'):
                c = gen_big(rng, tier, comp=comp, size=5 * READ + 17)
                c['flavour'], c['enc'], c['skip'] = fl, 'utf-8', 0
                cases.append(c)
        # raw streams with short reads over files of several read chunks, every compression setting x every cap range
        for comp in (None, 'gzip', 'zstd'):
            for hi in RAW_HI_BIG:
                for _ in range(1 if tier == 'quick' else 4):
                    c = gen_big(rng, tier, comp=comp, size=rng.randrange(2 * READ, 5 * READ),
                                raw={'seed': rng.randrange(10 ** 6), 'hi': hi, 'full': rng.choice([0.0, 0.3])})
                    c['flavour'] = rng.choice(['ascii', 'unicode', 'mixed'])
                    cases.append(c)
        # large highly compressible payloads: one piece of the compressed file inflates past 1 MiB
        for comp in (None, 'gzip', 'zstd'):
            for _ in range(1 if tier == 'quick' else 6):
                cases.append(gen_redundant(rng, tier, comp))
        for comp in (('gzip',) if tier == 'quick' else (None, 'gzip', 'zstd', 'gzip', 'zstd')):
            cases.append(gen_redundant(rng, tier, comp, raw={'seed': rng.randrange(10 ** 6),
                                                             'hi': rng.choice([4096, 20000, READ]), 'full': 0.3}))
    # lines=False: one document per file (generated last, from a stream derived from rng)
    cases += gen_docs(random.Random(rng.randrange(2 ** 62)), tier)
    # scale family (after everything else, from its own stream derived from rng)
    cases += gen_scale(random.Random(rng.randrange(2 ** 62)), tier)
    # the Coq model of orjson on the float-free subset (Container/Json.v) against the real library, through rxsci's
    # own json.dump / json.load: values -> emitted text = json_print, parsed back; noisy and mutated texts -> loads
    for _ in range({'quick': 3, 'thorough': 40, 'search': 1}[tier]):
        cases.append({'kind': 'jmodel', 'seed': rng.randrange(10 ** 9), 'n': 120, 'm': 160})
    # the same with finite binary64 floats (Container/JsonFloat.v): orjson's float layout and its correctly rounded number parser
    for _ in range({'quick': 2, 'thorough': 20, 'search': 1}[tier]):
        cases.append({'kind': 'jfloat', 'seed': rng.randrange(10 ** 9), 'n': 60, 'm': 90})
    return cases


# ---------------------------------------------------------------------------------------------
@contextlib.contextmanager
def taps(log, sizes, loads_in=None):
    import rx.operators as ops
    import rxsci.container.json as rjson
    import rxsci.framing.line as line
    import rxsci.io.file as file
    orig_unframe, orig_read, orig_load = line.unframe, file.read, rjson.load

    def unframe():
        inner = orig_unframe()

        def _op(source):
            return source.pipe(
                ops.do_action(on_next=lambda c: log.append(('c', c)), on_completed=lambda: log.append(('end',))),
                inner,
                ops.do_action(on_next=lambda l: log.append(('l', l))))
        return _op

    def read(*a, **k):
        return orig_read(*a, **k).pipe(ops.do_action(on_next=lambda d: sizes.append(len(d))))

    def load(*a, **k):          # doc cases: the items that enter json.load
        inner = orig_load(*a, **k)

        def _op(source):
            return source.pipe(ops.do_action(on_next=loads_in.append), inner)
        return _op
    line.unframe, file.read = unframe, read
    if loads_in is not None:
        rjson.load = load
    try:
        yield
    finally:
        line.unframe, file.read, rjson.load = orig_unframe, orig_read, orig_load


def group(log):
    """tap log -> (text chunks, lines emitted per chunk + at completion)"""
    chunks, outs, cur, ended = [], [], None, False
    for e in log:
        if e[0] == 'c':
            if cur is not None:
                outs.append(cur)
            chunks.append(e[1])
            cur = []
        elif e[0] == 'end':
            if cur is not None:
                outs.append(cur)
            cur, ended = [], True
        else:
            if cur is None:
                cur = []
            cur.append(e[1])
    outs.append(cur if cur is not None else [])
    if not ended:
        outs.append([])          # the stream failed before completion reached unframe
    return chunks, outs, ended


def ref_decompress(comp, data):
    if comp == 'gzip':
        return gzip.decompress(data)
    if comp == 'zstd':
        return zstandard.ZstdDecompressor().stream_reader(io.BytesIO(data)).read()
    return data


class ShortReader(io.RawIOBase):
    """A legitimate raw (unbuffered) binary stream over the bytes of a file: like a pipe, a socket or a remote
    object store, read(n) may deliver FEWER than n bytes before the end of the data - here min(n, cap, bytes left)
    with cap >= 1 drawn per call from random.Random(spec['seed']) - and delivers b'' only at the end of the data.
    io.RawIOBase.read(n) calls readinto once with a buffer of n bytes.  The caps are appended to `caps`."""

    def __init__(self, path, spec, caps):
        super().__init__()
        with open(path, 'rb') as f:
            self._data = f.read()
        self._pos, self._rng, self._hi, self._full, self._caps = 0, random.Random(spec['seed']), spec['hi'], spec['full'], caps

    def readable(self):
        return True

    def readinto(self, b):
        cap = NOCAP if self._rng.random() < self._full else self._rng.randrange(1, self._hi + 1)
        self._caps.append(cap)
        data = self._data[self._pos:self._pos + min(len(b), cap)]
        self._pos += len(data)
        b[:len(data)] = data
        return len(data)


def run_jmodel(case):
    import random
    import rx
    import rxsci.container.json as rjson
    from harness import jsonmirror as jm
    rng = random.Random(case['seed'])
    fixed = [None, True, False, 0, [], {}, "", [[]], {"": {}}, [[], {}, [[]]], {"a": [], "": ""}]
    values = [fixed[i] if i < len(fixed) else jm.rand_value(rng) for i in range(case['n'])]
    texts, end = [], []
    rx.from_(values).pipe(rjson.dump()).subscribe(on_next=texts.append, on_error=lambda e: end.append('error:' + type(e).__name__),
                                                  on_completed=lambda: end.append('completed'))
    ok_shape = len(texts) == len(values) and all(isinstance(t, str) and t.endswith('\n') for t in texts)
    dumps = [(jm.term(v), jm.zlist(list(t[:-1].encode('utf-8')))) for v, t in zip(values, texts)] if ok_shape else []
    # non-null values come back from rxsci's json.load one per line, in order
    back, lend = [], []
    rx.from_([t[:-1] for t in texts] if ok_shape else []).pipe(rjson.load()).subscribe(
        on_next=back.append, on_error=lambda e: lend.append('error:' + type(e).__name__), on_completed=lambda: lend.append('completed'))
    want = [v for v in values if v is not None]
    loads = jm.loads_cases(rng, case['m'])
    same = len(back) == len(want) and all(type(a) is type(b) and a == b for a, b in zip(back, want))
    return {'dumps': dumps, 'loads': loads, 'dump_end': end, 'load_end': lend, 'ok_shape': ok_shape, 'roundtrip_ok': same,
            'n_back': len(back), 'n_want': len(want), 'n_rejected': sum(1 for _, r in loads if r == 'None')}


def run_jfloat(case):
    import random
    import rx
    import rxsci.container.json as rjson
    from harness import jsonfloatmirror as jf
    rng = random.Random(case['seed'])
    values = jf.dump_values(rng, case['n'])
    texts, end = [], []
    rx.from_(values).pipe(rjson.dump()).subscribe(on_next=texts.append, on_error=lambda e: end.append('error:' + type(e).__name__),
                                                  on_completed=lambda: end.append('completed'))
    ok_shape = len(texts) == len(values) and all(isinstance(t, str) and t.endswith('\n') for t in texts)
    dumps = [(jf.term(v), jf.zlist(list(t[:-1].encode('utf-8')))) for v, t in zip(values, texts)] if ok_shape else []
    back, lend = [], []
    rx.from_([t[:-1] for t in texts] if ok_shape else []).pipe(rjson.load()).subscribe(
        on_next=back.append, on_error=lambda e: lend.append('error:' + type(e).__name__), on_completed=lambda: lend.append('completed'))
    want = [v for v in values if v is not None]
    loads = jf.loads_cases(rng, case['m'])
    same = len(back) == len(want) and all(jf.same_value(a, b) for a, b in zip(back, want))
    def n_floats(v):
        if isinstance(v, float):
            return 1
        if isinstance(v, list):
            return sum(n_floats(x) for x in v)
        if isinstance(v, dict):
            return sum(n_floats(x) for x in v.values())
        return 0
    return {'dumps': dumps, 'loads': loads, 'dump_end': end, 'load_end': lend, 'ok_shape': ok_shape, 'roundtrip_ok': same,
            'n_back': len(back), 'n_want': len(want), 'n_rejected': sum(1 for _, r in loads if r == 'None'),
            'n_floats': sum(n_floats(v) for v in values),
            'n_exponent_form': sum(1 for t in texts if 'e' in t and any(c.isdigit() for c in t))}


def run_impl(case):
    if case['kind'] == 'jmodel':
        return run_jmodel(case)
    if case['kind'] == 'jfloat':
        return run_jfloat(case)
    import rx
    import rxsci.container.json as rjson
    os.makedirs(WORKDIR, exist_ok=True)
    path = os.path.join(WORKDIR, 'case_%d.jsonl' % os.getpid())
    if os.path.exists(path):
        os.remove(path)
    opened = []

    rawspec, caps = case.get('raw'), []

    def my_open(f, mode, encoding=None):
        opened.append(mode)
        if rawspec and 'r' in mode:
            return ShortReader(f, rawspec, caps)
        return open(f, mode, encoding=encoding)
    kw = {'open_obj': my_open} if case['open_obj'] else {}
    comp, enc = case['comp'], case['enc']
    obs = {}
    is_doc = case['kind'] == 'doc'
    if case['kind'] == 'hand' or (is_doc and case['writer'] == 'harness'):
        objs = [doc_obj(case)] if is_doc else None
        raw = (doc_serialise(objs[0], case) if is_doc else case['text']).encode(enc)
        data = gzip.compress(raw) if comp == 'gzip' else zstandard.ZstdCompressor().compress(raw) if comp == 'zstd' else raw
        with open(path, 'wb') as f:
            f.write(data)
    else:
        objs = case['objs'] if case['kind'] == 'small' else [doc_obj(case)] if is_doc else big_objs(case)
        end, at_end = [], []
        rx.from_(objs).pipe(rjson.dump_to_file(path, compression=comp, encoding=enc, **kw)).subscribe(
            on_next=lambda i: end.append('next'), on_error=lambda e: end.append('error:' + type(e).__name__),
            on_completed=lambda: (end.append('completed'), at_end.append(os.path.getsize(path) if os.path.exists(path) else -1)))
        obs['dump_end'] = end
        obs['size_at_completion'] = at_end[0] if at_end else None
        want = ''.join(orjson.dumps(o).decode() + '\n' for o in objs)
        try:
            with open(path, 'rb') as f:
                content = ref_decompress(comp, f.read()).decode(enc)
            obs['content_ok'] = content == want or content + '\n' == want     # a missing final newline is tolerated
        except Exception as e:
            obs['content_ok'] = False
            obs['content_err'] = '%s: %s' % (type(e).__name__, str(e)[:80])
        if case['kind'] == 'small':
            from harness.rxutil import run_timed
            d = run_timed(rjson.dump(), objs)
            obs['dump_out'] = sum(d['steps'], []) + d['final']
    obs['fsize'] = os.path.getsize(path) if os.path.exists(path) else 0
    log, sizes, items, lend = [], [], [], []
    loads_in = [] if is_doc else None
    if is_doc:
        kw['lines'] = case['lines']          # False: the file is ONE JSON document
    with taps(log, sizes, loads_in), contextlib.redirect_stdout(io.StringIO()):
        rjson.load_from_file(path, skip=case['skip'], ignore_error=case['ignore'], compression=comp, encoding=enc, **kw
                             ).subscribe(on_next=items.append, on_error=lambda e: lend.append('error:' + type(e).__name__),
                                         on_completed=lambda: lend.append('completed'))
    chunks, outs, ended = group(log)
    obs.update({'load_end': lend, 'read_sizes': sizes, 'n_items': len(items), 'open_obj_calls': opened,
                'unframe_completed': ended})
    if os.path.exists(path):
        os.remove(path)
    if objs is not None:
        want = [canon(o) for o in objs[case['skip']:]]
        got = [canon(o) for o in items]
        obs['items_equal'] = got == want
        obs['first_diff'] = next((i for i, (a, b) in enumerate(zip(got + [None], want + [None])) if a != b), None) \
            if got != want else None
        obs['n_objs'] = len(objs)
    if rawspec:
        obs['caps'] = caps
    if case['kind'] == 'big':
        obs['n_chunks'] = len(chunks)
        obs['max_chunk_chars'] = max([len(c) for c in chunks] or [0])
        obs['segs'] = [[len(p) for p in c.split('\n')] for c in chunks]
        obs['lens_out'] = [[len(l) for l in o] for o in outs]
        return obs
    if is_doc:
        # the text items that entered load, by key: '' -> [], the k-th distinct non-empty text -> [k]
        ids, keys, fresh, tbl = {(want[0] if case['skip'] == 0 else canon(objs[0])): 1}, {}, [2], []

        def doc_ident(k):          # k: canonical form of a loaded value
            if k == canon(None):
                return 0
            if k not in ids:
                ids[k] = fresh[0]
                fresh[0] += 1
            return ids[k]
        doc_chunks = []
        for t in loads_in:
            if len(t) == 0:
                doc_chunks.append([])
                continue
            if t not in keys:
                keys[t] = len(keys) + 1
                try:
                    tbl.append([keys[t], doc_ident(canon(orjson.loads(t)))])
                except Exception:
                    tbl.append([keys[t], None])
            doc_chunks.append([keys[t]])
        obs.update({'text_items': [len(t) for t in loads_in], 'doc_chunks': doc_chunks, 'tbl': tbl,
                    'item_ids': [doc_ident(k) for k in got], 'bufsize': io.DEFAULT_BUFFER_SIZE,
                    'unframe_chunks': len(chunks)})
        return obs
    # small / hand: everything goes to Coq in full
    ids, texts = {}, ['null']
    for o in (objs or []):
        k = canon(o)
        if k not in ids:
            ids[k] = len(texts)
            texts.append(orjson.dumps(o).decode())
    fresh = [10 ** 6]

    def ident(v):
        if v is None:
            return 0
        k = canon(v)
        if k not in ids:
            ids[k] = fresh[0]
            fresh[0] += 1
        return ids[k]
    tbl = {}
    for o in outs:
        for l in o:
            if len(l) > 0 and l not in tbl:
                try:
                    tbl[l] = ident(orjson.loads(l))
                except Exception:
                    tbl[l] = None
    obs.update({'texts': texts, 'obj_ids': [ident(o) for o in (objs or [])], 'chunks': chunks, 'lines_out': outs,
                'tbl': [[k, v] for k, v in tbl.items()], 'item_ids': [ident(o) for o in items]})
    return obs


def oracle(case, obs):
    if case['kind'] == 'hand':
        return None
    if case['kind'] in ('jmodel', 'jfloat'):
        if 'raised' in obs:
            return {'sig': 'json:raised', 'what': 'raised %s: %s' % (obs['raised'], obs.get('msg'))}
        if not obs['ok_shape'] or obs['dump_end'] != ['completed']:
            return {'sig': 'json:dump-shape', 'what': 'json.dump did not emit one newline-terminated text per object (end %s)' % obs['dump_end']}
        if not obs['roundtrip_ok'] or obs['load_end'] != ['completed']:
            return {'sig': 'json:mem-roundtrip', 'what': 'json.load(json.dump(values)): %d of %d non-null values back, equal=%s, end %s'
                    % (obs['n_back'], obs['n_want'], obs['roundtrip_ok'], obs['load_end'])}
        return None
    if 'raised' in obs:
        return {'sig': 'json:raised', 'what': 'raised %s: %s' % (obs['raised'], obs.get('msg'))}
    if obs.get('size_at_completion') is not None and obs['size_at_completion'] != obs.get('fsize'):
        # a consumer may read the file back from its on_completed callback
        return {'sig': 'json:completed-before-file-complete', 'what': 'dump_to_file signalled completion when the file held '
                '%s bytes; complete it holds %s' % (obs['size_at_completion'], obs.get('fsize'))}
    if obs.get('dump_end', ['completed']) != ['completed']:
        return {'sig': 'json:dump-failed', 'what': 'dump_to_file ended with %s' % obs['dump_end'][-2:]}
    if case['kind'] == 'doc':
        # lines=False: the file holds one document; exactly [that object] must come back
        where = 'lines=False, one %s-written document, compression=%s, %d bytes on disk' % (
            case['writer'], case['comp'], obs['fsize'])
        if obs['load_end'] != ['completed']:
            return {'sig': 'json:doc-load-error', 'what': 'load_from_file ended with %s after %d items (%s)'
                    % (obs['load_end'], obs['n_items'], where)}
        if not obs['items_equal']:
            return {'sig': 'json:doc-differs', 'what': '%d items read back instead of exactly the one document (%s)'
                    % (obs['n_items'], where)}
        return None
    where = scale_where(case, obs) if case.get('scale') else ''
    if obs['load_end'] != ['completed']:
        return {'sig': 'json:load-error', 'what': 'load_from_file ended with %s after %d of %d items%s'
                % (obs['load_end'], obs['n_items'], max(0, obs['n_objs'] - case['skip']), where)}
    if not obs['items_equal']:
        return {'sig': 'json:items-differ', 'what': '%d items read back for %d objects written (skip %d); first '
                'difference at item %s%s' % (obs['n_items'], obs['n_objs'], case['skip'], obs['first_diff'], where)}
    return None


def scale_where(case, obs):
    """one-line description of a scale case for the oracle message"""
    if case['flavour'] == 'longlines':
        return ' (compression=%s, %d bytes on disk; long lines of %s payload characters in this order)' % (
            case['comp'], obs['fsize'], ', '.join('%d [%s]' % (n, a) for n, a in case['lines']))
    return ' (compression=%s, %d bytes on disk for about %d bytes of near-identical lines of about %d bytes; ' \
           'largest text chunk out of one read chunk: %d characters)' % (
               case['comp'], obs['fsize'], case['size'], case['line'], obs.get('max_chunk_chars', -1))


def nontrivial(case, obs):
    if 'raised' in obs or case['kind'] == 'hand':
        return False
    if case['kind'] in ('jmodel', 'jfloat'):
        return True
    if case['kind'] == 'big':
        return len(obs['read_sizes']) >= 2 or obs['max_chunk_chars'] > MIB
    if case['kind'] == 'doc':
        return obs['fsize'] > READ
    t = ''.join(obs['texts'])
    return len(case['objs']) >= 2 and (any(ord(c) > 127 for c in t) or '\\n' in t)


def silent_run(lens_out):
    """the longest run of consecutive text chunks during which line.unframe emitted nothing"""
    best = cur = 0
    for x in lens_out[:-1]:          # the last entry is what completion emitted
        cur = 0 if x else cur + 1
        best = max(best, cur)
    return best


def describe(cases, obs):
    keep = [(c, o) for c, o in zip(cases, obs) if c['kind'] not in ('jmodel', 'jfloat')]
    jm = [(c, o) for c, o in zip(cases, obs) if c['kind'] == 'jmodel' and 'raised' not in o]
    jfl = [(c, o) for c, o in zip(cases, obs) if c['kind'] == 'jfloat' and 'raised' not in o]
    d = describe_files([c for c, _ in keep], [o for _, o in keep])
    d['orjson_model_cases'] = {'cases': len(jm), 'values_dumped': sum(len(o['dumps']) for _, o in jm),
                               'texts_loaded': sum(len(o['loads']) for _, o in jm),
                               'texts_rejected_by_orjson': sum(o['n_rejected'] for _, o in jm)}
    d['orjson_float_model_cases'] = {'cases': len(jfl), 'values_dumped': sum(len(o['dumps']) for _, o in jfl),
                                     'floats_in_values': sum(o['n_floats'] for _, o in jfl),
                                     'texts_in_exponent_form': sum(o['n_exponent_form'] for _, o in jfl),
                                     'texts_loaded': sum(len(o['loads']) for _, o in jfl),
                                     'texts_rejected_by_orjson': sum(o['n_rejected'] for _, o in jfl)}
    return d


def describe_files(cases, obs):
    doc = {'by_comp': {}, 'by_writer': {}, 'by_flavour': {}, 'file_larger_than_one_64KiB_read_chunk_by_comp': {},
           'max_file_size_by_comp': {}, 'max_64KiB_chunks_on_disk': 0, 'raw_stream': 0, 'indented_multi_line_document': 0,
           'harness_written_without_trailing_newline': 0, 'ignore_error': 0,
           'file_size_exactly_k_x_64KiB_(-1|0|+1)': 0, 'max_read_calls_of_one_readall': 0}
    d = {'small': 0, 'hand': 0, 'big': 0, 'doc': 0, 'doc_cases (lines=False, one document per file)': doc, 'comp': {}, 'enc': {}, 'max_file_size': 0, 'max_read_chunks': 0,
         'straddle_cases': 0, 'file_content_not_jsonl (informational)': 0, 'custom_open_obj': 0, 'with_skip': 0,
         'objects_total': 0, 'max_text_chunks': 0,
         'raw_stream_cases (open_obj reader returns short reads)': {'small': 0, 'hand': 0, 'big': 0, 'doc': 0},
         'raw_stream_by_comp': {}, 'short_reads_before_eof_total': 0, 'max_read_calls_one_file': 0,
         'redundant_payload_cases': {}, 'max_uncompressed_text_chars': 0,
         'max_text_chars_out_of_one_read_chunk': {},
         'scale_cases': {
             'long_lines (several 200 KiB - 2 MiB lines per file)': {
                 'by_comp': {}, 'by_order': {}, 'raw_stream': 0, 'min_line_chars': None, 'max_line_chars': 0,
                 'long_lines_total': 0, 'max_consecutive_text_chunks_without_a_line_end': 0,
                 'files_where_a_later_long_line_is_shorter_than_an_earlier_one': 0,
                 'files_where_a_later_long_line_is_longer_than_an_earlier_one': 0, 'by_alphabet': {}},
             'huge_redundant (tens of MiB that shrink to about one read chunk)': {
                 'by_comp': {}, 'raw_stream': 0, 'min_text_chars': None, 'max_text_chars': 0, 'min_line_bytes': None,
                 'max_line_bytes': 0, 'min_ratio_text_over_file_by_comp': {}, 'max_file_size_by_comp': {},
                 'one_read_chunk_inflated_past_8MiB_by_comp': {}, 'max_text_chars_out_of_one_read_chunk_by_comp': {}}}}
    sl = d['scale_cases']['long_lines (several 200 KiB - 2 MiB lines per file)']
    sh = d['scale_cases']['huge_redundant (tens of MiB that shrink to about one read chunk)']

    def lo(a, b):
        return b if a is None else min(a, b)
    for c, o in zip(cases, obs):
        d[c['kind']] += 1
        d['comp'][str(c['comp'])] = d['comp'].get(str(c['comp']), 0) + 1
        d['enc'][c['enc']] = d['enc'].get(c['enc'], 0) + 1
        d['straddle_cases'] += 1 if c.get('straddle') else 0
        d['custom_open_obj'] += 1 if c['open_obj'] else 0
        d['with_skip'] += 1 if c['skip'] else 0
        if 'raised' in o:
            continue
        d['file_content_not_jsonl (informational)'] += 1 if o.get('content_ok') is False else 0
        d['max_file_size'] = max(d['max_file_size'], o['fsize'])
        d['max_read_chunks'] = max(d['max_read_chunks'], len(o['read_sizes']))
        d['objects_total'] += o.get('n_objs', 0)
        d['max_text_chunks'] = max(d['max_text_chunks'], o.get('n_chunks', len(o.get('chunks', []))))
        comp = str(c['comp'])
        if c.get('raw'):
            d['raw_stream_cases (open_obj reader returns short reads)'][c['kind']] += 1
            d['raw_stream_by_comp'][comp] = d['raw_stream_by_comp'].get(comp, 0) + 1
            # a delivered chunk shorter than the 64 KiB asked while more data followed
            d['short_reads_before_eof_total'] += sum(1 for n in o['read_sizes'][:-1] if n < READ)
            d['max_read_calls_one_file'] = max(d['max_read_calls_one_file'], len(o.get('caps', [])))
        if c['kind'] == 'doc':
            for k, v in (('by_comp', comp), ('by_writer', c['writer']), ('by_flavour', c['flavour'])):
                doc[k][v] = doc[k].get(v, 0) + 1
            if o['fsize'] > READ:
                m = doc['file_larger_than_one_64KiB_read_chunk_by_comp']
                m[comp] = m.get(comp, 0) + 1
            m = doc['max_file_size_by_comp']
            m[comp] = max(m.get(comp, 0), o['fsize'])
            doc['max_64KiB_chunks_on_disk'] = max(doc['max_64KiB_chunks_on_disk'], -(-o['fsize'] // READ))
            doc['raw_stream'] += 1 if c.get('raw') else 0
            doc['indented_multi_line_document'] += 1 if c['writer'] == 'harness' and c['indent'] is not None else 0
            doc['harness_written_without_trailing_newline'] += 1 if c['writer'] == 'harness' and c['tail'] == '' else 0
            doc['ignore_error'] += 1 if c['ignore'] else 0
            doc['file_size_exactly_k_x_64KiB_(-1|0|+1)'] += 1 if c['comp'] is None and (o['fsize'] + 1) % READ <= 2 \
                and o['fsize'] > 2 else 0
            doc['max_read_calls_of_one_readall'] = max(doc['max_read_calls_of_one_readall'], len(o.get('caps', [])))
        if c.get('scale') and c['flavour'] == 'longlines':
            ns = [n for n, _ in c['lines']]
            sl['by_comp'][comp] = sl['by_comp'].get(comp, 0) + 1
            sl['by_order'][c['order']] = sl['by_order'].get(c['order'], 0) + 1
            sl['raw_stream'] += 1 if c.get('raw') else 0
            sl['min_line_chars'], sl['max_line_chars'] = lo(sl['min_line_chars'], min(ns)), max(sl['max_line_chars'], max(ns))
            sl['long_lines_total'] += len(ns)
            sl['max_consecutive_text_chunks_without_a_line_end'] = max(
                sl['max_consecutive_text_chunks_without_a_line_end'], silent_run(o['lens_out']))
            sl['files_where_a_later_long_line_is_shorter_than_an_earlier_one'] += 1 if any(
                ns[j] < ns[i] for i in range(len(ns)) for j in range(i + 1, len(ns))) else 0
            sl['files_where_a_later_long_line_is_longer_than_an_earlier_one'] += 1 if any(
                ns[j] > ns[i] for i in range(len(ns)) for j in range(i + 1, len(ns))) else 0
            for _, a in c['lines']:
                sl['by_alphabet'][a] = sl['by_alphabet'].get(a, 0) + 1
        if c.get('scale') and c['flavour'] == 'huge':
            chars = sum(sum(x) + len(x) - 1 for x in o['segs'])
            sh['by_comp'][comp] = sh['by_comp'].get(comp, 0) + 1
            sh['raw_stream'] += 1 if c.get('raw') else 0
            sh['min_text_chars'], sh['max_text_chars'] = lo(sh['min_text_chars'], chars), max(sh['max_text_chars'], chars)
            sh['min_line_bytes'], sh['max_line_bytes'] = lo(sh['min_line_bytes'], c['line']), max(sh['max_line_bytes'], c['line'])
            m = sh['min_ratio_text_over_file_by_comp']
            m[comp] = lo(m.get(comp), chars // max(1, o['fsize']))
            m = sh['max_file_size_by_comp']
            m[comp] = max(m.get(comp, 0), o['fsize'])
            m = sh['one_read_chunk_inflated_past_8MiB_by_comp']
            m[comp] = m.get(comp, 0) + (1 if o['max_chunk_chars'] > 8 * MIB and c['comp'] else 0)
            m = sh['max_text_chars_out_of_one_read_chunk_by_comp']
            m[comp] = max(m.get(comp, 0), o['max_chunk_chars'])
        if c['kind'] == 'big':
            if c['flavour'] == 'redundant':
                d['redundant_payload_cases'][comp] = d['redundant_payload_cases'].get(comp, 0) + 1
            d['max_uncompressed_text_chars'] = max(d['max_uncompressed_text_chars'],
                                                   sum(sum(x) + len(x) - 1 for x in o['segs']))
            m = d['max_text_chars_out_of_one_read_chunk']
            m[comp] = max(m.get(comp, 0), o['max_chunk_chars'])
    return d


# ---------------------------------------------------------------------------------------------
def coq_preamble():
    return ('From Coq Require Import List ZArith NArith Bool.\nImport ListNotations.\n'
            'From RxVerif Require Import Base.Corr Framing.Line Container.JsonLines Container.Json Container.FloatText Container.JsonFloat Container.C19Corr.\n')


CTYPE = 'c19case'
CHECKER = 'c19_check'


def coq_term(case, obs):
    if 'raised' in obs:
        return 'CRaised'
    if case['kind'] == 'jmodel':
        return 'CJsonModel [%s] [%s]' % ('; '.join('(%s, %s)' % c for c in obs['dumps']), '; '.join('(%s, %s)' % c for c in obs['loads']))
    if case['kind'] == 'jfloat':
        return 'CJsonFloat [%s] [%s]' % ('; '.join('(%s, %s)' % c for c in obs['dumps']), '; '.join('(%s, %s)' % c for c in obs['loads']))
    completed = obs['load_end'] == ['completed']
    if case['kind'] == 'doc':
        return 'CDoc %s %s %s %s %s %s %s %s %s %s' % (
            c_N(obs['fsize']), c_N(obs['bufsize']), c_opt(obs['caps'] if case.get('raw') else None, c_nlist),
            c_nlist(obs['read_sizes']), c_list([c_zlist(k) for k in obs['doc_chunks']]),
            c_list(['(%s, %s)' % (c_zlist([k]), c_opt(v, c_N)) for k, v in obs['tbl']]),
            c_nat(case['skip']), c_bool(case['ignore']), c_nlist(obs['item_ids']), c_bool(completed))
    if case['kind'] == 'big':
        return 'CBig %s %s %s %s %s %s %s %s %s' % (
            c_N(obs['fsize']), c_N(READ), c_opt(obs['caps'] if case.get('raw') else None, c_nlist), c_nlist(obs['read_sizes']), c_list([c_nlist(s) for s in obs['segs']]),
            c_list([c_nlist(s) for s in obs['lens_out']]), c_nat(case['skip']), c_N(obs['n_items']), c_bool(completed))
    return 'CSmall %s %s %s %s %s %s %s %s %s %s' % (
        c_list([c_str(t) for t in obs['texts']]), c_nlist(obs['obj_ids']),
        c_list([c_str(t) for t in obs.get('dump_out', [])]), c_list([c_str(t) for t in obs['chunks']]),
        c_list([c_list([c_str(l) for l in o]) for o in obs['lines_out']]),
        c_list(['(%s, %s)' % (c_str(k), c_opt(v, c_N)) for k, v in obs['tbl']]),
        c_nat(case['skip']), c_bool(case['ignore']), c_nlist(obs['item_ids']), c_bool(completed))


def coq_model_expr(case):
    if case['kind'] == 'jmodel':
        return 'json_print (JObj [([97]%Z, JArr [JInt 1%Z; JNull])])'
    if case['kind'] == 'jfloat':
        return 'jsonf_print (FArr [ffloat (false, 6755399441055744, -42)%Z; ffloat (true, 0, 0)%Z; ffloat (false, 1, -1074)%Z])'
    if case['kind'] == 'doc':
        return '(doc_read_sizes 0, doc_read_sizes 70000, z_json_load [([1]%Z, Some 1%N)] 0 false [[1]; []]%Z)'
    if case['kind'] == 'big':
        return 'len_run_timed 0 [[2; 3]; [4]; [0; 0; 1]]%N'
    text = case.get('text') or ''.join(orjson.dumps(o).decode() + '\n' for o in case['objs'])
    return 'z_unframe [%s]' % c_str(text[:400])


def neighbours(case, rng):
    if case['kind'] in ('jmodel', 'jfloat'):
        return [{'kind': case['kind'], 'seed': rng.randrange(10 ** 9), 'n': 40, 'm': 40} for _ in range(6)]
    if case['kind'] == 'doc':
        return [gen_doc(rng, 'search') for _ in range(10)] + \
               [gen_doc(rng, 'search', comp=case['comp'], size=rng.randrange(2 * READ, 8 * READ), flavour='blob')
                for _ in range(4)]
    return [gen_small(rng) for _ in range(20)] + ([gen_big(rng, 'search')] if case['kind'] == 'big' else [])


CLAIM = {
    'text': 'PARTIAL. orjson, the CPython text codecs, zlib and zstandard are NOT modelled. Proved in Coq (closed under '
            'the global context): the composition theorem - for ALL object lists, ALL chunkings of the file (in '
            'particular file.read with any read size, and file.read over a raw stream returning ANY sequence of short '
            'reads of at least one byte each: raw_read, C19_raw_read_whole / _enough / C19_load_raw_stream_dump_partial), '
            'any skip: load_from_file(dump_to_file(objs)) delivers '
            'skipn skip objs minus top-level nulls, in order, and completes - from the rxsci logic (one text item per '
            'object with the newline appended, stage order, file append / read = re-chunking, line unframing via the '
            'C15 theorem unframe_frame, skip, the len(line) > 0 filter, the None filter) GIVEN six named premises about '
            'the libraries: H_newline, H_loads_dumps (loads(dumps o) = o), H_dumps_no_newline, H_dumps_nonempty '
            '(orjson), H_text_codec (decode of any re-chunking of encode; C17) and H_compression (decompress of any '
            're-chunking of compress; C16; proved trivially for compression=None). The premises are NOT proved for the '
            'real libraries; they are tied by the differential TEST of this check: real files of 0..5x64 KiB (thorough '
            '1.5 MB) with 2/3/4-byte characters, escapes, quotes and the line terminator at every offset across the '
            '64 KiB boundary, embedded newlines/quotes/NUL/non-ASCII, nested values, 64-bit ints, floats, nulls, '
            'compression None/gzip/zstd, utf-8/16/32, custom open_obj - including an open_obj whose reader is a raw '
            '(io.RawIOBase) stream that returns short reads of 1 byte .. 64 KiB drawn from the PRNG of the case, for every '
            'compression setting, on small and multi-chunk files - and large highly compressible payloads (1.5-3 MiB, '
            'thorough up to 8 MiB, of near-identical records, ratio > 30) for which one <= 64 KiB piece of the gzip / zstd '
            'file inflates to more than 1 MiB of text - and a scale family: files holding 2-5 objects whose line is '
            '200 KiB - 2 MiB long (thorough up to 4 MiB; each spans 3 .. 30 and more read chunks) in decreasing, mixed and '
            'increasing order of length with position-dependent content, for every compression setting, builtin file, '
            'custom open_obj and short-read raw streams; and files of 20-34 MiB (thorough up to 96 MiB) of near-identical '
            'records that shrink to a few KB .. two read chunks, so that one <= 64 KiB piece of the gzip / zstd file '
            'inflates to more than 8 MiB (up to tens of MiB) of text. The model is tied to the code by taps around '
            'line.unframe and file.read: lines per chunk recomputed by Framing.Line in Coq on the actual text chunks '
            '(small files) or by its length abstraction (proved equal to Framing.Line on lengths) on big files; the '
            'sizes of the chunks file.read delivers recomputed by the batch cutting (buffered file) or by raw_sizes from '
            'the caps of the successive read calls (raw stream; proved equal to the lengths of raw_read); '
            'delivered objects recomputed by the load model with orjson answers as a table. '
            'lines=False (a file that holds ONE document): proved (C19_load_doc_from_file_dump_one_partial, '
            'C19_load_doc_raw_stream_dump_one_partial, C19_file_read_all_concat / _sizes, closed under the global context): '
            'file.read(size=-1) hands the whole file over in one chunk (over a raw stream: readall joins the short reads), '
            'and load_from_file(lines=False)(dump_to_file([o])) delivers exactly [o] and completes, GIVEN three premises '
            'about the libraries: H_loads_dumps_nl (orjson parses dumps o followed by the newline), H_text_codec_whole and '
            'H_compression_whole (fed the whole file in ONE non-empty item, the stage delivers the whole text / byte string '
            'in ONE non-empty item, plus possibly empty flush items; proved trivially for compression=None). Tested, not '
            'proved, for the libraries: the doc family - one document per file, written by dump_to_file or by the harness '
            '(json.dumps compact / indented over many lines, with and without a trailing newline; gzip module / zstandard), '
            'from 2 bytes to several 64 KiB read chunks ON DISK for every compression setting (random base64 / hex / float '
            'payloads so that the gzip / zstd file exceeds 64 KiB as well; uncompressed files of exactly k x 64 KiB - 1, + 0, '
            '+ 1 bytes), builtin file, custom open_obj and short-read raw streams; the oracle demands exactly [the object]; '
            'the correspondence recomputes the chunk sizes of file.read(size=-1) (doc_read_sizes; readall over the '
            'recorded caps) and the delivered objects from the text items that entered json.load (tap). '
            'orjson on the float-free subset is a Coq model (Json.v) with json_parse (json_print v) = Some v, also followed by '
            'whitespace / the newline, no control byte and no raw newline in json_print v, valid UTF-8; the three composition '
            'theorems are re-stated with these premises discharged (C19_model_*: only the text codec and the compression stage '
            'remain premises), and the model is compared with orjson (through rxsci json.dump / json.load) on every run. '
            'The same for values holding finite floats (JsonFloat.v: C19_json_float_model_* and C19_modelf_*; -0.0 comes back as -0.0). '
            'C19_end_to_end_*: the whole modelled stack composed with NO premise left (orjson model with floats, UTF-8 codec model of C17, '
            'no compression, the gzip model of C16 = stored-block compressor of the model + full inflate, or the zstd frame model = raw-block encoder + frame scanner; utf-16 too): any re-chunking, any read size, lines=False.',
    'note': 'Trusted: Coq kernel+VM; hand-written model of json.py (tied by correspondence only); orjson, CPython codecs, '
            'zlib, zstandard, gzip module (not modelled; hypotheses of the theorem, tested not proved); the taps '
            '(monkey-patching in the harness process); items delivered before a stage error are not modelled; '
            'lines=False is covered only for a file that holds exactly one document with skip=0 (a JSON-lines file '
            'read with lines=False, skip > 0 and empty files are outside what is claimed); the raw stream of the harness returns short counts on the read '
            'side only (file.write ignores the count returned by write(), so a raw WRITER with short writes is outside '
            'what is tested and modelled).',
    'technique': 'Coq proof (composition of stage laws as Section hypotheses; reuse of the line-framing round-trip '
                 'theorem and of the batch-cutting theorem for file.read; induction on the read calls for raw streams) + '
                 'vm_compute correspondence via taps + differential testing of the libraries (short-read raw streams, '
                 'highly compressible multi-MiB payloads, single documents larger than the read chunk with lines=False, '
                 'scale family: lines of MiB size in decreasing / mixed order, tens of MiB out of one compressed read chunk)',
}
