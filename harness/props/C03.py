"""C03 - the mux event protocol is well-formed at every operator boundary."""
import itertools
from harness import muxlib, muxgen, muxprop
from harness.muxprop import *  # noqa: F401,F403  (SHARD, COQ_TARGETS, CTYPE, CHECKER, coq_preamble, ...)

PID = 'C03'
RULE = ('random pipelines (depth <= 3) and all nestings of depth <= 2 (thorough: 3) of group_by/roll/split/time_split/'
        'tee_map around stateful operators; a recording tap is inserted after EVERY operator, at the head and tail of '
        'every inner pipeline and of every tee branch, and every tapped trace is also compared with the model boundary trace (Boundaries.bnd_pipe); inputs include empty sources, empty groups after filtering, '
        'window > stream, stride > window; lifetimes of outer keys ended by a mux error that reaches the composite operator (key re-created or abandoned), judged at the boundaries where the error is still visible; every tee-free pipeline object is also subscribed twice and both subscriptions must emit the same. Each tapped boundary trace is checked by a protocol monitor (create, items, '
        'exactly one completion; no event for a non-live key; no two live keys with the same slot index; all keys '
        'completed at stream completion). non-trivial = >= 1 head or tee and >= 3 boundaries; distinct = distinct JSON')
ASSUMPTIONS = ['input traces are well-formed; errors_handled fragment']


def nestings(rng, depth):
    """every ordered nesting of the five composite kinds to the given depth, with small random parameters"""
    kindsl = ['group', 'roll', 'rollc', 'split', 'time_split', 'tee']
    out = []
    for combo in itertools.product(kindsl, repeat=depth):
        inner = [rng.choice([['count', 1], ['to_list'], ['last'], ['scan', ['add'], muxgen.ev(0), 0, None],
                             ['take', 2], ['filter', ['gt', muxgen.ev(100)]], ['lag', 1], ['start_with', [muxgen.ev(50)]]])]
        for k in reversed(combo):
            if k == 'group':
                inner = [['group', ['mod', rng.randint(2, 3)], inner]]
            elif k == 'roll':
                w, s = rng.choice([(3, 1), (2, 3), (5, 2), (4, 3), (1, 2), (7, 2)])
                inner = [['roll', w, s, inner]]
            elif k == 'rollc':
                w = rng.randint(1, 3)
                inner = [['roll', w, w, inner]]
            elif k == 'split':
                inner = [['split', ['floordiv', rng.randint(2, 4)], inner]]
            elif k == 'time_split':
                inner = [['time_split', ['id'], rng.choice([None, 4]), rng.choice([None, 2]),
                          rng.choice([None, ['comp', ['mod', 4], ['eq', muxgen.ev(0)]]]), int(rng.random() < 0.5), inner]]
            else:
                inner = [['tee', rng.choice(['zip', 'merge', 'combine_latest']),
                          [inner, [rng.choice([['identity'], ['count', 0], ['filter', ['isodd']]])]]]]
        out.append(inner)
    return out


def generate(rng, tier):
    n = {'quick': 350, 'thorough': 8000, 'search': 250}[tier]
    cases = []
    for i in range(n):
        g = muxgen.Gen(rng, errors=0.15 if rng.random() < 0.2 else 0.0, fatal=0.1 if rng.random() < 0.15 else 0.0)
        ast, _ = g.pipe(muxgen.INT, 0, rng.randint(1, 3))
        cases.append({'ast': ast, 'trace': muxgen.gen_trace(rng, muxgen.INT)})
    for i in range(n // 6):
        # lifetimes of outer keys ENDED BY A MUX ERROR reaching a composite operator (rxsci's operators release a
        # key on OnErrorMux as on OnCompletedMux); the key is created again later or never used again.  The error
        # is dropped at the head of the inner pipeline and after the operator.  Outside the Coq model (there an
        # error is an item that bypasses the operator): judged by the monitor alone.
        inner = [['ignore']] + [rng.choice([['count', 1], ['to_list'], ['last'], ['scan', ['add'], muxgen.ev(0), 0, None],
                                            ['take', 2], ['lag', 1], ['identity']])]
        k = rng.choice(['group', 'roll', 'roll', 'rollc', 'split', 'time_split'])
        if k == 'group':
            hd = ['group', ['mod', rng.randint(2, 3)], inner]
        elif k == 'roll':
            w, st = rng.choice([(3, 1), (2, 3), (5, 2), (4, 3), (7, 2), (2, 1)])
            hd = ['roll', w, st, inner]
        elif k == 'rollc':
            w = rng.randint(1, 3)
            hd = ['roll', w, w, inner]
        elif k == 'split':
            hd = ['split', ['floordiv', rng.randint(2, 4)], inner]
        else:
            hd = ['time_split', ['id'], rng.choice([None, 4]), rng.choice([None, 2]), None, 1, inner]
        ast = [hd, ['ignore']]
        tr = muxgen.gen_trace(rng, muxgen.INT, nkeys=rng.choice([2, 3, 4]), sorted_=(k == 'time_split'))
        out = []
        for j, e in enumerate(tr):
            later = any(f[1] == e[1] for f in tr[j + 1:])
            if e[0] == 'd' and rng.random() < 0.6 and (not later or tr[j + 1:][[f[1] for f in tr[j + 1:]].index(e[1])][0] == 'c'):
                out.append(['e', e[1], rng.choice([1, 2, 3])])
            else:
                out.append(e)
        cases.append({'ast': ast, 'trace': out, 'errthru': True})
    # scale: hundreds of keys live at once (created in waves, slot indices 0..269 so that k and k+256 coexist), hundreds
    # of inner keys per outer key, more than 32 windows open per key, long keys - inner key arithmetic and live-key
    # bookkeeping beyond small examples.  A fixed list, every entry in every run.
    def inner_():
        return [rng.choice([['count', 1], ['to_list'], ['last'], ['identity']])]
    scale_cfgs = [
        (['roll', 40, 1, inner_()], 'long'), (['roll', 100, 3, inner_()], 'long'), (['roll', 130, 1, inner_()], 'long2'),
        (['roll', 257, 3, inner_()], 'long'), (['roll', 64, 50, inner_()], 'long'), (['roll', 300, 300, inner_()], 'long'), (['roll', 300, 200, inner_()], 'long'),
        (['group', ['mod', 2], inner_()], 'many'), (['group', ['id'], [['group', ['mod', 2], inner_()]]], 'many_groups'),
        (['group', ['mod', 300], inner_()], 'long'), (['group', ['id'], inner_()], 'many_groups'),
        (['split', ['floordiv', 50], inner_()], 'many'), (['split', ['id'], inner_()], 'long'),
        (['time_split', ['id'], None, 2, None, 1, inner_()], 'many'),
        (['tee', 'zip', [[['first']], [['count', 1]], [['identity']]]], 'many'),
        (['group', ['mod', 3], [['roll', 40, 1, inner_()]]], 'long'),
    ]
    reps = {'quick': 1, 'thorough': 10, 'search': 0}[tier]
    for _ in range(reps):
        for hd, shape in scale_cfgs:
            # a roll is fed more than two full windows plus a round of its ring of open windows
            mn = (2 * hd[1] + 2 * hd[2] + 7) if hd[0] == 'roll' else 0
            cases.append({'ast': [hd], 'trace': muxgen.gen_trace_scale(rng, shape, min_n=mn), 'scale': True})
    if tier != 'search':
        for d in ([1, 2] if tier == 'quick' else [1, 2, 3]):
            for ast in nestings(rng, d):
                tr = muxgen.gen_trace(rng, muxgen.INT, sorted_=rng.random() < 0.5) if rng.random() < 0.8 else \
                    [['c', [0]], ['d', [0]]]
                cases.append({'ast': ast, 'trace': tr})
    return cases


STATELESS = {'map', 'filter', 'flat_map', 'assert', 'identity', 'starmap', 'clip', 'fill_none', 'do_action', 'ignore', 'errmap'}


def run_impl(case):
    tapped, names = muxprop.with_taps(case['ast'])
    obs = muxlib.run_mux(tapped, case['trace'], taps=True)
    obs['tap_names'] = {str(k): v for k, v in names.items()}
    plain_ast = muxprop.strip_taps(case['ast'])
    if case.get('errthru'):
        return obs
    if len(plain_ast) >= 2 and 'route' not in muxprop.kinds(plain_ast):
        # the same operators in two chained with_store scopes (own store, own topology each)
        try:
            k = 1 + (len(case['trace']) % (len(plain_ast) - 1))
            ch = muxlib.run_mux(plain_ast, case['trace'], split_at=k)['steps']
            ref = [[o for o in st] for st in muxlib.run_mux(plain_ast, case['trace'])['steps']]
            if ch != ref:
                obs['chained'] = 'split after operator %d: two chained store scopes emit %s, one scope emits %s' % (
                    k, str(ch)[:200], str(ref)[:200])
        except Exception as e:
            obs['chained'] = 'two chained with_store scopes raised %s: %s' % (type(e).__name__, str(e)[:100])
    if len(case['trace']) % 2 == 0:
        obs['resub'] = muxprop.resubscription_mismatch(case['ast'], case['trace'])
    lts = muxgen.lifetimes_of(case['trace'])
    if lts:
        try:
            obs['entry'] = muxprop.entry_point_mismatch(case['ast'], lts[0][1], stateless=not (muxprop.kinds(case['ast']) - STATELESS))
        except Exception as e:
            obs['entry'] = 'entry point run raised %s' % type(e).__name__
    return obs


def bnd_mask(ast):
    """aligned with Boundaries.bnd_pipe on the expanded pipeline: which model boundaries carry a tap"""
    out = []
    for n in ast:
        if n[0] == 'tee':
            for b in n[2]:
                out += bnd_mask(b) + [True]
        elif n[0] in muxprop.HEADS:
            out += bnd_mask(n[-1]) + [True]
        else:
            out += [False] * (len(muxlib.coq_ops([n])) - 1)
        out.append(True)
    return out


def coq_term(case, obs):
    """the final output step by step, AND every tapped boundary against Boundaries.bnd_pipe (tap order = tap id)"""
    if case.get('errthru'):
        # the trace is not well-formed in the model's sense (the key is created again while live), so no theorem
        # speaks about it; the slot-level model is still compared on the final output
        return muxlib.coq_muxcase(case['ast'], case['trace'], obs)
    if case.get('scale'):
        return 'MCRaised' if 'raised' in obs else 'MCSkip'      # judged by the monitors alone (the list-based model is slow here)
    base = muxlib.coq_muxcase(case['ast'], case['trace'], obs)
    if not base.startswith('MC '):
        return base
    logs = [obs['taps'].get(str(i), []) for i in range(1, len(obs.get('tap_names', {})) + 1)]
    # the predicate of the C03 theorems, evaluated in Coq on every tapped trace of the real code (errors included)
    wf = 'MCWf [%s]' % '; '.join('[' + '; '.join(muxlib.coq_oev(e) for e in l if e[0] != 'completed') + ']' for l in logs)
    base = 'MCAnd (%s) (%s)' % (base, wf)
    special = any(e[0] == 'fatal' for l in logs for e in l) or muxprop.has_fatal(obs['steps']) or \
        'route' in muxprop.kinds(case['ast'])
    if special or not logs:
        return base
    taps = '[' + '; '.join('[' + '; '.join(muxlib.coq_oev(e) for e in l if e[0] != 'completed') + ']' for l in logs) + ']'
    mask = '[' + '; '.join('true' if b else 'false' for b in bnd_mask(case['ast'])) + ']'
    return 'MCAnd (%s) (MCBnd %s %s %s %s)' % (base, muxlib.coq_pipe(case['ast']), muxlib.coq_trace(case['trace']), mask, taps)


def errthru_judged(name):
    """With errors reaching a composite operator only the boundaries at which the error is still visible are
    judged: the head of the inner pipeline and the boundary right after the composite operator.  Downstream of an
    rs.error.ignore the error that released a key is gone (the family ends lifetimes by errors on purpose)."""
    return name.endswith(':head') or (name.count('/') == 0 and name.endswith('#0'))


def oracle(case, obs):
    if 'raised' in obs:
        return None
    if obs.get('entry'):
        return {'sig': 'protocol:entry-point', 'what': obs['entry']}
    if obs.get('chained'):
        return {'sig': 'protocol:chained-store-scopes', 'what': obs['chained']}
    if obs.get('resub'):
        return {'sig': 'protocol:re-subscription', 'what': obs['resub']}
    monitor = muxprop.protocol_violation_with_errors if case.get('errthru') else muxprop.protocol_violation
    for tid, log in sorted(obs['taps'].items(), key=lambda kv: int(kv[0])):
        if case.get('errthru') and not errthru_judged(obs['tap_names'].get(tid, '')):
            continue
        v = monitor(log)
        if v:
            name = obs['tap_names'].get(tid, tid)
            return {'sig': 'protocol:' + name.split(':')[0].split('/')[-1].rstrip('0123456789'),
                    'what': 'boundary %s: %s' % (name, v)}
    # the final output seen by the subscriber
    final = [o for st in obs['steps'] for o in st if o[0] in ('c', 'n', 'd', 'e', 'fatal')] + \
            [o for o in obs['final'] if o[0] == 'completed']
    v = None if case.get('errthru') else monitor(final)
    if v:
        return {'sig': 'protocol:output', 'what': 'final output: ' + v}
    return None


def nontrivial(case, obs):
    ks = muxprop.kinds(case['ast'])
    return bool(ks & set(muxprop.HEADS + ('tee',))) and len(obs.get('taps', {})) >= 3


def describe(cases, obs):
    nb = sum(len(o.get('taps', {})) for o in obs)
    ne = sum(len(l) for o in obs for l in o.get('taps', {}).values())
    nm = sum(1 for c, o in zip(cases, obs) if 'raised' not in o and 'MCBnd' in coq_term(c, o))
    return {'operator_histogram': muxprop.op_histogram(cases), 'boundaries_monitored': nb,
            'cases_with_every_boundary_compared_with_the_model': nm, 'boundary_events': ne,
            'nesting_depth': {str(d): sum(1 for c in cases if muxprop.depth(c['ast']) == d) for d in range(5)},
            'empty_lifetimes': sum(1 for c in cases for l in muxprop.lifetime_positions(c['trace']) if not l['items'])}


CLAIM = {
    'text': 'Theorems (Coq): (1) for every pipeline P of the grammar and every well-formed input trace, the output trace is well-formed (create / items / exactly one completion per key, no event for a non-live key, no two live keys sharing a slot) and leaves the same keys live as the input; hence every key is completed when the stream completes. (2) C03_every_boundary: the trace at EVERY boundary of EVERY pipeline - after each operator, at the head of each inner pipeline of group_by / roll / split / time_split, at the head of each tee_map branch, to any nesting depth - as computed by Boundaries.bnd_pipe, is well-formed. It rests on the head theorems (group_by, the one-segment heads split / time_split / roll w = s, and the sliding roll, whose proof instantiates the inner machine with a protocol monitor and reads its verdict out of roll_refines) and on lemmas that the head feed functions are what the composite machines hand to ANY inner machine. Tie to the code: a recording tap after EVERY operator, at the head/tail of every inner pipeline and tee branch; each tapped trace is (a) compared event for event with the corresponding element of bnd_pipe evaluated in Coq (MCBnd), (b) judged in Coq by the protocol predicate of the theorems itself (MCWf: allowed_seq through its proved boolean reflection) and (c) judged by a model-free protocol monitor in Python; random pipelines plus all nestings of the 6 composite kinds to depth 2 (thorough 3); public entry points, chained store scopes, re-subscription of the pipeline object and lifetimes ended by a mux error through every composite operator (slot-level model compared on the output; outside the theorems, whose traces do not re-create a live key) also exercised.',
    'note': 'Trusted: Coq kernel+VM; hand-written model tied by correspondence; taps are harness-defined pass-through operators; errors_handled fragment.',
    'technique': 'Coq proof (forward-simulation refinement of a slot-level model by per-key local machines, list-level induction) + vm_compute correspondence against /repo + model-free oracle',
}
