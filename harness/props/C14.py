"""C14 - the memory state store behaves as an isolated per-index typed map
(rxsci/state/memory_store.py, store.py, state_topology.py, markers.py, internal/utils.py)."""
import itertools
import random as _random
from harness import core
from harness.core import c_list, c_bool

PID = 'C14'
RULE = ('cases: one history of store operations (add_key/set/get/del_key/is_set/is_cleared/iterate/add_map/'
        'get_map/del_map/iterate_map) on one MemoryStore of a given data type (int,uint,float,bool,obj,mapper) '
        'with or without default_value, driven directly or through StoreManager/Store/StateTopology with noise '
        'on sibling states; index patterns dense/sparse/descending/repeated (a few up to 10^4); a guarded stream '
        '(no exception expected), a malformed stream (indices never added, values not fitting the typed array, '
        'map operations on cleared / non-mapper slots) and all histories of length <= 3 (thorough: 4) over a '
        'small alphabet. EVERY return value is compared with the Coq model. non-trivial = at least 8 operations, '
        'at least 2 distinct indices added and at least one judged read; distinct = distinct case JSON')
TRUSTED = ['modelled not verified: array.array typed storage (what __setitem__ stores or raises for typecodes '
           'q,Q,d,B), list, dict insertion order, CPython small-int identity (`is not` on markers in iterate)',
           'the hand-written literal model of MemoryStore (coq/theories/Store/MemStore.v) is tied to the code by '
           'the correspondence runs only']
ASSUMPTIONS = ['indices (key[0]) are non-negative integers (negative Python indices not modelled)',
               'floats are integer-valued with |x| <= 2^53 (no NaN, inf, -0.0, fractions); ints written to a float '
               'store are within +-2^53',
               'map keys are ints and strs; values written with set() are None/int/float/bool/str scalars (never '
               'containers); no str is written to a slot that is then used as a map',
               'theorems about reads assume the index is inside the arrays (was added, or lies below an added index) '
               'and written values fit the typed array; the other cases (IndexError, OverflowError/TypeError after '
               'the marker was set) are modelled as explicit error results and covered by the total refinement']
SHARD = 70
COQ_TARGETS = ['theories/Store/C14Corr.vo']

TYPES = ['int', 'uint', 'float', 'bool', 'obj', 'mapper']
I64 = (-2 ** 63, 2 ** 63 - 1)
U64 = (0, 2 ** 64 - 1)
F53 = 2 ** 53


# ------------------------------------------------------------------------------------------------
# values: tagged JSON <-> Python
# ------------------------------------------------------------------------------------------------
def to_py(t):
    k = t[0]
    if k == 'n':
        return None
    if k == 'i':
        return int(t[1])
    if k == 'f':
        return float(t[1])
    if k == 'b':
        return bool(t[1])
    if k == 's':
        return t[1]
    raise ValueError(t)


def canon(v):
    if v is None:
        return ['n']
    if isinstance(v, bool):
        return ['b', int(v)]
    if isinstance(v, int):
        return ['i', v]
    if isinstance(v, float):
        if v == v and abs(v) != float('inf') and v.is_integer() and v.hex() != '-0x0.0p+0':
            return ['f', int(v)]
        return ['f?', v.hex()]
    if isinstance(v, str):
        return ['s', v]
    if isinstance(v, dict):
        return ['d', [[canon(k), x] for k, x in v.items()]]
    return ['?', type(v).__name__]


def mk_key(i, tag):
    return (i,) if tag == 0 else (i, (tag,))


def canon_key(k):
    if isinstance(k, tuple) and 1 <= len(k) <= 2 and isinstance(k[0], int):
        if len(k) == 1:
            return [k[0], 0]
        if isinstance(k[1], tuple) and len(k[1]) == 1:
            return [k[0], k[1][0]]
    return None


def fits(ty, t):
    """precondition of the property: the written value fits the declared type"""
    k = t[0]
    if ty in ('obj', 'mapper'):
        return True
    if ty == 'float':
        return k == 'f' or k == 'b' or (k == 'i' and abs(t[1]) <= F53)
    if k not in ('i', 'b'):
        return False
    lo, hi = {'int': I64, 'uint': U64, 'bool': (0, 255)}[ty]
    return lo <= int(t[1]) <= hi


def coerce(ty, t):
    """the value a read must give back after writing t (declared type's coercion), as a Python object"""
    v = to_py(t)
    if ty in ('int', 'uint'):
        return int(v)
    if ty == 'float':
        return float(v)
    if ty == 'bool':
        return bool(v)
    return v


# ------------------------------------------------------------------------------------------------
# generators
# ------------------------------------------------------------------------------------------------
STRS = ['', 'a', 'ab', 'é', 'k0']


def gen_value(rng, ty, fitting=True):
    if not fitting:
        bad = {
            'int': [['i', 2 ** 63], ['i', -2 ** 63 - 1], ['f', 1], ['n'], ['s', 'a'], ['i', 2 ** 64]],
            'uint': [['i', -1], ['i', 2 ** 64], ['f', 0], ['n'], ['s', ''], ['b', 1]],
            'float': [['n'], ['s', 'a'], ['s', '']],
            'bool': [['i', 256], ['i', -1], ['n'], ['f', 1], ['s', 'a'], ['i', 2 ** 70]],
        }.get(ty)
        if bad:
            return rng.choice(bad)
    if ty == 'int':
        return rng.choice([['i', rng.randint(-5, 5)], ['i', rng.randint(*I64)], ['i', I64[0]], ['i', I64[1]],
                           ['b', rng.randint(0, 1)], ['i', 0]])
    if ty == 'uint':
        return rng.choice([['i', rng.randint(0, 5)], ['i', rng.randint(*U64)], ['i', U64[1]], ['i', 0],
                           ['b', rng.randint(0, 1)]])
    if ty == 'float':
        return rng.choice([['f', rng.randint(-5, 5)], ['f', rng.randint(-F53, F53)], ['i', rng.randint(-9, 9)],
                           ['i', rng.choice([F53, -F53])], ['b', rng.randint(0, 1)], ['f', 0]])
    if ty == 'bool':
        return rng.choice([['b', 0], ['b', 1], ['i', 0], ['i', 1], ['i', rng.randint(0, 255)], ['i', 255]])
    if ty == 'mapper':
        return rng.choice([['i', rng.randint(-3, 3)], ['n'], ['b', rng.randint(0, 1)], ['f', rng.randint(-2, 2)]])
    return rng.choice([['i', rng.randint(-3, 3)], ['i', rng.randint(-2 ** 70, 2 ** 70)], ['n'], ['b', 0], ['b', 1],
                       ['f', rng.randint(-4, 4)], ['s', rng.choice(STRS)], ['i', 0]])


def gen_mkey(rng):
    return rng.choice([['i', rng.randint(-2, 4)], ['i', rng.randint(0, 2)], ['s', rng.choice(STRS)],
                       ['i', 2 ** 65]])


def index_pool(rng, big):
    pat = rng.choice(['dense', 'sparse', 'descending', 'sparse', 'two'])
    if pat == 'dense':
        pool = list(range(rng.randint(1, 8)))
    elif pat == 'two':
        a = rng.randint(0, 40)
        pool = [a, a + rng.randint(1, 3)]
    else:
        top = rng.choice([12, 40, 40, 150] + ([600, 10000] if big else [300]))
        pool = sorted(set(rng.randint(0, top) for _ in range(rng.randint(2, 7))))
        if pat == 'descending':
            pool.reverse()
        else:
            rng.shuffle(pool)
    return pat, pool


def gen_history(rng, tier, malformed=False):
    ty = rng.choice(TYPES)
    default = None
    if ty != 'mapper' and rng.random() < 0.4:
        default = gen_value(rng, ty, fitting=not (malformed and rng.random() < 0.3))
        if default == ['n']:
            default = None
    maxlen = {'quick': 60, 'thorough': 200, 'search': 40}[tier]
    n = rng.choice([rng.randint(1, 12), rng.randint(5, maxlen // 2), rng.randint(5, maxlen)])
    pat, pool = index_pool(rng, big=(tier == 'thorough' and rng.random() < 0.2))
    ops, live, cap, order = [], set(), 0, list(pool)
    p_iter = 0.04 if max(pool) < 400 else 0.01
    for step in range(n):
        r = rng.random()
        # indices are first added in pool order (descending pools grow the arrays once, then fill downwards)
        if pat == 'descending' and order and r < 0.35:
            i = order.pop(0)
        else:
            i = rng.choice(pool)
        tag = rng.choice([0, 0, 1, 2, 7])
        if malformed and rng.random() < 0.25:
            # anything, anywhere
            i = rng.choice(pool + [max(pool) + 1, cap, cap + 3, 0])
            kind = rng.choice(['set', 'set_bad', 'get', 'del_key', 'is_set', 'is_cleared', 'add_map', 'get_map',
                               'del_map', 'iterate_map', 'add_key'])
            if ty == 'obj' and kind in ('get_map', 'del_map', 'iterate_map'):
                kind = 'get'       # a str cell used as a map is not modelled
            if kind == 'set':
                ops.append(['set', i, tag, gen_value(rng, ty)])
            elif kind == 'set_bad':
                ops.append(['set', i, tag, gen_value(rng, ty, fitting=False)])
            elif kind in ('add_map', 'get_map', 'del_map'):
                ops.append([kind, i, gen_mkey(rng)])
            elif kind == 'add_key':
                ops.append(['add_key', i, tag])
                cap = max(cap, i + 1)
            else:
                ops.append([kind, i])
            continue
        if i not in live and (r < 0.75 or i >= cap):
            ops.append(['add_key', i, tag])
            live.add(i)
            cap = max(cap, i + 1)
            continue
        if r < 0.04:
            ops.append(['add_key', i, tag])          # repeated add_key of a live (or deleted) index
            live.add(i)
        elif r < 0.04 + p_iter:
            ops.append(['iterate'])
        elif r < 0.16 and i in live:
            ops.append(['del_key', i])
            live.discard(i)
        elif r < 0.22:
            ops.append(['is_set', i])
        elif r < 0.28:
            ops.append(['is_cleared', i])
        elif ty == 'mapper' and i in live:
            ops.append(rng.choice([['add_map', i, gen_mkey(rng)], ['add_map', i, gen_mkey(rng)],
                                   ['get_map', i, gen_mkey(rng)], ['iterate_map', i], ['get', i]]))
        elif r < 0.62 and i in live:
            ops.append(['set', i, tag, gen_value(rng, ty)])
        else:
            ops.append(['get', i])
    case = {'kind': 'malformed' if malformed else 'guarded', 'ty': ty, 'default': default, 'ops': ops,
            'pattern': pat, 'via': 'direct'}
    if rng.random() < 0.3:
        case['via'] = 'manager'
        case['mgr'] = {'n': rng.randint(1, 3), 'noise': rng.randrange(10 ** 9)}
        case['mgr']['pos'] = rng.randrange(case['mgr']['n'])
    return case


def exhaustive(maxlen):
    """every history of length <= maxlen over a small alphabet, for a typed store without default and a bool
    store with default (judged by the oracle as far as the history stays inside the property's domain)"""
    out = []
    alph = [['add_key', 0, 0], ['add_key', 2, 1], ['set', 0, 0, ['i', 1]], ['get', 0], ['get', 2],
            ['del_key', 0], ['is_cleared', 1], ['iterate']]
    for ty, default in [('int', None), ('bool', ['b', 0])]:
        for ln in range(1, maxlen + 1):
            for ops in itertools.product(alph, repeat=ln):
                out.append({'kind': 'exhaustive', 'ty': ty, 'default': default, 'ops': [list(o) for o in ops],
                            'pattern': 'exhaustive', 'via': 'direct'})
    alph = [['add_key', 1, 0], ['add_map', 1, ['i', 0]], ['add_map', 1, ['s', 'a']], ['add_key', 0, 2],
            ['add_map', 0, ['i', 0]], ['get_map', 1, ['i', 0]], ['iterate_map', 1], ['del_key', 1]]
    for ln in range(1, maxlen + 1):
        for ops in itertools.product(alph, repeat=ln):
            out.append({'kind': 'exhaustive', 'ty': 'mapper', 'default': None, 'ops': [list(o) for o in ops],
                        'pattern': 'exhaustive', 'via': 'direct'})
    return out


def generate(rng, tier):
    n = {'quick': 1200, 'thorough': 20000, 'search': 300}[tier]
    cases = []
    for _ in range(n):
        cases.append(gen_history(rng, tier, malformed=rng.random() < 0.2))
    if tier == 'quick':
        cases += exhaustive(3)
    elif tier == 'thorough':
        cases += exhaustive(4)
    return cases


# ------------------------------------------------------------------------------------------------
# the implementation
# ------------------------------------------------------------------------------------------------
def py_type(ty):
    return {'int': int, 'uint': 'uint', 'float': float, 'bool': bool, 'obj': 'obj', 'mapper': 'mapper'}[ty]


class Direct(object):
    def __init__(self, case):
        from rxsci.state.memory_store import MemoryStore
        d = case['default']
        self.s = MemoryStore(name='t', data_type=py_type(case['ty']), default_value=None if d is None else to_py(d))
        self.raw = self.s

    def pre(self):
        pass

    def add_key(self, k): return self.s.add_key(k)
    def set(self, k, v): return self.s.set(k, v)
    def get(self, k): return self.s.get(k)
    def del_key(self, k): return self.s.del_key(k)
    def iterate(self): return self.s.iterate()
    def add_map(self, k, m): return self.s.add_map(k, m)
    def get_map(self, k, m): return self.s.get_map(k, m)
    def del_map(self, k, m): return self.s.del_map(k, m)
    def iterate_map(self, k): return self.s.iterate_map(k)


class Managed(object):
    """the same store reached through StoreManager -> Store -> MemoryStore built from a StateTopology; sibling
    states receive random operations on the same indices between the operations of the history"""
    def __init__(self, case):
        import rxsci as rs
        from rxsci.state.memory_store import MemoryStore
        from rxsci.state.store import StoreManager
        from rxsci.state.state_topology import StateTopology
        m = case['mgr']
        self.rng = _random.Random(m['noise'])
        topo = StateTopology()
        self.sid, self.others = None, []
        d = case['default']
        for p in range(m['n']):
            if p == m['pos']:
                if case['ty'] == 'mapper':
                    self.sid = topo.create_mapper('t')
                else:
                    self.sid = topo.create_state('t', py_type(case['ty']),
                                                 default_value=None if d is None else to_py(d))
            else:
                oty = self.rng.choice(['obj', 'int', 'mapper', 'obj'])
                if oty == 'mapper':
                    self.others.append((topo.create_mapper('t'), oty))
                else:
                    self.others.append((topo.create_state('t', py_type(oty), default_value=self.rng.choice([None, 3])), oty))
        self.m = StoreManager(store_factory=MemoryStore)
        self.m.set_topology(topo)
        self.raw = self.m.get_store().states[self.sid]
        self.idx = sorted(set(o[1] for o in case['ops'] if len(o) > 1)) or [0]

    def pre(self):
        if self.others and self.rng.random() < 0.5:
            sid, oty = self.rng.choice(self.others)
            k = (self.rng.choice(self.idx),)
            try:
                what = self.rng.choice(['add', 'add', 'set', 'del', 'map'])
                if what == 'add':
                    self.m.add_key(sid, k)
                elif what == 'set':
                    self.m.set_state(sid, k, self.rng.randint(0, 9))
                elif what == 'del':
                    self.m.del_key(sid, k)
                else:
                    self.m.add_map(sid, k, self.rng.randint(0, 3))
            except Exception:
                pass

    def add_key(self, k): return self.m.add_key(self.sid, k)
    def set(self, k, v): return self.m.set_state(self.sid, k, v)
    def get(self, k): return self.m.get_state(self.sid, k)
    def del_key(self, k): return self.m.del_key(self.sid, k)
    def iterate(self): return self.m.iterate_state(self.sid)
    def add_map(self, k, m): return self.m.add_map(self.sid, k, m)
    def get_map(self, k, m): return self.m.get_map(self.sid, k, m)
    def del_map(self, k, m): return self.m.del_map(self.sid, k, m)
    def iterate_map(self, k): return self.m.iterate_map(self.sid, k)


def run_impl(case):
    import rxsci as rs
    NOTSET = rs.state.markers.STATE_NOTSET
    drv = Managed(case) if case.get('via') == 'manager' else Direct(case)
    out = []

    def ret(v):
        if v is NOTSET:
            return ['notset']
        return ['val', canon(v)]

    for o in case['ops']:
        drv.pre()
        name = o[0]
        try:
            if name == 'add_key':
                r = drv.add_key(mk_key(o[1], o[2]))
                res = ['unit'] if r is None else ['val', canon(r)]
            elif name == 'set':
                r = drv.set(mk_key(o[1], o[2]), to_py(o[3]))
                res = ['unit'] if r is None else ['val', canon(r)]
            elif name == 'del_key':
                r = drv.del_key((o[1],))
                res = ['unit'] if r is None else ['val', canon(r)]
            elif name == 'get':
                res = ret(drv.get((o[1],)))
            elif name == 'is_set':
                r = drv.raw.is_set((o[1],))
                res = ['bool', r] if isinstance(r, bool) else ['val', canon(r)]
            elif name == 'is_cleared':
                r = drv.raw.is_cleared((o[1],))
                res = ['bool', r] if isinstance(r, bool) else ['val', canon(r)]
            elif name == 'iterate':
                res = ['iter', [[canon_key(k), canon(v), bool(f)] if isinstance(f, bool) else ['?']
                                for (k, v, f) in list(drv.iterate())]]
            elif name == 'add_map':
                r = drv.add_map((o[1],), to_py(o[2]))
                res = ['idx', r] if type(r) is int and r >= 0 else ['val', canon(r)]
            elif name in ('get_map', 'del_map'):
                r = getattr(drv, name)((o[1],), to_py(o[2]))
                res = ['notset'] if r is NOTSET else (['idx', r] if type(r) is int and r >= 0 else ['val', canon(r)])
            elif name == 'iterate_map':
                res = ['keys', [canon(k) for k in list(drv.iterate_map((o[1],)))]]
            else:
                raise ValueError(name)
        except Exception as e:
            res = ['err', type(e).__name__]
        out.append(res)
    return {'results': out}


# ------------------------------------------------------------------------------------------------
# the oracle: a plain dictionary model of the property text (no Coq, no knowledge of arrays/markers)
# ------------------------------------------------------------------------------------------------
def same(got, want):
    return type(got) is type(want) and got == want


def coerced_eq(ty, t, want):
    try:
        return t[0] in 'nifbs' and coerce(ty, t) == want
    except Exception:
        return False


def oracle(case, obs):
    if 'raised' in obs:
        return {'sig': 'store:driver-raised', 'what': 'driver raised %s' % obs['raised']}
    ty, default = case['ty'], case['default']
    if default is not None and not fits(ty, default):
        return None                                  # outside the property's domain from the first add_key
    live = {}            # index -> {'tag', 'set', 'val' (Python object), 'map' (dict or None)}
    deleted = set()      # added once, deleted since
    res = obs['results']

    def bad(sig, n, what):
        return {'sig': 'store:' + sig, 'what': 'op #%d %s: %s' % (n, case['ops'][n], what)}

    for n, (o, r) in enumerate(zip(case['ops'], res)):
        name = o[0]
        i = o[1] if len(o) > 1 else None
        in_domain = True
        if name == 'set':
            in_domain = i in live and fits(ty, o[3])
        elif name in ('del_key', 'add_map'):
            in_domain = i in live and (name != 'add_map' or (ty == 'mapper' and live[i]['map'] is not None))
        elif name == 'del_map':
            in_domain = False                        # the property says nothing about del_map
        if not in_domain:
            return None                              # the rest of the history is outside the property's domain
        if r[0] == 'err' and (name in ('add_key', 'set', 'del_key', 'add_map', 'iterate')):
            return bad('raised:' + name, n, 'raised %s' % r[1])
        if name == 'add_key':
            if r != ['unit']:
                return bad('add_key:return', n, 'returned %s' % r)
            deleted.discard(i)
            if ty == 'mapper':
                live[i] = {'tag': o[2], 'set': True, 'val': None, 'map': {}}
            elif default is not None:
                live[i] = {'tag': o[2], 'set': True, 'val': coerce(ty, default), 'map': None}
            else:
                live[i] = {'tag': o[2], 'set': False, 'val': None, 'map': None}
        elif name == 'set':
            if r != ['unit']:
                return bad('set:return', n, 'returned %s' % r)
            live[i] = {'tag': o[2], 'set': True, 'val': coerce(ty, o[3]), 'map': None}
        elif name == 'del_key':
            if r != ['unit']:
                return bad('del_key:return', n, 'returned %s' % r)
            del live[i]
            deleted.add(i)
        elif name == 'get':
            if i in live:
                s = live[i]
                if r[0] == 'err':
                    return bad('raised:get', n, 'raised %s on a live index' % r[1])
                if not s['set']:
                    if r != ['notset']:
                        return bad('get:fresh', n, 'a slot added and not written reads %s, not NOTSET' % r)
                elif s['map'] is not None:
                    want = ['val', ['d', [[canon(k), x] for k, x in s['map'].items()]]]
                    if r[0] != 'val' or r[1][0] != 'd' or sorted(map(repr, r[1][1])) != sorted(map(repr, want[1][1])):
                        return bad('get:map', n, 'mapper slot reads %s, want %s' % (r, want))
                else:
                    if r[0] != 'val' or r[1][0] not in 'nifbs' or not same(to_py(r[1]), s['val']):
                        return bad('get:value', n, 'reads %s, last written (coerced to %s) is %r' % (r, ty, s['val']))
        elif name == 'is_set':
            if i in live and r != ['bool', live[i]['set']]:
                return bad('is_set', n, 'is_set gives %s, want %s' % (r, live[i]['set']))
        elif name == 'is_cleared':
            if i in live and r != ['bool', False]:
                return bad('is_cleared:live', n, 'is_cleared gives %s on a live index' % r)
            if i in deleted and r != ['bool', True]:
                return bad('is_cleared:deleted', n, 'is_cleared gives %s on a deleted index' % r)
        elif name == 'iterate':
            got = r[1]
            if any(e == ['?'] or e[0] is None for e in got):
                return bad('iterate:shape', n, 'malformed entry in %s' % got[:5])
            if [e[0][0] for e in got] != sorted(live):
                return bad('iterate:indices', n, 'enumerates indices %s, live are %s'
                           % ([e[0][0] for e in got][:12], sorted(live)[:12]))
            for e in got:
                s = live[e[0][0]]
                if e[0][1] != s['tag'] or e[2] != s['set']:
                    return bad('iterate:entry', n, 'entry %s, want tag %s set %s' % (e, s['tag'], s['set']))
                # iterate yields the raw cell (an int for a bool store): compared through the declared type's coercion
                if s['set'] and s['map'] is None and not coerced_eq(ty, e[1], s['val']):
                    return bad('iterate:value', n, 'entry %s, last written %r' % (e, s['val']))
        elif name == 'add_map':
            if r[0] != 'idx':
                return bad('add_map:return', n, 'returned %s' % r)
            in_use = set(x for s in live.values() if s['map'] is not None for x in s['map'].values())
            if r[1] in in_use:
                return bad('add_map:live-index', n, 'handed out index %d which is still in use' % r[1])
            live[i]['map'][to_py(o[2])] = r[1]
        elif name == 'get_map':
            if ty == 'mapper' and i in live and live[i]['map'] is not None:
                mp = live[i]['map']
                k = to_py(o[2])
                want = ['idx', mp[k]] if k in mp else ['notset']
                if r != want:
                    return bad('get_map', n, 'gives %s, want %s' % (r, want))
        elif name == 'iterate_map':
            if ty == 'mapper' and i in live and live[i]['map'] is not None:
                want = [canon(k) for k in live[i]['map']]
                if r[0] != 'keys' or sorted(map(repr, r[1])) != sorted(map(repr, want)) or len(r[1]) != len(want):
                    return bad('iterate_map', n, 'enumerates %s, mapped keys are %s' % (r, want))
    return None


def judged_reads(case):
    live, n = set(), 0
    for o in case['ops']:
        if o[0] == 'add_key':
            live.add(o[1])
        elif o[0] == 'del_key':
            live.discard(o[1])
        elif o[0] in ('get', 'is_set', 'iterate', 'get_map', 'iterate_map') and (len(o) == 1 or o[1] in live):
            n += 1
    return n


def nontrivial(case, obs):
    added = set(o[1] for o in case['ops'] if o[0] == 'add_key')
    return len(case['ops']) >= 8 and len(added) >= 2 and judged_reads(case) >= 1


def describe(cases, obs):
    d = {'kind': {}, 'ty': {}, 'via': {}, 'pattern': {}, 'with_default': 0, 'ops': {}, 'max_len': 0, 'max_index': 0,
         'total_ops': 0, 'results': {}, 'errors': {}, 'readd_after_delete': 0}
    for c, o in zip(cases, obs):
        for f in ('kind', 'ty', 'via', 'pattern'):
            d[f][c[f]] = d[f].get(c[f], 0) + 1
        d['with_default'] += c['default'] is not None
        d['max_len'] = max(d['max_len'], len(c['ops']))
        d['total_ops'] += len(c['ops'])
        dead = set()
        for op in c['ops']:
            d['ops'][op[0]] = d['ops'].get(op[0], 0) + 1
            if len(op) > 1:
                d['max_index'] = max(d['max_index'], op[1])
            if op[0] == 'del_key':
                dead.add(op[1])
            if op[0] == 'add_key' and op[1] in dead:
                d['readd_after_delete'] += 1
                dead.discard(op[1])
        for r in o.get('results', []):
            d['results'][r[0]] = d['results'].get(r[0], 0) + 1
            if r[0] == 'err':
                d['errors'][r[1]] = d['errors'].get(r[1], 0) + 1
    return d


# ------------------------------------------------------------------------------------------------
# Coq terms
# ------------------------------------------------------------------------------------------------
def coq_preamble():
    return ('From Coq Require Import List ZArith NArith Bool.\nImport ListNotations.\n'
            'From RxVerif Require Import Base.Corr Store.MemStore Store.C14Corr.\n')


CTYPE = 'c14case'
CHECKER = 'c14_check'
CTY = {'int': 'TInt', 'uint': 'TUInt', 'float': 'TFloat', 'bool': 'TBool', 'obj': 'TObj', 'mapper': 'TMapper'}
CERR = {'IndexError': 'IndexError', 'OverflowError': 'OverflowError', 'TypeError': 'TypeError',
        'AttributeError': 'AttributeError'}


def cz(z):
    return '(%d)%%Z' % z


def cn(n):
    return '%d%%N' % n


def czs(s):
    return ('[' + ';'.join(str(ord(ch)) for ch in s) + ']%Z') if s else '[]'


def c_mkey(t):
    if t[0] == 'i':
        return '(KInt %s)' % cz(t[1])
    if t[0] == 's':
        return '(KStr %s)' % czs(t[1])
    raise ValueError('unprintable map key %r' % (t,))


def c_val(t):
    k = t[0]
    if k == 'n':
        return 'VNone'
    if k == 'i':
        return '(VInt %s)' % cz(t[1])
    if k == 'f':
        return '(VFloat %s)' % cz(t[1])
    if k == 'b':
        return '(VBool %s)' % c_bool(t[1])
    if k == 's':
        return '(VStr %s)' % czs(t[1])
    if k == 'd':
        return '(VDict %s)' % c_list(['(%s, %s)' % (c_mkey(mk), cn(x)) for mk, x in t[1]])
    raise ValueError('unprintable value %r' % (t,))


def c_op(o):
    n = o[0]
    if n == 'add_key':
        return 'OAddKey %s %s' % (cn(o[1]), cz(o[2]))
    if n == 'set':
        return 'OSet %s %s %s' % (cn(o[1]), cz(o[2]), c_val(o[3]))
    if n == 'iterate':
        return 'OIterate'
    if n in ('add_map', 'get_map', 'del_map'):
        return '%s %s %s' % ({'add_map': 'OAddMap', 'get_map': 'OGetMap', 'del_map': 'ODelMap'}[n], cn(o[1]),
                             c_mkey(o[2]))
    return '%s %s' % ({'get': 'OGet', 'del_key': 'ODelKey', 'is_set': 'OIsSet', 'is_cleared': 'OIsCleared',
                       'iterate_map': 'OIterateMap'}[n], cn(o[1]))


def c_res(r):
    k = r[0]
    if k == 'unit':
        return 'RUnit'
    if k == 'notset':
        return 'RNotSet'
    if k == 'val':
        return 'RVal %s' % c_val(r[1])
    if k == 'bool':
        return 'RBool %s' % c_bool(r[1])
    if k == 'idx':
        return 'RIdx %s' % cn(r[1])
    if k == 'keys':
        return 'RKeys %s' % c_list([c_mkey(x) for x in r[1]])
    if k == 'iter':
        return 'RIter %s' % c_list(['(%s, %s, %s)' % (
            'None' if e[0] is None else '(Some (%s, %s))' % (cn(e[0][0]), cz(e[0][1])), c_val(e[1]), c_bool(e[2]))
            for e in r[1]])
    if k == 'err':
        return 'RErr %s' % CERR.get(r[1], 'Unmodelled')      # an exception class the model does not have: mismatch
    raise ValueError('unprintable result %r' % (r,))


def c_ops(case):
    return c_list([c_op(o) for o in case['ops']])


def c_default(case):
    return 'VNone' if case['default'] is None else c_val(case['default'])


def coq_term(case, obs):
    if 'raised' in obs:
        return 'CRaised'
    try:
        return 'CHist %s %s %s %s' % (CTY[case['ty']], c_default(case), c_ops(case),
                                      c_list([c_res(r) for r in obs['results']]))
    except ValueError:
        return 'CRaised'          # the implementation returned something outside the value universe


def coq_model_expr(case):
    return 'results %s %s %s' % (CTY[case['ty']], c_default(case), c_ops(case))


def neighbours(case, rng):
    out = []
    for k in range(1, len(case['ops'])):
        c = dict(case)
        c['ops'] = case['ops'][:k]
        out.append(c)
    rng.shuffle(out)
    return out[:40]


CLAIM = {
    'text': 'Theorems (Coq, closed under the global context), all for EVERY history of add_key/set/get/del_key/'
            'is_set/is_cleared/iterate/add_map/get_map/del_map/iterate_map, every data type (int, uint, float, bool, '
            'obj, mapper) and every default value: the literal model of MemoryStore (parallel values/state/keys '
            'lists, growth, markers, typed-array coercion, mapper dicts, next_index/free_slots) refines an abstract '
            'finite map index -> (key, is_set, value) with a counter allocator, with equal return values at every '
            'step INCLUDING the error results (IndexError beyond the arrays, OverflowError/TypeError after the '
            'marker was set); corollaries on the model: fresh after add_key (NOTSET / the coerced default / {} '
            'for a mapper), read-your-write with the type coercion, fresh again after del_key;add_key (no stale '
            'value even in iterate), operations not addressing j leave every read of j unchanged (any order, '
            'sparse, descending, repeated), iterate = the non-cleared slots in strictly increasing index order, '
            'add_map never hands out an index present in any map (histories that do not plant a dict with set()) '
            'and successive add_map results strictly increase, '
            'iterate_map = the mapped keys in first-insertion order. The model is tied to memory_store.py by '
            'replaying random and small exhaustive histories (directly and through StoreManager/Store/'
            'StateTopology) and comparing every return value inside Coq.',
    'note': 'Trusted: Coq kernel+VM; hand-written literal model of memory_store.py (tied by correspondence only); '
            'array.array/list/dict semantics and CPython small-int identity are modelled, not verified; floats are '
            'integer-valued in model and tests; negative indices not modelled. A cleared slot inside the arrays '
            'reads 0/0.0/False rather than a sentinel, and set() on such a slot revives it without add_key: both '
            'are modelled literally and lie outside the property text.',
    'technique': 'Coq proof (invariant + forward simulation to a sorted finite-map spec, induction over histories) '
                 '+ vm_compute correspondence on every return value',
}
