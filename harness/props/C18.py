"""C18 - CSV dump/load round-trips typed rows (rxsci/container/csv.py; framing/line.py and io/file.py on the
file path)."""
import itertools
import json
import os
import struct
from collections import namedtuple

from harness import core
from harness.core import c_list, c_zlist, c_bool, c_Z, c_N

PID = 'C18'
RULE = ('cases: (separator, escape character, column types, rows) pushed through the real csv.dump -> line.unframe '
        '-> csv.load ("mem"), through dump_to_file -> load_from_file on real files incl. files larger than the '
        '64 KiB read size ("file"), plus a malformed stream of arbitrary lines fed to csv.load (model comparison '
        'only). Exhaustive strings over {a, sep, quote, escape} in 1-3 columns, random typed rows of 1..8 columns. '
        'ALIGNED files ("file" with field more; NON-ASCII strings): blocks of random rows (strings with 2- and '
        '4-byte UTF-8 characters), then an ASCII pad row sized so that the k-th byte of a 2-, 3- or 4-byte '
        'character of the next row falls exactly on a multiple of 65536 BYTES of the file, for every k strictly '
        'inside the character (1-of-2, 1/2-of-3, 1/2/3-of-4) and the two character edges, at 1-3 successive '
        '64 KiB boundaries; the byte position reached is measured on the real file (straddle) and reported. '
        'RE-CHUNKED path ("chunk"): what csv.dump emitted is joined and cut again into chunks whose sizes cycle '
        'through a list stored in the case (small random sizes incl. 0 for small random rows, compared with the '
        'model; 64 KiB and other sizes in the scale family) before line.unframe -> csv.load. '
        'SCALE family (field scale of the case; both through load_from_file and through the re-chunked path): '
        'long-line = short rows, then 1-3 rows with one str field of 130-400 KiB (thorough: up to 1.2 MiB; content '
        'varying with the position: random letters with <offset> stamps / mixed with separators, quotes, escape '
        'characters / mostly quotes and escapes / non-ASCII), so that one line is longer than two, three and more '
        'read chunks, starting in the middle of a chunk, right after the header, exactly at or 1-3 characters after '
        'a chunk boundary, ending anywhere or with its newline as last / first character of a chunk, followed by '
        'more rows; mib = texts of 2-9 MiB (quick: 1-2.6 MiB) made of 5-25 different blocks of short rows with '
        'different repetition counts and single rows of 1-140 KiB in between; wide = rows of 100-800 (thorough: up to '
        '3000) columns of mixed types, also with fields of some hundred characters so that one row is longer than a '
        'read chunk. Where each long line really starts inside its chunk and how many chunks it touches is measured '
        'on the text the implementation wrote (long_lines) and reported in the distribution. Scale cases beyond '
        'the size the list-based Coq model evaluates (line > 2500 characters, distinct rows > 4000 characters, text '
        '> 300000 characters) are judged by the round-trip oracle alone (Coq term CSkip); all other cases are '
        'compared with the model as well. '
        'non-trivial = a round-trip case with a string containing separator/quote/escape character or a float '
        'column; distinct = distinct case JSON')
TRUSTED = [
    'modelled not verified: Python str.split/join/replace/format, list handling in merge_escape_parts, namedtuple, '
    'RxPY synchronous delivery, text-mode file reads (f.read(n) = n characters; universal-newline translation is '
    'why \\r is excluded)',
    'int layer: str(n) and int(text) are MODELLED (Container/IntText.v: decimal digits with a leading minus sign; '
    'optional sign + ASCII digits) with their laws proved (IntTextProofs.v) and compared with CPython on every int and '
    'every int text of every case (int_layer_ok); int(text) for texts with whitespace, underscores or non-ASCII digits '
    'is outside the model',
    'float layer: str(x) and float(text) for finite floats are MODELLED too (Container/FloatText.v: shortest round-trip '
    'digits found by exact-arithmetic search, repr formatting; correctly rounded decimal-to-binary64 conversion) with '
    'float(str x) = x PROVED for every binary64 value (17 digits always suffice) and compared with CPython on every float '
    'and float text of every case (float_layer_ok); outside the model: inf / nan and texts with whitespace, underscores or '
    'non-ASCII digits; not proved: minimality of the digit string and the tie-break among equally short strings '
    '(compared with CPython only)',
    'multi-character separators: correspondence only (the theorems are for a one-character separator)',
    'scale family (lines of several read chunks, texts of several MiB, hundreds of columns): judged by the model-free '
    'round-trip oracle only; the Coq model is not evaluated on them (term CSkip, checker answers true) because it is '
    'quadratic in the length of a line; the theorems cover them (any string, any chunking, any file size)',
    'theorems are about the code WITH the two csv.py repairs of DESIGN-repairs.md (parse_decimal = float(ii); '
    'closing quote by parity of the preceding escape run); on the unrepaired code the oracle reports '
    'csv:parse_decimal and csv:merge-escape-parity',
]
ASSUMPTIONS = [
    'strings contain no \\n and no \\r; floats are finite; separator is distinct from the double quote, the escape '
    'character and newline and does not occur in str() of a number or bool; escape character is one character '
    'distinct from the double quote and newline; header=True, newline=\\n, none_values=[]',
    'dump_to_file is called with encoding=utf-8 (with encoding=None it opens the file in binary mode and cannot '
    'write str at all)',
]
SHARD = 250
COQ_TARGETS = ['theories/Container/C18Corr.vo']

FILES = os.path.join(core.WORK, PID, 'files')
QUOTE = '"'
SEPS1 = [',', ';', '|', '\t']
SEPS_MULTI = ['||', ', ', 'ab', '::']
ESCS = ['\\', '\\', '\\', '^', '~']


# --------------------------------------------------------------------------------------------------
# value encoding (JSON-able, exact): ['i', n] ['f', hex] ['b', bool] ['s', str] ['n']
# --------------------------------------------------------------------------------------------------
def enc(v):
    if type(v) is bool:
        return ['b', v]
    if type(v) is int:
        return ['i', v]
    if type(v) is float:
        return ['f', v.hex()]
    if type(v) is str:
        return ['s', v]
    if v is None:
        return ['n']
    return ['?', type(v).__name__]


def dec(e):
    k = e[0]
    if k == 'f':
        return float.fromhex(e[1])
    if k == 'n':
        return None
    return e[1]


def mk(kind, sep, esc, types, rows, repeat=1):
    return {'kind': kind, 'sep': sep, 'esc': esc, 'types': list(types), 'rows': rows, 'repeat': repeat}


def segments(case):
    """the rows of a case as (block of rows, repetitions) segments: rows x repeat, then the optional `more`"""
    return [[case['rows'], case['repeat']]] + [list(sg) for sg in case.get('more', [])]


def all_rows(case):
    out = []
    for b, k in segments(case):
        out += b * k
    return out


# --------------------------------------------------------------------------------------------------
# generators
# --------------------------------------------------------------------------------------------------
def strings_upto(alphabet, n):
    out = ['']
    for ln in range(1, n + 1):
        out += [''.join(t) for t in itertools.product(alphabet, repeat=ln)]
    return out


def exhaustive(sep, esc, strings, batch=50):
    """every string alone, as first of two and in the middle of three columns; partners cycle through a
    fixed list of awkward strings"""
    partners = ['', 'a', sep, QUOTE, esc, sep + esc, esc + QUOTE, QUOTE + sep, esc + esc, 'a' + esc]
    lay = {1: [], 2: [], 3: []}
    for i, s in enumerate(strings):
        lay[1].append([['s', s]])
        lay[2].append([['s', s], ['s', partners[i % len(partners)]]])
        lay[3].append([['s', partners[(i // 3) % len(partners)]], ['s', s], ['s', partners[(i * 7 + 1) % len(partners)]]])
    cases = []
    for n, rows in lay.items():
        for lo in range(0, len(rows), batch):
            cases.append(mk('mem', sep, esc, ['str'] * n, rows[lo:lo + batch]))
    return cases


def rnd_int(rng):
    r = rng.random()
    if r < 0.35:
        return rng.choice([0, 1, -1, 7, -42, 2 ** 31, -2 ** 63, 2 ** 64, 10 ** 20, -10 ** 25, 123456789012345678901234567890])
    if r < 0.7:
        return rng.randrange(-10 ** 6, 10 ** 6)
    return rng.randrange(-10 ** 18, 10 ** 18)


def rnd_float(rng):
    r = rng.random()
    if r < 0.2:
        x = rng.random()
    elif r < 0.4:
        x = round(rng.random() * 10 ** rng.randint(0, 6), rng.randint(0, 6))
    elif r < 0.5:
        x = rng.choice([0.0, -0.0, 1.0, -1.5, 3.1674, 0.1 + 0.2, 1e22, 1e16, 1e15, 123456789.125, 5e-324,
                        1.7976931348623157e308, 2.2250738585072014e-308, 1.5e-7, 0.0001, 0.00001, 100.0])
    elif r < 0.6:
        x = 10.0 ** rng.randint(-30, 30)
    elif r < 0.7:
        x = float(rng.randint(-1000, 1000))
    elif r < 0.85:
        x = rng.uniform(-1000, 1000)
    else:
        while True:
            x = struct.unpack('<d', struct.pack('<Q', rng.getrandbits(64)))[0]
            if x == x and x not in (float('inf'), float('-inf')):
                break
    if rng.random() < 0.3:
        x = -x
    return x


def rnd_str(rng, sep, esc):
    pieces = [sep, QUOTE, esc, 'a', 'b', ' ', 'é', '\U0001f600', "'", '1', 'True', sep + esc, esc + QUOTE,
              esc + esc, QUOTE + QUOTE, sep[0], '\t' if '\t' not in sep else ' ', '-1.5', '']
    special = [sep, QUOTE, esc, ' ']
    n = rng.choice([0, 0, 1, 1, 2, 3, 4, 6])
    s = [rng.choice(pieces) for _ in range(n)]
    if rng.random() < 0.3:
        s = [rng.choice(special)] + s            # special first
    if rng.random() < 0.3:
        s = s + [rng.choice(special)]            # special last
    if rng.random() < 0.1:
        s = [' '] + s + [' ']                    # leading / trailing blanks
    return ''.join(s)


def rnd_value(rng, ty, sep, esc):
    if ty == 'int':
        return enc(rnd_int(rng))
    if ty == 'float':
        return enc(rnd_float(rng))
    if ty == 'bool':
        return enc(rng.random() < 0.5)
    return enc(rnd_str(rng, sep, esc))


def rnd_conf(rng, multi_prob=0.2):
    sep = rng.choice(SEPS_MULTI) if rng.random() < multi_prob else rng.choice(SEPS1)
    return sep, rng.choice(ESCS)


def gen_random(rng, kind='mem', nrows=None):
    sep, esc = rnd_conf(rng)
    ncol = rng.randint(1, 8)
    types = [rng.choice(['int', 'float', 'bool', 'str', 'str', 'str']) for _ in range(ncol)]
    if rng.random() < 0.15:
        types = ['str'] * ncol
    n = nrows if nrows is not None else rng.choice([1, 1, 2, 3, 6])
    rows = [[rnd_value(rng, t, sep, esc) for t in types] for _ in range(n)]
    return mk(kind, sep, esc, types, rows)


def gen_file(rng, target):
    """a block of random rows repeated until the file is larger than `target` characters"""
    c = gen_random(rng, 'file', nrows=rng.randint(8, 40))
    # lower bound of the length of the block as dump writes it, so that the file is at least `target` long
    blk = sum(sum(len(str(dec(v))) + (2 if v[0] == 's' else 0) for v in r) + (len(r) - 1) * len(c['sep']) + 1
              for r in c['rows'])
    c['repeat'] = max(1, target // max(blk, 1) + 1) if target else 1
    return c


def gen_exact_file(rng, total):
    """one str column, a block of rows repeated so that the file has exactly `total` characters (header c0\\n
    included): files that end exactly at / one character after a 64 KiB read boundary"""
    sep, esc = rng.choice(SEPS1), '\\'
    body = total - 3
    divs = [d for d in range(40, 3000) if body % d == 0]
    if not divs:
        return gen_file(rng, total)
    blk = rng.choice(divs)
    rows, used = [], 0
    while True:
        s = rnd_str(rng, sep, esc)
        ln = len(s) + s.count(esc) + s.count(QUOTE) + 3      # quotes, escapes, newline
        if used + ln + 3 > blk:
            break
        rows.append([['s', s]])
        used += ln
    rows.append([['s', 'a' * (blk - used - 3)]])
    c = mk('file', sep, esc, ['str'], rows, body // blk)
    c['exact'] = total
    return c


def ref_field(v, esc):
    """how dump writes one value (reference rendering, used to SIZE the pad rows only)"""
    if v[0] == 's':
        return QUOTE + v[1].replace(esc, esc + esc).replace(QUOTE, esc + QUOTE) + QUOTE
    return str(dec(v))


def ref_line(row, sep, esc):
    return sep.join(ref_field(v, esc) for v in row) + '\n'


BLOCK = 64 * 1024
ALIGN_CHARS = ['\xe9', '\xdf', '\u20ac', '\u65e5', '\U0001f600', '\U00010000']


def alignments(interior_only=False):
    """(character, k): k bytes of the character's UTF-8 sequence lie before the 64 KiB byte boundary"""
    out = []
    for ch in ALIGN_CHARS:
        n = len(ch.encode('utf-8'))
        out += [(ch, k) for k in (range(1, n) if interior_only else range(0, n + 1))]
    return out


def gen_aligned_file(rng, ch, k, nb):
    """filler rows with non-ASCII strings, and before every one of the first nb multiples of 65536 bytes an ASCII
    pad row + a target row placed so that exactly k bytes of the target's character `ch` precede the boundary"""
    sep, esc = rnd_conf(rng, 0.1)
    ncol = rng.randint(1, 4)
    types = [rng.choice(['int', 'bool', 'str', 'str', 'float']) for _ in range(ncol)]
    if 'str' not in types:
        types[rng.randrange(ncol)] = 'str'
    t = types.index('str')
    bsize = lambda rows: sum(len(ref_line(r, sep, esc).encode('utf-8')) for r in rows)
    filler = []
    for _ in range(rng.randint(6, 20)):
        r = [rnd_value(rng, ty, sep, esc) for ty in types]
        r[t] = ['s', rnd_str(rng, sep, esc) + rng.choice(['\xe9', '\U0001f600', '\u20ac', 'a', ''])]
        filler.append(r)
    fb = bsize(filler)
    pos = len((sep.join('c%d' % i for i in range(ncol)) + '\n').encode('utf-8'))
    segs = []
    for j in range(1, nb + 1):
        target = [rnd_value(rng, ty, sep, esc) for ty in types]
        target[t] = ['s', rng.choice(['', 'a', sep, QUOTE, esc, 'ab ', esc + QUOTE]) + ch + rnd_str(rng, sep, esc)]
        pad = [rnd_value(rng, ty, sep, esc) for ty in types]
        pad[t] = ['s', '']
        tl = ref_line(target, sep, esc)
        before = len(tl[:tl.index(ch)].encode('utf-8'))          # columns before a str column hold no such character
        room = j * BLOCK - k - pos - before - bsize([pad])
        if room < 0:
            break
        reps, fill = divmod(room, fb)
        pad[t] = ['s', 'a' * fill]
        segs += [[filler, reps], [[pad, target], 1]]
        pos += reps * fb + bsize([pad, target])
    segs.append([filler, rng.randint(1, 3)])
    c = mk('file', sep, esc, types, segs[0][0], segs[0][1])
    c['more'] = segs[1:]
    c['align'] = [ord(ch), k, nb]
    return c


def gen_chunked(rng):
    """small random rows; the dumped text is cut again into chunks of small random sizes (cycled; a 0 now and then)
    before line.unframe: lines that span several chunks and start anywhere in a chunk, compared with the model"""
    c = gen_random(rng, 'chunk', nrows=rng.choice([1, 1, 2, 3, 5, 8]))
    top = rng.choice([1, 2, 3, 5, 8, 13, 40])
    sizes = [rng.randint(0 if rng.random() < 0.2 else 1, top) for _ in range(rng.randint(1, 8))]
    if not any(sizes):
        sizes.append(1)
    c['chunking'] = sizes
    return c


# --------------------------------------------------------------------------------------------------
# scale family: lines of several read chunks, files of several MiB, rows of hundreds of columns
# --------------------------------------------------------------------------------------------------
MODEL_MAX_LINE = 2500          # the list-based model is quadratic in the length of a line (Line.go, rev),
MODEL_MAX_CHARS = 300000       # linear, with a large constant, in the length of the text,
MODEL_MAX_TERM = 4000          # and coqc needs ~50 us per character of the term (3 x ~8 per character of a distinct row)
LETTERS = 'abcdefghijklmnopqrstuvwxyz0123456789 ABCDEFGHIJKLMNOPQRSTUVWXYZ_-.:/'
FLAVOURS = ['plain', 'stamp', 'mixed', 'mixed', 'dense', 'dense', 'nonascii']


def scale_text(rng, n, flavour, sep, esc):
    """n characters (no newline) whose content varies with the position: random pieces, plus <offset> stamps"""
    plain = list(LETTERS)
    if flavour in ('plain', 'stamp'):
        pieces = plain
    elif flavour == 'mixed':
        pieces = plain + [sep, sep, QUOTE, QUOTE, esc, esc, esc + QUOTE, sep + QUOTE, QUOTE + sep, ' ', ' ']
    elif flavour == 'dense':
        pieces = [QUOTE, QUOTE, esc, esc, esc + QUOTE, esc + esc, QUOTE + QUOTE, sep, QUOTE + sep, sep + QUOTE,
                  esc + sep, 'a', 'b', ' ']
    else:
        pieces = plain + ['\xe9', '\u20ac', '\U0001f600', '\u65e5', sep, QUOTE, esc]
    body = ''.join(rng.choices(pieces, k=n))[:n]
    if flavour == 'dense' or (flavour != 'stamp' and rng.random() < 0.5):
        return body
    parts, pos = [], 0
    while pos < n:
        st, ln = '<%d>' % pos, rng.randint(40, 3000)
        parts.append((st + body[pos + len(st):pos + ln])[:ln])
        pos += ln
    return ''.join(parts)[:n]


def scale_types(rng, lo, hi):
    ncol = rng.randint(lo, hi)
    types = [rng.choice(['int', 'float', 'bool', 'str', 'str']) for _ in range(ncol)]
    if 'str' not in types:
        types[rng.randrange(ncol)] = 'str'
    return types


def finish_scale(c, segs, info, sep, esc):
    """case from the segments; the reference rendering is used to SIZE things only (is the case small enough for
    the model; which lines are long)"""
    segs = [sg for sg in segs if sg[0] and sg[1] > 0]
    c['rows'], c['repeat'], c['more'] = segs[0][0], segs[0][1], segs[1:]
    lens = [(len(ref_line(r, sep, esc)), k) for b, k in segs for r in b]
    total = sum(n * k for n, k in lens)
    info['model'] = (max(n for n, k in lens) <= MODEL_MAX_LINE and total <= MODEL_MAX_CHARS
                     and sum(n for n, k in lens) <= MODEL_MAX_TERM)
    c['scale'] = info
    return c


def gen_scale_long(rng, kind, lo=130 * 1024, hi=400 * 1024):
    """short rows, then 1-3 rows with one str field of lo..hi characters (so that the line is longer than two,
    three, ... read chunks) starting in the middle of a chunk / right after the header / exactly at or just after
    a chunk boundary and ending anywhere / exactly at a boundary, then more rows"""
    sep, esc = rnd_conf(rng, 0.15)
    types = scale_types(rng, 1, 6)
    strs = [i for i, ty in enumerate(types) if ty == 'str']
    t = rng.choice(strs)
    c = mk(kind, sep, esc, types, [])
    if kind == 'chunk':
        c['chunking'] = rng.choice([[BLOCK], [BLOCK], [BLOCK], [32768], [100000], [BLOCK, 1], [8192],
                                    [rng.randint(20000, 90000) for _ in range(rng.randint(2, 6))]])
    B = c['chunking'][0] if kind == 'chunk' and len(c['chunking']) == 1 else BLOCK
    short = lambda: [rnd_value(rng, ty, sep, esc) for ty in types]
    size = lambda rows: sum(len(ref_line(r, sep, esc)) for r in rows)
    pos = len(sep.join('c%d' % i for i in range(len(types)))) + 1

    def pad_to(rows, pos, target):
        """short rows + one pad row so that the next row starts at character offset == target (mod B)"""
        pad = short()
        pad[t] = ['s', '']
        while (target - pos - size([pad])) % B > 3000 and len(rows) < 20000:
            r = short()
            rows.append(r)
            pos += size([r])
        pad[t] = ['s', 'a' * ((target - pos - size([pad])) % B)]
        rows.append(pad)
        return pos + size([pad])

    start = rng.choice(['mid', 'mid', 'mid', 'mid', 'first', 'boundary', 'after-boundary'])
    prefix = []
    if start == 'mid':
        target = rng.randrange(pos, B * rng.choice([1, 1, 1, 2, 3]))
        while pos < target:
            r = short()
            prefix.append(r)
            pos += size([r])
    elif start != 'first':
        pos = pad_to(prefix, pos, 0 if start == 'boundary' else rng.randint(1, 3))
    segs = [[prefix, 1]]
    nlong = rng.choice([1, 1, 1, 2, 3])
    ends, flavours, longest = [], [], 0
    for j in range(nlong):
        row = short()
        fl = rng.choice(FLAVOURS)
        text = scale_text(rng, rng.randint(lo, hi), fl, sep, esc)
        if len(strs) > 1 and rng.random() < 0.2:            # a second long field in the same row
            row[rng.choice([i for i in strs if i != t])] = ['s', scale_text(rng, rng.randint(30000, 100000),
                                                                          rng.choice(FLAVOURS), sep, esc)]
        row[t] = ['s', text]
        end = rng.choice(['free', 'free', 'free', 'newline-last-of-chunk', 'newline-first-of-chunk'])
        if end != 'free':                                   # plain characters add exactly their number to the line
            want = 0 if end == 'newline-last-of-chunk' else 1
            row[t] = ['s', text + scale_text(rng, (want - pos - size([row])) % B, 'stamp', sep, esc)]
        pos += size([row])
        longest = max(longest, size([row]))
        ends.append(end)
        flavours.append(fl)
        between = [short() for _ in range(rng.choice([0, 0, 1, 5]))] if j + 1 < nlong else []
        pos += size(between)
        segs += [[[row], 1], [between, 1]]
    tail = [short() for _ in range(rng.randint(1, 30))]
    segs.append([tail, rng.choice([1, 1, 3, 50])])
    return finish_scale(c, segs, {'family': 'long-line', 'start': start, 'ends': ends, 'flavours': flavours,
                                  'longest_line': longest}, sep, esc)


def gen_scale_mib(rng, kind, lo, hi):
    """a text of lo..hi characters: 5-25 different blocks of short rows, each repeated a different number of times,
    with single medium rows (1-20 KiB) and now and then a line longer than a read chunk in between"""
    sep, esc = rnd_conf(rng, 0.15)
    types = scale_types(rng, 1, 8)
    t = types.index('str')
    c = mk(kind, sep, esc, types, [])
    if kind == 'chunk':
        c['chunking'] = rng.choice([[BLOCK], [BLOCK], [16384], [250000], [rng.randint(1000, 90000) for _ in range(5)]])
    short = lambda: [rnd_value(rng, ty, sep, esc) for ty in types]
    target, nblocks = rng.randint(lo, hi), rng.randint(5, 25)
    segs, longest = [], 0
    for j in range(nblocks):
        blk = [short() for _ in range(rng.randint(3, 60))]
        n = sum(len(ref_line(r, sep, esc)) for r in blk)
        segs.append([blk, max(1, int(target / nblocks * rng.uniform(0.3, 1.7)) // n)])
        if rng.random() < 0.6:
            row = short()
            ln = rng.choice([1000, 5000, 20000, 20000, 70000, 140000]) + rng.randint(0, 999)
            row[t] = ['s', scale_text(rng, ln, rng.choice(FLAVOURS), sep, esc)]
            longest = max(longest, len(ref_line(row, sep, esc)))
            segs.append([[row], 1])
    return finish_scale(c, segs, {'family': 'mib', 'longest_line': longest}, sep, esc)


def gen_scale_wide(rng, kind, lo=100, hi=800, small=False):
    """rows of lo..hi columns of mixed types (strings with separators, quotes, escape characters); a few to a few
    hundred rows, so that the widest lines also cross the read chunks; small: 1-2 rows of short values, so that the
    case is (usually) within the size the Coq model evaluates"""
    sep, esc = rnd_conf(rng, 0.15)
    types = scale_types(rng, lo, hi)
    c = mk(kind, sep, esc, types, [])
    if kind == 'chunk':
        c['chunking'] = rng.choice([[BLOCK], [4096], [1000, 1, 50], [rng.randint(1, 3000) for _ in range(6)]])
    fat = rng.random() < 0.5 and not small     # strings of some hundred characters: one line = several read chunks

    def value(ty):
        if ty == 'str' and fat and rng.random() < 0.5:
            return ['s', scale_text(rng, rng.randint(50, 600), rng.choice(FLAVOURS), sep, esc)]
        return rnd_value(rng, ty, sep, esc)
    blk = [[value(ty) for ty in types] for _ in range(rng.choice([1, 2] if small else [1, 2, 3, 5, 8]))]
    tail = [[value(ty) for ty in types] for _ in range(0 if small else rng.choice([0, 1, 2]))]
    longest = max(len(ref_line(r, sep, esc)) for r in blk + tail)
    return finish_scale(c, [[blk, rng.choice([1, 1, 2, 10, 40])], [tail, 1]],
                        {'family': 'wide', 'longest_line': longest}, sep, esc)


def gen_scale(rng, tier):
    kinds = ['file', 'chunk']
    if tier == 'quick':
        out = [gen_scale_long(rng, k) for k in kinds * 3]
        out += [gen_scale_long(rng, rng.choice(kinds), 66000, 130 * 1024)]
        out += [gen_scale_mib(rng, 'file', 2000000, 2600000), gen_scale_mib(rng, 'chunk', 1000000, 1300000)]
        out += [gen_scale_wide(rng, k) for k in kinds] + [gen_scale_wide(rng, rng.choice(kinds), 100, 250, small=True)]
        return out
    out = [gen_scale_long(rng, k) for k in kinds * 30]
    out += [gen_scale_long(rng, k, 66000, 130 * 1024) for k in kinds * 5]
    out += [gen_scale_long(rng, k, 400 * 1024, 1200 * 1024) for k in kinds * 2]
    out += [gen_scale_mib(rng, k, 2 << 20, 9 << 20) for k in ['file'] * 5 + ['chunk'] * 3]
    out += [gen_scale_wide(rng, k) for k in kinds * 12] + [gen_scale_wide(rng, k, 800, 3000) for k in kinds]
    out += [gen_scale_wide(rng, k, 100, 300, small=True) for k in kinds * 4]
    return out


def gen_parse(rng):
    sep, esc = rnd_conf(rng, 0.1)
    ncol = rng.randint(1, 3)
    types = [rng.choice(['str', 'str', 'bool']) for _ in range(ncol)]
    alph = [sep, sep, QUOTE, QUOTE, esc, 'a', ' ', 'True']
    line = ''.join(rng.choice(alph) for _ in range(rng.choice([0, 1, 2, 3, 4, 5, 6, 8, 10])))
    return {'kind': 'parse', 'sep': sep, 'esc': esc, 'types': types, 'lines': [sep.join('c%d' % i for i in range(ncol)), line]}


def exhaustive_parse(sep, esc, n):
    out = []
    for s in strings_upto(['a', sep, QUOTE, esc], n):
        for ncol in (1, 2, 3):
            out.append({'kind': 'parse', 'sep': sep, 'esc': esc, 'types': ['str'] * ncol,
                        'lines': [sep.join('c%d' % i for i in range(ncol)), s]})
    return out


def seeds():
    """small hand-picked edge rows (they also serve as the samples of the evidence file)"""
    S = lambda *xs: [['s', x] for x in xs]
    F = lambda *xs: [enc(x) for x in xs]
    return [
        mk('mem', ',', '\\', ['str', 'int', 'bool'], [S('a "b"') + [['i', 42], ['b', False]], S('"b\\') + [['i', 2], ['b', True]]]),
        mk('mem', ',', '\\', ['str'], [S(',\\')]),
        mk('mem', ',', '\\', ['float'], [F(-1.5)]),
        mk('mem', ',', '\\', ['float'], [F(-0.0)]),
        mk('mem', ',', '\\', ['float'], [F(3.1674)]),
        mk('mem', ',', '\\', ['str', 'str'], [S('x,\\\\', ',')]),
        mk('mem', ';', '^', ['str', 'str', 'str'], [S('', ';', '^;^')]),
        mk('mem', '||', '\\', ['str', 'float'], [S('|') + F(1e-5)]),
        mk('mem', ',', '\\', ['int', 'str'], []),
        mk('file', ',', '\\', ['int', 'str'], []),
        mk('file', '\t', '\\', ['str', 'float', 'bool'], [S(' a\tb ') + F(2.5) + [['b', True]]]),
    ]


def generate(rng, tier):
    if tier == 'search':
        return [gen_random(rng) for _ in range(300)] + [gen_parse(rng) for _ in range(100)]
    cases = []
    # (a) exhaustive strings over {a, sep, quote, escape}
    all6 = strings_upto(['a', ',', QUOTE, '\\'], 6)
    if tier == 'quick':
        small = [s for s in all6 if len(s) <= 5]
        big = [s for s in all6 if len(s) > 5]
        cases += exhaustive(',', '\\', small + rng.sample(big, 1000))
        cases += exhaustive('||', '^', rng.sample(strings_upto(['a', '||', QUOTE, '^', '|'], 4), 300))
        cases += exhaustive(';', '~', rng.sample(strings_upto(['a', ';', QUOTE, '~'], 5), 300))
        cases += exhaustive_parse(',', '\\', 5)
        n_rand, n_parse, files = 1200, 800, [0, 66000, 70000, 131100]
        exact, n_chunked = [65536], 200
    else:
        cases += exhaustive(',', '\\', all6)
        for sep, esc in [(';', '^'), ('\t', '\\'), ('|', '~')]:
            cases += exhaustive(sep, esc, strings_upto(['a', sep, QUOTE, esc], 5))
        for sep, esc in [('||', '\\'), (', ', '^'), ('ab', '\\')]:
            cases += exhaustive(sep, esc, strings_upto(['a', sep, QUOTE, esc, sep[0]], 4))
        cases += exhaustive_parse(',', '\\', 5)
        cases += exhaustive_parse('||', '^', 4)
        n_rand, n_parse, n_chunked = 20000, 8000, 4000
        exact = [65535, 65536, 65537, 65537, 131072, 131073, 196608]
        files = [0, 0, 500, 65000, 65530, 65536, 65540, 66000, 66000, 70000, 70000, 80000, 100000, 131000,
                 131072, 131100, 140000, 200000, 66000, 67000, 68000, 69000, 90000, 262200]
    # (b) random typed rows, (d) malformed lines; shuffled so that the Coq shards have similar sizes
    # (b') the dumped text of small random rows cut again into small random chunks (in-memory re-chunked path)
    cases += [gen_random(rng) for _ in range(n_rand)] + [gen_parse(rng) for _ in range(n_parse)]
    cases += [gen_chunked(rng) for _ in range(n_chunked)]
    rng.shuffle(cases)
    # (c) real files, spread over the shards
    fcases = [gen_file(rng, t) for t in files] + [gen_exact_file(rng, t) for t in exact]
    # (c') non-ASCII files with a multi-byte character across the 64 KiB byte boundaries, every alignment
    if tier == 'quick':
        al = alignments(True) + rng.sample([a for a in alignments() if a not in alignments(True)], 3)
        fcases += [gen_aligned_file(rng, ch, k, rng.choice([1, 1, 2])) for ch, k in al]
    else:
        fcases += [gen_aligned_file(rng, ch, k, nb) for ch, k in alignments() for nb in (1, 2, 3)]
    # (e) scale: lines of several read chunks, texts of several MiB, hundreds of columns; file and re-chunked path
    fcases += gen_scale(rng, tier)
    step = max(1, len(cases) // (len(fcases) + 1))
    for i, fc in enumerate(fcases):
        cases.insert(min(len(cases), (i + 1) * step + i), fc)
    return seeds() + cases


# --------------------------------------------------------------------------------------------------
# implementation runner
# --------------------------------------------------------------------------------------------------
_counter = [0]


def collect(obs):
    out, end = [], []
    obs.subscribe(on_next=out.append, on_error=lambda e: end.append('error:' + type(e).__name__),
                  on_completed=lambda: end.append('completed'))
    return out, (end[0] if end else 'pending')


def segs_multi(items, shape, head, join):
    """run-length form along the segments of the case: items = head + for each (n, k) of shape k times the same
    n items; None when the sequence does not have that shape"""
    if len(items) != head + sum(n * k for n, k in shape):
        return None
    out = [[join(items[:head]), 1]] if head else []
    pos = head
    for n, k in shape:
        blk = items[pos:pos + n]
        if items[pos:pos + n * k] != blk * k:
            return None
        if n * k:
            out.append([join(blk), k])
        pos += n * k
    return out


def segs(seq, k, head=0):
    """run-length form of a periodic sequence: [[prefix,1],[block,k]] or the whole thing"""
    n = len(seq) - head
    if k > 1 and n > 0 and n % k == 0:
        b = n // k
        if seq[:head] + seq[head:head + b] * k == seq:
            return ([[seq[:head], 1]] if head else []) + [[seq[head:head + b], k]]
    return [[seq, 1]] if len(seq) else []


def schema_of(cols, types):
    """the three documented forms of "the matching schema", chosen by a hash of the column types (no random draw):
    (name, 'int') strings, (name, int) Python types, a typing.NamedTuple class"""
    import typing
    import zlib
    form = zlib.crc32(('%d:' % len(types) + ','.join(types)).encode()) % 3
    if form == 0:
        return list(zip(cols, types))
    py = {'int': int, 'float': float, 'bool': bool, 'str': str}
    if form == 1:
        return [(c, py[t]) for c, t in zip(cols, types)]
    return typing.NamedTuple('Row%d' % (zlib.crc32(','.join(types).encode()) % 100000), [(c, py[t]) for c, t in zip(cols, types)])


def run_impl(case):
    import rx
    from rxsci.container import csv
    from rxsci.framing import line
    import rxsci.io.file as file
    sep, esc, types = case['sep'], case['esc'], case['types']
    cols = ['c%d' % i for i in range(len(types))]
    parser = csv.create_line_parser(dtype=schema_of(cols, types), separator=sep, escapechar=esc)
    if case['kind'] == 'parse':
        rows, end = collect(rx.from_(case['lines']).pipe(csv.load(parser)))
        return {'rows': [[enc(v) for v in r] for r in rows], 'end': end}
    X = namedtuple('X', cols)
    items = [X(*[dec(v) for v in r]) for r in all_rows(case)]
    with_model = model_ok(case)
    if case['kind'] == 'chunk':
        lines, dend = collect(rx.from_(items).pipe(csv.dump(separator=sep, escapechar=esc)))
        text = ''.join(lines)
        chunks, pos, i, sizes = [], 0, 0, case['chunking']
        while pos < len(text):
            chunks.append(text[pos:pos + sizes[i % len(sizes)]])
            pos += sizes[i % len(sizes)]
            i += 1
        rows, end = collect(rx.from_(chunks).pipe(line.unframe(), csv.load(parser)))
        rows = [[enc(v) for v in r] for r in rows]
        rseg = segs_multi(rows, [(len(b), k) for b, k in segments(case)], 0, list)
        return {'chunks': chunks if with_model else None, 'dump_end': dend, 'chars': len(text), 'nchunks': len(chunks),
                'long_lines': long_lines(text, [len(ch) for ch in chunks]),
                'rows': rseg or ([[rows, 1]] if rows else []), 'end': end}
    if case['kind'] == 'mem':
        lines, dend = collect(rx.from_(items).pipe(csv.dump(separator=sep, escapechar=esc)))
        rows, end = collect(rx.from_(lines).pipe(line.unframe(), csv.load(parser)))
        # one parser object serves several loads (a series of files read with the same schema): the second load of
        # the same text must deliver the same rows
        rows2, end2 = collect(rx.from_(lines).pipe(line.unframe(), csv.load(parser)))
        o = {'lines': lines, 'dump_end': dend, 'rows': [[enc(v) for v in r] for r in rows], 'end': end}
        r2 = [[enc(v) for v in r] for r in rows2]
        if r2 != o['rows'] or end2 != end:
            o['second_load'] = {'rows': r2[:3], 'n': len(r2), 'end': end2}
        return o
    os.makedirs(FILES, exist_ok=True)
    _counter[0] += 1
    fn = os.path.join(FILES, 'f%05d.csv' % _counter[0])
    # when completion is signalled the file must be complete on disk (a consumer may read it back from its
    # on_completed callback): its size at that moment is compared with its final size
    at_end, dend_l = [], []
    rx.from_(items).pipe(csv.dump_to_file(fn, separator=sep, escapechar=esc, encoding='utf-8')).subscribe(
        on_next=lambda i: None, on_error=lambda e: dend_l.append('error:' + type(e).__name__),
        on_completed=lambda: (dend_l.append('completed'), at_end.append(os.path.getsize(fn) if os.path.exists(fn) else -1)))
    dend = dend_l[0] if dend_l else 'pending'
    with open(fn, newline='', encoding='utf-8') as f:
        content = f.read()
    chunks, _ = collect(file.read(fn, size=64 * 1024, encoding='utf-8'))
    rows, end = collect(csv.load_from_file(fn, parser, encoding='utf-8'))
    second = None
    if len(items) <= 200:          # the same parser object reads the file a second time
        rows2, end2 = collect(csv.load_from_file(fn, parser, encoding='utf-8'))
        if [[enc(v) for v in r] for r in rows2] != [[enc(v) for v in r] for r in rows] or end2 != end:
            second = {'n': len(rows2), 'end': end2}
    size = os.path.getsize(fn)
    early = at_end[0] if at_end and at_end[0] != size else None
    with open(fn, 'rb') as f:
        data = f.read()
    os.remove(fn)
    straddle = []       # for every multiple of 64 KiB bytes: bytes of an unfinished UTF-8 sequence before it
    for off in range(BLOCK, len(data), BLOCK):
        n = 0
        while n < 4 and off - n > 0 and data[off - n] & 0xC0 == 0x80:
            n += 1
        straddle.append(n)
    rows = [[enc(v) for v in r] for r in rows]
    head = content.index('\n') + 1 if '\n' in content else 0
    if case.get('more') or case.get('scale'):
        shape = [(len(b), k) for b, k in segments(case)]
        lines = [l + '\n' for l in content.split('\n')[:-1]] if content.endswith('\n') else None
        cseg = segs_multi(lines, shape, 1, ''.join) if lines else None
        rseg = segs_multi(rows, shape, 0, list)
        o = {'content': cseg or [[content, 1]], 'dump_end': dend, 'size_at_completion': early, 'second_load': second, 'lens': [len(c) for c in chunks],
             'rows': rseg or ([[rows, 1]] if rows else []), 'end': end, 'bytes': size, 'chars': len(content),
             'straddle': straddle}
        if case.get('scale'):
            o['long_lines'] = long_lines(content, o['lens'])
            if not with_model:
                o['content'] = None      # not compared with the model (CSkip): the oracle needs the rows only
        return o
    return {'content': segs(content, case['repeat'], head), 'dump_end': dend, 'size_at_completion': early, 'second_load': second, 'lens': [len(c) for c in chunks],
            'rows': segs(rows, case['repeat']), 'end': end, 'bytes': size, 'chars': len(content),
            'straddle': straddle}


def long_lines(text, lens):
    """[offset of the line start inside its chunk, length of the line incl. newline, chunks it touches] of the (at
    most 8 longest) lines of `text` that touch three or more of the chunks of lengths `lens`"""
    import bisect
    bounds, p = [], 0
    for n in lens:
        p += n
        bounds.append(p)             # bounds[i] = offset of the first character after chunk i
    out, start = [], 0
    while start < len(text):
        nl = text.find('\n', start)
        stop = nl + 1 if nl >= 0 else len(text)
        if stop - start > 2:
            a, b = bisect.bisect_right(bounds, start), bisect.bisect_right(bounds, stop - 1)
            if b - a >= 2:
                out.append([start - (bounds[a - 1] if a else 0), stop - start, b - a + 1])
        start = stop
    return sorted(out, key=lambda e: -e[1])[:8]


def model_ok(case):
    """scale cases beyond the size the list-based Coq model evaluates in reasonable time are judged by the
    round-trip oracle alone (term CSkip); decided at generation time from the reference rendering"""
    return not case.get('scale') or bool(case['scale'].get('model'))


def expand(sg):
    out = []
    for b, k in sg:
        out += b * k
    return out


# --------------------------------------------------------------------------------------------------
# model-free oracle: the round trip itself
# --------------------------------------------------------------------------------------------------
def oracle(case, obs):
    if case['kind'] == 'parse':
        return None
    if 'raised' in obs:
        return {'sig': 'csv:raised', 'what': 'dump/load raised %s: %s' % (obs['raised'], obs.get('msg'))}
    if obs.get('second_load'):
        return {'sig': 'csv:parser-reused', 'what': 'the same parser object used for a second load of the same text: %s, the first '
                'load gave %d rows and ended %s' % (json.dumps(obs['second_load'])[:200], len(obs['rows']), obs['end'])}
    if obs.get('size_at_completion') is not None:
        return {'sig': 'csv:completed-before-file-complete', 'what': 'dump_to_file signalled completion when the file held %d '
                'bytes; complete it holds %d' % (obs['size_at_completion'], obs.get('bytes', -1))}
    want = all_rows(case)
    got = expand(obs['rows']) if case['kind'] in ('file', 'chunk') else obs['rows']
    esc = case['esc']
    bad_row, only_float = None, True
    for i, w in enumerate(want):
        if i >= len(got):
            bad_row, only_float = i, False
            break
        g = got[i]
        diff = [j for j in range(max(len(w), len(g))) if j >= len(w) or j >= len(g) or w[j] != g[j]]
        if diff:
            bad_row = i
            only_float = len(w) == len(g) and all(w[j][0] == 'f' and g[j][0] == 'f' for j in diff)
            break
    if bad_row is None and len(got) == len(want) and obs['end'] == 'completed' and obs.get('dump_end') == 'completed':
        return None
    if bad_row is None:
        return {'sig': 'csv:roundtrip', 'what': 'rows equal but %d extra rows / end=%s dump_end=%s'
                % (len(got) - len(want), obs['end'], obs.get('dump_end'))}
    w = want[bad_row]
    g = got[bad_row] if bad_row < len(got) else None
    if str(obs['end']).startswith('error:Unicode'):
        sig = 'csv:file-decode-error'
    elif only_float:
        sig = 'csv:parse_decimal'
    elif any(v[0] == 's' and v[1].endswith(esc) for v in w):
        sig = 'csv:merge-escape-parity'
    else:
        sig = 'csv:roundtrip'
    show = list(range(max(len(w), len(g or []))))
    if len(show) > 12:          # wide rows: the first columns that differ
        show = [j for j in show if j >= len(w) or g is None or j >= len(g) or w[j] != g[j]][:6]
    cut = lambda t: t if len(t) <= 60 else t[:60] + '...[%d characters]' % len(t)
    short = lambda r: [dec(r[j]) if r[j][0] not in '?s' else cut(r[j][1]) for j in show if j < len(r)]
    what = 'row %d written %r (sep %r esc %r) read back %r end=%s' % (
        bad_row, short(w), case['sep'], esc, None if g is None else short(g), obs['end'])
    if len(w) > 12:
        what += '; %d columns, shown: %s' % (len(w), show)
    if g is not None and len(g) == len(w):
        for j, (a, b) in enumerate(zip(w, g)):
            if a != b and a[0] == 's' and b[0] == 's' and max(len(a[1]), len(b[1])) > 60:
                k = next((k for k in range(min(len(a[1]), len(b[1]))) if a[1][k] != b[1][k]), min(len(a[1]), len(b[1])))
                what += '; column %d: strings of %d (written) and %d (read back) characters differ from offset %d: ' \
                        '%r / %r' % (j, len(a[1]), len(b[1]), k, a[1][k:k + 40], b[1][k:k + 40])
                break
    if case['kind'] == 'chunk':
        what += '; text of %s characters cut into %s chunks of sizes %s (cycled), %d rows written, %d read back' % (
            obs.get('chars'), obs.get('nchunks'), case['chunking'][:8], len(want), len(got))
    if obs.get('long_lines'):
        what += '; lines over 3+ chunks [offset of the line start in its chunk, length, chunks]: %s' % obs['long_lines'][:3]
    if case['kind'] == 'file':
        what += '; file of %s bytes, %d rows written, %d read back, unfinished UTF-8 bytes before the 64 KiB byte ' \
                'boundaries: %s' % (obs.get('bytes'), len(want), len(got), obs.get('straddle'))
    return {'sig': sig, 'what': what}


def _special(case, v):
    return v[0] == 's' and any(ch in v[1] for ch in (case['sep'], QUOTE, case['esc']))


def nontrivial(case, obs):
    if case['kind'] == 'parse' or not case['rows']:
        return False
    return 'float' in case['types'] or any(_special(case, v) for b, k in segments(case) for r in b for v in r)


def describe(cases, obs):
    d = {'mem': 0, 'file': 0, 'parse': 0, 'rows': 0, 'columns': {}, 'separators': {}, 'escapechars': {},
         'fields': {'int': 0, 'float': 0, 'bool': 0, 'str': 0}, 'str_with_sep': 0, 'str_with_quote': 0,
         'str_with_esc': 0, 'str_ending_with_esc': 0, 'str_empty': 0, 'str_blank_edge': 0, 'rows_needing_merge': 0,
         'float_negative': 0, 'float_negzero': 0, 'int_negative': 0, 'file_chars': [], 'files_over_64k': 0,
         'max_chunks_per_file': 0, 'file_bytes_max': 0, 'files_with_non_ascii': 0, 'byte_boundaries_64k': 0,
         'byte_boundaries_inside_multibyte_char': {}, 'files_with_boundary_inside_char': 0,
         'chunk': 0, 'chunk_sizes_max': 0,
         'scale': {'cases': {}, 'without_model_comparison': 0, 'longest_line_chars': 0, 'max_chunks_under_one_line': 0,
                   'lines_over_3plus_chunks': 0, 'of_which_start_inside_a_chunk': 0, 'of_which_start_at_a_chunk_start': 0,
                   'long_line_start': {}, 'long_line_end': {}, 'long_field_flavours': {}, 'max_columns': 0,
                   'max_text_chars': 0, 'texts_over_1MiB': 0, 'max_rows': 0}}
    for c, o in zip(cases, obs):
        d[c['kind']] += 1
        d['separators'][repr(c['sep'])] = d['separators'].get(repr(c['sep']), 0) + 1
        d['escapechars'][repr(c['esc'])] = d['escapechars'].get(repr(c['esc']), 0) + 1
        d['columns'][str(len(c['types']))] = d['columns'].get(str(len(c['types'])), 0) + 1
        if c['kind'] == 'parse':
            continue
        d['rows'] += sum(len(b) * k for b, k in segments(c))
        if c['kind'] == 'chunk':
            d['chunk_sizes_max'] = max(d['chunk_sizes_max'], max(c['chunking']))
        if c.get('scale'):
            sc, inf = d['scale'], c['scale']
            key = '%s/%s' % (inf['family'], c['kind'])
            sc['cases'][key] = sc['cases'].get(key, 0) + 1
            sc['without_model_comparison'] += not inf.get('model')
            sc['max_columns'] = max(sc['max_columns'], len(c['types']))
            sc['max_rows'] = max(sc['max_rows'], sum(len(b) * k for b, k in segments(c)))
            for name, vals in (('long_line_start', [inf.get('start')]), ('long_line_end', inf.get('ends', [])),
                               ('long_field_flavours', inf.get('flavours', []))):
                for x in vals:
                    if x:
                        sc[name][x] = sc[name].get(x, 0) + 1
            if isinstance(o, dict) and 'chars' in o:
                sc['max_text_chars'] = max(sc['max_text_chars'], o['chars'])
                sc['texts_over_1MiB'] += o['chars'] > 1 << 20
                for off, ln, n in o.get('long_lines', []):
                    sc['longest_line_chars'] = max(sc['longest_line_chars'], ln)
                    sc['max_chunks_under_one_line'] = max(sc['max_chunks_under_one_line'], n)
                    sc['lines_over_3plus_chunks'] += 1
                    sc['of_which_start_inside_a_chunk'] += off > 0
                    sc['of_which_start_at_a_chunk_start'] += off == 0
        if c['kind'] == 'file' and isinstance(o, dict) and 'chars' in o:
            d['file_chars'].append(o['chars'])
            d['files_over_64k'] += o['chars'] > 65536
            d['max_chunks_per_file'] = max(d['max_chunks_per_file'], len(o['lens']))
            d['file_bytes_max'] = max(d['file_bytes_max'], o['bytes'])
            d['files_with_non_ascii'] += o['bytes'] > o['chars']
            d['byte_boundaries_64k'] += len(o.get('straddle', []))
            d['files_with_boundary_inside_char'] += any(x > 0 for x in o.get('straddle', []))
            for x in o.get('straddle', []):
                if x > 0:
                    key = '%d-bytes-before' % x
                    if c.get('align'):
                        key = '%d-of-%d-bytes-before' % (x, len(chr(c['align'][0]).encode('utf-8')))
                    d['byte_boundaries_inside_multibyte_char'][key] = d['byte_boundaries_inside_multibyte_char'].get(key, 0) + 1
        for r in [r for b, k in segments(c) for r in b]:
            merge = False
            for t, v in zip(c['types'], r):
                d['fields'][t] += 1
                if v[0] == 's':
                    s = v[1]
                    d['str_with_sep'] += c['sep'] in s
                    merge = merge or c['sep'] in s
                    d['str_with_quote'] += QUOTE in s
                    d['str_with_esc'] += c['esc'] in s
                    d['str_ending_with_esc'] += s.endswith(c['esc'])
                    d['str_empty'] += s == ''
                    d['str_blank_edge'] += s != s.strip()
                elif v[0] == 'f':
                    d['float_negative'] += v[1].startswith('-')
                    d['float_negzero'] += v[1] == '-0x0.0p+0'
                elif v[0] == 'i':
                    d['int_negative'] += v[1] < 0
            d['rows_needing_merge'] += merge
    return d


# --------------------------------------------------------------------------------------------------
# Coq side
# --------------------------------------------------------------------------------------------------
def coq_preamble():
    return ('From Coq Require Import List ZArith NArith Bool.\nImport ListNotations.\n'
            'From RxVerif Require Import Base.Corr Framing.Line Container.Csv Container.C18Corr.\n')


CTYPE = 'c18case'
CHECKER = 'c18_check'
TY = {'int': 'TInt', 'float': 'TFloat', 'bool': 'TBool', 'str': 'TStr'}


def zs(s):
    return c_zlist([ord(c) for c in s])


def c_val(v):
    k = v[0]
    if k == 'i':
        return '(VInt %s)' % c_Z(v[1])
    if k == 'f':
        return '(VFloat %s)' % zs(v[1])
    if k == 'b':
        return '(VBool %s)' % c_bool(v[1])
    if k == 's':
        return '(VStr %s)' % zs(v[1])
    if k == 'n':
        return 'VNone'
    raise ValueError('value of an unexpected type: %r' % (v,))


def c_rows(rows):
    return c_list([c_list([c_val(v) for v in r]) for r in rows])


def c_tabs(case):
    """str / int / float of CPython on the numbers of the case: the trusted oracle of the number layer"""
    ints, floats = {}, {}
    for r in ([r for b, k in segments(case) for r in b] if 'rows' in case else []):
        for v in r:
            if v[0] == 'i':
                ints[v[1]] = str(v[1])
            elif v[0] == 'f':
                floats[v[1]] = str(float.fromhex(v[1]))
    istr = c_list(['(%s, %s)' % (c_Z(n), zs(t)) for n, t in sorted(ints.items())])
    ipar = c_list(['(%s, %s)' % (zs(t), c_Z(int(t))) for t in sorted(set(ints.values()))])
    fstr = c_list(['(%s, %s)' % (zs(h), zs(t)) for h, t in sorted(floats.items())])
    fpar = c_list(['(%s, %s)' % (zs(t), zs(float(t).hex())) for t in sorted(set(floats.values()))])
    def tri(h):
        import math
        x = float.fromhex(h)
        sg = 'true' if math.copysign(1.0, x) < 0 else 'false'
        a = abs(x)
        if a == 0.0:
            m, e = 0, 0
        elif a < 2.0 ** -1022:
            m, e = int(a / 2.0 ** -1074), -1074
        else:
            mant, ex = math.frexp(a)
            m, e = int(mant * 2 ** 53), ex - 53
        return '(%s, %s, %s)' % (sg, c_Z(m), c_Z(e))
    ftri = c_list(['(%s, %s)' % (tri(h), zs(t)) for h, t in sorted(floats.items())
                   if float.fromhex(h) == float.fromhex(h) and abs(float.fromhex(h)) != float('inf')])
    return '(mkTabs %s %s %s %s %s)' % (istr, ipar, fstr, fpar, ftri)


def c_head(case):
    return '%s %s %s' % (zs(case['sep']), c_Z(ord(case['esc'])), c_list([TY[t] for t in case['types']]))


def c_names(case):
    return c_list([zs('c%d' % i) for i in range(len(case['types']))])


def coq_term(case, obs):
    if 'raised' in obs:
        return 'CRaised'
    try:
        done = c_bool(obs['end'] == 'completed')
        if case['kind'] == 'parse':
            return 'CParse %s %s %s %s %s' % (c_head(case), c_tabs(case), c_list([zs(l) for l in case['lines']]),
                                             c_rows(obs['rows']), done)
        if obs.get('dump_end') != 'completed':
            return 'CRaised'
        if not model_ok(case):
            return 'CSkip'
        if case['kind'] == 'chunk':
            return 'CChunk %s %s %s %s %s %s %s' % (
                c_head(case), c_names(case), c_tabs(case),
                c_list(['(%s, %s)' % (c_rows(b), c_N(k)) for b, k in segments(case)]),
                c_list([zs(ch) for ch in obs['chunks']]),
                c_list(['(%s, %s)' % (c_rows(b), c_N(k)) for b, k in obs['rows']]), done)
        if case['kind'] == 'mem':
            return 'CMem %s %s %s %s %s %s %s' % (c_head(case), c_names(case), c_tabs(case), c_rows(case['rows']),
                                                  c_list([zs(l) for l in obs['lines']]), c_rows(obs['rows']), done)
        return 'CFile %s %s %s %s %s %s %s %s' % (
            c_head(case), c_names(case), c_tabs(case),
            c_list(['(%s, %s)' % (c_rows(b), c_N(k)) for b, k in segments(case)]),
            c_list(['(%s, %s)' % (zs(b), c_N(k)) for b, k in obs['content']]),
            c_list([c_N(n) for n in obs['lens']]),
            c_list(['(%s, %s)' % (c_rows(b), c_N(k)) for b, k in obs['rows']]), done)
    except ValueError:
        return 'CRaised'


def coq_model_expr(case):
    if case['kind'] == 'parse':
        return 'c18_model (CParse %s %s %s [] true)' % (c_head(case), c_tabs(case), c_list([zs(l) for l in case['lines']]))
    # the model on the first rows of the case that it evaluates quickly (scale cases: the rows below the size limit)
    few = [r for r in all_rows(case)[:200] if len(ref_line(r, case['sep'], case['esc'])) <= MODEL_MAX_LINE][:5]
    if case['kind'] in ('mem', 'chunk'):
        return 'c18_model (CMem %s %s %s %s [] [] true)' % (c_head(case), c_names(case), c_tabs(case), c_rows(few))
    return 'c18_model (CFile %s %s %s %s [] [] [] true)' % (
        c_head(case), c_names(case), c_tabs(case), c_list(['(%s, %s)' % (c_rows(few), c_N(1))]))


def neighbours(case, rng):
    """for the search stage: every row of a disagreeing case on its own, and every single column of it"""
    if case['kind'] == 'parse':
        return []
    out = []
    for r in all_rows(case)[:40] + [r for b, k in case.get('more', []) if k == 1 for r in b]:
        out.append(mk('mem', case['sep'], case['esc'], case['types'], [r]))
        for t, v in zip(case['types'], r):
            out.append(mk('mem', case['sep'], case['esc'], [t], [[v]]))
    return out


CLAIM = {
    'text': 'Theorems (Coq, closed under the global context), for every one-character separator distinct from the '
            'double quote and the escape character, every one-character escape character distinct from the double '
            'quote, every row of >= 1 columns of int/float/bool/str (and None in int/float columns), every string '
            '(any mix of separator, quote, escape character at any position, empty, blanks): '
            'unescape(escape s) = s; the closing-quote test holds after the escaped content and fails at every '
            'quote inside it (escape-run parity); merge_escape_parts(split(sep, dump_line row)) = the rendered '
            'fields; parse_line(dump_line row) = row; and for strings without newline: load over line.unframe over '
            'ANY chunking (in particular the 64 KiB reads of load_from_file, any file size) of what dump wrote = '
            'the rows. The theorems are about the code with the two csv.py repairs of DESIGN-repairs.md '
            '(parse_decimal = float(ii), closing quote by escape-run parity); the unrepaired code violates the '
            'property and the round-trip oracle reports it (csv:parse_decimal, csv:merge-escape-parity). '
            'The model is tied to csv.py by recomputing in Coq the lines csv.dump emitted, the file dump_to_file '
            'wrote, the chunk lengths file.read delivered and the rows (or the error point) csv.load / '
            'load_from_file returned, on exhaustive strings over {a, sep, quote, escape} up to length 6 in 1-3 '
            'columns, random typed rows of 1-8 columns, real files up to 4 read chunks, the dumped text of random rows '
            'cut again into small random chunks, rows of 100-300 columns, and arbitrary malformed lines. '
            'Multi-character separators: correspondence only. '
            'Scale family, judged by the model-free round-trip oracle alone (the list-based model is quadratic in the '
            'length of a line, so these cases carry the Coq term CSkip): rows with a str field of 130 KiB-1.2 MiB whose '
            'line spans 3 and more 64 KiB read chunks and starts in the middle of a chunk, texts of several MiB, rows '
            'of up to 3000 columns - through dump_to_file/load_from_file and through csv.dump -> re-chunked text -> '
            'line.unframe -> csv.load.',
    'note': 'Trusted: Coq kernel+VM; hand-written model of csv.py/line.py/file.py (tied by correspondence only); '
            'Python str.split/join/replace and text-mode file reads are modelled, not verified. Number layer: '
            'str(n) / int(text) for ints are concrete Coq functions with their laws proved (the C18_*_int_concrete theorems '
            'keep only the float hypotheses) and compared with CPython on every int of every case; str(x) / float(text) '
            'for finite floats are concrete Coq functions as well (FloatText.v), float(str x) = x proved for every '
            'binary64 value, so the C18_*_all_concrete theorems carry NO hypothesis about numbers; both layers are compared '
            'with CPython on every number of every case (laws_ok). C18_end_to_end_bytes_*: the same at the level of BYTES with no premise about numbers, codec or '
            'compression (UTF-8 codec model of C17, none / gzip model / zstd frame model of C16, any byte re-chunking and read size; only data premises). \\r excluded because load_from_file '
            'reads in text mode (universal newlines).',
    'technique': 'Coq proof (token alignment for the sequential replaces; split/join algebra; rev_ind parity lemmas; '
                 'atomic consumption of each field by merge; reuse of the C15 unframe theorem for the file path) + '
                 'vm_compute correspondence + model-free round-trip oracle',
}
