"""C10 - per-key sequence operators match their list semantics."""
import json
from harness import muxlib, muxgen
from harness.pyval import enc, dec

PID = 'C10'
RULE = ('one sequence operator (first/last/take/distinct/distinct_until_changed/lag/pad_start/pad_end/start_with/'
        'batch; sort on plain observables) x item sequences of length 0..13 with repeated values, None items '
        '(incl. leading None), lengths that are / are not multiples of n, n = 0, 1, > len; run per key on a mux '
        'trace with 1-3 interleaved keys and reused slots, and on a plain observable where the operator accepts '
        'one; a scale family with parameters and lengths of 257 and more (up to ~2000 items per key). non-trivial = sequence of >= 2 items; distinct = distinct case JSON')
TRUSTED = ['modelled not verified: Python sorted() (tied to its Coq specification by comparison only; non-integer sort keys: oracle only), ==/hash, RxPY first/last/take/to_list on plain observables']
ASSUMPTIONS = ['items are ints / None; key mappers are total']
SHARD = 200
COQ_TARGETS = ['theories/Mux/MuxCorr.vo']
CTYPE = 'muxcase'
CHECKER = 'mux_check'
PLAIN = {'first', 'last', 'take', 'duc', 'batch', 'sort'}


def gen_op(r):
    k = r.choice(['first', 'last', 'take', 'distinct', 'duc', 'lag', 'pad_start', 'pad_end', 'start_with', 'batch',
                  'batch', 'duc', 'sort'])
    if k in ('first', 'last'):
        return [k]
    if k == 'take':
        return ['take', r.choice([0, 1, 2, 3, 20])]
    if k == 'distinct':
        return ['distinct', r.choice([None, None, ['mod', 3], ['pair', ['id'], ['const', enc('k')]], ['tofloat']])]
    if k == 'duc':
        return ['duc', r.choice([None, None, ['floordiv', 2]])]
    if k == 'lag':
        return ['lag', r.choice([0, 1, 2, 3, 20])]
    if k in ('pad_start', 'pad_end'):
        return [k, r.choice([0, 1, 2, 3]), enc(r.choice([None, 77]))]
    if k == 'start_with':
        return ['start_with', [enc(x) for x in r.choice([[], [50], [50, 51]])]]
    if k == 'batch':
        return ['batch', r.choice([1, 2, 3, 4])]
    return ['sort', r.choice([None, ['neg'], ['mod', 3], ['mod', 3], ['floordiv', 2], ['nth', 0], ['comp', ['nth', 1], ['neg']]]),
            int(r.random() < 0.45)]


def gen_seq(r, op):
    n = r.choice([0, 1, 2, 3, 4, 5, 6, 8, 9, 12, 13])
    if op[0] == 'sort' and op[1] and op[1][0] in ('nth', 'comp'):
        # items (sort key, other sort key, tag): few distinct sort keys, every item distinguishable by its tag, so the
        # order among items of equal sort key is visible
        if r.random() < 0.15:
            n = r.choice([40, 70, 130])
        return [enc((r.choice([0, 1, 1, 2, 5]), r.choice([-1, 0, 0, 3]), i)) for i in range(n)]
    if op[0] == 'sort' and r.random() < 0.15:
        n = r.choice([40, 70, 130])         # beyond the run lengths below which sorted() is a plain insertion sort
    with_none = op[0] in ('first', 'last', 'take', 'duc', 'lag', 'pad_start', 'pad_end', 'start_with', 'batch') \
        and not (op[0] == 'duc' and op[1]) and r.random() < 0.35
    xs = []
    for i in range(n):
        if with_none and r.random() < (0.6 if i < 2 else 0.2):
            xs.append(None)
        else:
            xs.append(r.choice([0, 1, 1, 2, 2, 3, 5, 7] if r.random() < 0.7 else [-1, -2, -1, 2 ** 61 - 1, 0, -3, 2 ** 61]))
    return [enc(x) for x in xs]


def generate(rng, tier):
    n = {'quick': 700, 'thorough': 15000, 'search': 400}[tier]
    cases = []
    for _ in range(n):
        op = gen_op(rng)
        nk = 1 if op[0] == 'sort' else rng.choice([1, 1, 2, 3])
        seqs = [gen_seq(rng, op) for _ in range(nk * rng.choice([1, 1, 2]))]
        cases.append({'op': op, 'seqs': seqs, 'order': rng.random()})
    # back-to-back lifetimes of one key (created again right after its completion, no event of another key in between -
    # consecutive windows of split / roll do that): nothing of the previous lifetime may be remembered.  Every operator
    # in every run, the later lifetime starting with, containing and ending with values of the earlier one.
    if tier != 'search':
        b2b_ops = [['first'], ['last'], ['take', 1], ['take', 2], ['distinct', None], ['distinct', ['mod', 3]], ['duc', None],
                   ['duc', ['floordiv', 2]], ['lag', 1], ['lag', 2], ['lag', 3], ['pad_start', 2, enc(None)], ['pad_end', 2, enc(None)],
                   ['pad_end', 1, enc(77)], ['start_with', [enc(50)]], ['batch', 2], ['batch', 3]]
        for op in b2b_ops:
            for same_start in (True, False):
                a = [rng.choice([1, 2, 3, 5]) for _ in range(rng.choice([1, 2, 3, 4, 5]))]
                b = [a[-1] if same_start else a[-1] + 10] + [rng.choice([1, 2, 3, 5, a[0]]) for _ in range(rng.choice([0, 1, 2, 4]))]
                c3 = [b[-1], a[0]] if same_start else [b[-1] + 20, a[0]]
                cases.append({'op': op, 'seqs': [[enc(x) for x in s] for s in (a, b, [], c3)], 'order': rng.random(), 'b2b': True})
    # integer parameters that are int-like but not `int` (numpy.int64: sizes computed with numpy)
    if tier != 'search':
        for op in [['batch', 2], ['batch', 3], ['batch', 1], ['take', 2], ['take', 0], ['lag', 1], ['lag', 2],
                   ['pad_start', 2, enc(None)], ['pad_end', 2, enc(77)]]:
            seqs = [[enc(x) for x in range(rng.choice([0, 1, 2, 5, 6, 7]))] for _ in range(rng.choice([1, 2]))] + \
                   [[enc(x) for x in range(7)]]
            cases.append({'op': op + ['np64'], 'seqs': seqs, 'order': rng.random()})
    # scale: parameters and sequence lengths beyond small-int / buffer / type-width thresholds (257+, 300, 1000+); a
    # fixed list of operators, every one in every run, on sequences around and beyond twice the parameter
    def scale_ops():
        big = rng.choice([257, 258, 300, 512, 1000])
        return [['take', big], ['lag', big], ['lag', rng.choice([129, 200])], ['batch', big], ['batch', 257], ['batch', rng.choice([128, 255, 256])],
                ['pad_start', big, enc(77)], ['pad_end', big, enc(None)], ['distinct', None], ['duc', None],
                ['first'], ['last'], ['start_with', [enc(i) for i in range(big)]], ['lag', 300], ['take', 257]]
    for _ in range({'quick': 1, 'thorough': 25, 'search': 0}[tier]):
        for op in scale_ops():
            big = op[1] if op[0] in ('take', 'lag', 'batch', 'pad_start', 'pad_end') else 300
            nk = rng.choice([1, 2])
            seqs = []
            for _k in range(nk):
                n = rng.choice([2 * big + 7, 2 * big, big + 1]) if _k == 0 else rng.choice([big - 1, big, 40])
                m = rng.choice([3, 300, 100000])
                seqs.append([enc((i * 7 + _k) % m) for i in range(n)])
            cases.append({'op': op, 'seqs': seqs, 'order': rng.random(), 'scale': True})
    return cases


def trace_of(case):
    """lifetimes on 2 slots, interleaved deterministically from case['order']"""
    import random
    r = random.Random(case['order'])
    slots = [3, 0, 5]
    q = {}
    for i, s in enumerate(case['seqs']):
        key = [slots[0 if case.get('b2b') else i % 3]]      # b2b: every lifetime on ONE slot, back to back
        q.setdefault(key[0], []).extend([['c', key, i]] + [['n', key, x] for x in s] + [['d', key]])
    queues = list(q.values())
    t = []
    while queues:
        qq = r.choice(queues)
        t.append(qq.pop(0))
        queues = [x for x in queues if x]
    return t


def creation_order(t):
    return [e[2] for e in t if e[0] == 'c']


def run_impl(case):
    import rxsci as rs
    op = case['op']
    out = {}
    if op[0] != 'sort':
        t = trace_of(case)
        obs = muxlib.run_mux([op], t)
        out['steps'] = obs['steps']
        out['trace'] = t
    if op[0] in PLAIN:
        out['plain'] = []
        for s in case['seqs']:
            if op[0] == 'sort':
                import rx
                from harness.pyval import py_fn
                res = []
                kw = {'reverse': bool(op[2])}
                if op[1]:
                    kw['key'] = py_fn(op[1])
                import contextlib, io
                with contextlib.redirect_stdout(io.StringIO()):
                    rx.from_([dec(x) for x in s]).pipe(rs.data.sort(**kw)).subscribe(on_next=lambda i: res.append(enc(i)))
                out['plain'].append({'items': res, 'end': 'completed'})
            else:
                out['plain'].append(muxlib.run_plain([op], s))
    return out


def spec(op, xs):
    """the list definition of each operator (the property text), on decoded items"""
    k = op[0]
    if k == 'first':
        return xs[:1]
    if k == 'last':
        return xs[-1:]
    if k == 'take':
        return xs[:op[1]]
    if k == 'distinct':
        from harness.pyval import py_fn
        f = py_fn(op[1]) if op[1] else (lambda x: x)
        seen, out = [], []
        for x in xs:
            if f(x) not in seen:
                seen.append(f(x))
                out.append(x)
        return out
    if k == 'duc':
        from harness.pyval import py_fn
        f = py_fn(op[1]) if op[1] else (lambda x: x)
        out = []
        for i, x in enumerate(xs):
            if i == 0 or f(x) != f(xs[i - 1]):
                out.append(x)
        return out
    if k == 'lag':
        n = op[1]
        return [(xs[i - n] if i - n >= 0 else xs[0], x) for i, x in enumerate(xs)]
    if k == 'pad_start':
        if not xs:
            return []
        v = dec(op[2])
        return [v if v is not None else xs[0]] * op[1] + xs
    if k == 'pad_end':
        if not xs:
            return []
        v = dec(op[2])
        return xs + [v if v is not None else xs[-1]] * op[1]
    if k == 'start_with':
        return ([dec(v) for v in op[1]] + xs) if xs else []
    if k == 'batch':
        n = op[1]
        return [xs[i:i + n] for i in range(0, len(xs), n)]
    if k == 'sort':
        # a stably ordered permutation, built without sorted(): each item goes before the first item it must precede
        from harness.pyval import py_fn
        f = py_fn(op[1]) if op[1] else (lambda x: x)
        out = []
        for x in reversed(xs):
            j = 0
            while j < len(out) and not ((f(out[j]) <= f(x)) if op[2] else (f(x) <= f(out[j]))):
                j += 1
            out.insert(j, x)
        return out
    raise ValueError(op)


def oracle(case, obs):
    if 'raised' in obs:
        return {'sig': 'seq:%s:raised' % case['op'][0], 'what': 'operator raised %s to the caller' % obs['raised']}
    op = case['op']
    # per key lifetime on the mux run
    if 'steps' in obs:
        per, cur = [], {}
        for e, st in zip(obs['trace'], obs['steps']):
            k = tuple(e[1])
            if e[0] == 'c':
                cur[k] = []
                per.append(cur[k])
            for o in st:
                if o[0] == 'n':
                    cur[tuple(o[1])].append(o[2])
                elif o[0] in ('fatal', 'e'):
                    return {'sig': 'seq:%s:error' % op[0], 'what': 'unexpected error event %s' % o}
        for si, got in zip(creation_order(obs['trace']), per):
            s = case['seqs'][si]
            want = [enc(x) for x in spec(op, [dec(x) for x in s])]
            if got != want:
                return {'sig': 'seq:%s:mux' % op[0],
                        'what': '%s on %s (mux, per key): got %s, list semantics %s' % (
                            json.dumps(op), json.dumps([dec(x) for x in s]), json.dumps([dec(x) for x in got]),
                            json.dumps([dec(x) for x in want]))}
    for s, p in zip(case['seqs'], obs.get('plain', [])):
        if op[0] in ('first', 'last') and not s:
            continue            # plain RxPY first/last raise on an empty sequence by design
        want = [enc(x) for x in spec(op, [dec(x) for x in s])]
        if p['items'] != want or p['end'] != 'completed':
            return {'sig': 'seq:%s:plain' % op[0],
                    'what': '%s on %s (plain): got %s end=%s, list semantics %s' % (
                        json.dumps(op), json.dumps([dec(x) for x in s]), json.dumps([dec(x) for x in p['items']]),
                        p['end'], json.dumps([dec(x) for x in want]))}
    return None


def nontrivial(case, obs):
    return any(len(s) >= 2 for s in case['seqs'])


def describe(cases, obs):
    h, nn, ln = {}, 0, {}
    for c in cases:
        h[c['op'][0]] = h.get(c['op'][0], 0) + 1
        for s in c['seqs']:
            nn += any(x == ['n'] for x in s)
            ln[len(s)] = ln.get(len(s), 0) + 1
    return {'operators': h, 'sequences_with_None': nn, 'sequence_lengths': {str(k): v for k, v in sorted(ln.items())}}


def coq_preamble():
    return muxlib.MUX_PREAMBLE


def coq_term(case, obs):
    if case['op'][0] == 'sort':
        from harness.pyval import coq_fn, coq_val
        op = case['op']
        cl = lambda l: '[' + '; '.join(l) + ']'
        runs = ['(%s, %s)' % (cl([coq_val(x) for x in s]), cl([coq_val(x) for x in p['items']]))
                for s, p in zip(case['seqs'], obs['plain'])]
        return 'MCSort %s %s %s' % ('(Some %s)' % coq_fn(op[1]) if op[1] else 'None', 'true' if op[2] else 'false',
                                    cl(runs))
    if 'raised' in obs:
        return 'MCRaised'
    return muxlib.coq_muxcase([case['op']], obs['trace'], obs)


def coq_model_expr(case):
    return 'mux_model %s %s' % (muxlib.coq_pipe([case['op']]), muxlib.coq_trace(trace_of(case)))


CLAIM = {
    'text': 'Theorems (Coq), timed (what is emitted while each item is consumed + at completion), for every item sequence and parameter: take/first/last, distinct (first occurrence per == class), lag(1) and lag(n) (item n back or first item), pad_start/pad_end/start_with (nothing for an empty key), map/filter; bridge theorem from the slot-level machine on any keyed trace to these list semantics. batch(n) and distinct_until_changed as rxsci defines them (scan with their accumulators, filter, map): chunks of exactly n items plus a final non-empty shorter chunk whose concatenation is the input; one item per run of == keys. sort (plain-only): the model of sorted(items, key, reverse) for integer sort keys is a permutation, ordered by the key, equal keys in source order also with reverse, and the only such list; rs.data.sort is compared with that model evaluated in Coq. Oracle: the list definitions in Python, mux per key and plain.',
    'note': 'Trusted: Coq kernel+VM; hand-written model; Python sorted stability, == and hash modelled not verified.',
    'technique': 'Coq proof (forward-simulation refinement of a slot-level model by per-key local machines, list-level induction) + vm_compute correspondence against /repo + model-free oracle',
}
