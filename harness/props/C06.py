"""C06 - split cuts each key's stream into maximal runs of equal predicate value."""
import json
from harness import muxlib, muxgen, muxprop
from harness.muxprop import *  # noqa: F401,F403
from harness.pyval import enc, dec, py_fn

PID = 'C06'
RULE = ('split(predicate, inner) with predicates whose values are equal but not identical objects (rebuilt tuples, big '
        'ints, floats vs ints vs bools, run-time strings, None and falsy values for whole runs), runs of length 1, a single run, empty keys; 1-3 interleaved outer '
        'keys with reused slots; also under group_by and nested in roll/split (model comparison). The inner pipeline is '
        'tapped at its head. Oracle: segments = maximal runs of == predicate value, contiguous, in order, last one closed at '
        'key completion, none for an empty key; also with mux errors travelling through split (dropped at the inner head and after split): they neither open nor close a segment; a scale family (hundreds of segments, long segments, hundreds of live keys). non-trivial = >= 2 runs in some key; distinct = distinct JSON')
ASSUMPTIONS = ['predicate is total']
PREDS = [['floordiv', 2], ['floordiv', 3], ['isodd'], ['mod', 2], ['id'], ['const', enc(1)],
         ['pair', ['floordiv', 3], ['const', enc('p')]],
         ['comp', ['floordiv', 3], ['tofloat']],
         ['comp', ['floordiv', 2], ['add', enc(10 ** 20)]],
         ['comp', ['mod', 2], ['eq', enc(1)]],
         ['comp', ['pair', ['floordiv', 4], ['const', enc('xy')]], ['nth', 0]],
         # predicate values that are None / falsy for whole runs (a missing field): still ordinary values for !=
         ['noneif', ['gt', enc(3)]], ['comp', ['floordiv', 3], ['noneif', ['isodd']]], ['comp', ['floordiv', 2], ['noneif', ['lt', enc(2)]]],
         ['const', enc(None)], ['comp', ['floordiv', 4], ['eq', enc(1)]], ['comp', ['floordiv', 3], ['mod', 2]]]


def generate(rng, tier):
    n = {'quick': 450, 'thorough': 10000, 'search': 300}[tier]
    cases = []
    for _ in range(n):
        pred = rng.choice(PREDS)
        g = muxgen.Gen(rng, heads=rng.random() < 0.3, tees=rng.random() < 0.3, max_depth=2)
        inner, _ = g.pipe(muxgen.INT, 1, rng.choice([0, 0, 1, 2]))
        ctx = rng.choice(['top', 'top', 'top', 'group', 'roll', 'split'])
        core = [['split', pred, [['tap', 1]] + inner]]
        ast = {'group': [['group', ['mod', 2], core]], 'roll': [['roll', rng.randint(2, 5), rng.randint(1, 3), core]],
               'split': [['split', ['floordiv', 6], core]]}.get(ctx, core)
        trace = muxgen.gen_trace(rng, muxgen.INT, nkeys=rng.choice([1, 2, 3]), sorted_=rng.random() < 0.5)
        if ctx == 'top' and rng.random() < 0.3:
            # mux errors travelling THROUGH split (dropped at the head of the inner pipeline and after split):
            # an error is not an item, it neither opens nor closes a segment
            ctx = 'errthru'
            ast = [['split', pred, [['tap', 1], ['ignore'], ['to_list']]], ['ignore']]
            trace = with_errors(rng, trace)
        cases.append({'ast': ast, 'trace': trace, 'pred': pred, 'ctx': ctx})
    for j in range({'quick': 12, 'thorough': 200, 'search': 4}[tier]):
        # predicate values that are != themselves (NaN, the shared math.nan object and fresh ones): by the property
        # every such item is a run of its own, also as the first item of a key.  Python only (the model compares
        # canonical serialisations, which are reflexive).
        pred = ['nanif', rng.choice([['isodd'], ['lt', enc(3)], ['const', enc(True)], ['gt', enc(100)], ['mod', 3]]), j % 2]
        trace = muxgen.gen_trace(rng, muxgen.INT, nkeys=rng.choice([1, 2, 3]), sorted_=rng.random() < 0.5)
        cases.append({'ast': [['split', pred, [['tap', 1]] + rng.choice([[['to_list']], [['count', 1]], []])]], 'trace': trace,
                      'pred': pred, 'ctx': 'top'})
    for _ in range({'quick': 2, 'thorough': 20, 'search': 0}[tier]):
        # scale, strings: thousands of distinct predicate values that are strings built at run time, on interleaved keys
        pred = ['comp', ['floordiv', rng.choice([2, 3])], ['tostr']]
        n = rng.choice([2300, 3500])
        ka, kb = [rng.choice([0, 2])], [rng.choice([5, 300])]
        trace = [['c', ka], ['c', kb]]
        for i in range(n):
            trace.append(['n', ka, enc(i)])
            if i % rng.choice([1, 2, 3]) == 0:
                trace.append(['n', kb, enc(100000 + i)])
        trace += [['d', ka], ['d', kb]]
        cases.append({'ast': [['split', pred, [['tap', 1], ['count', 1]]]], 'trace': trace, 'pred': pred, 'ctx': 'top', 'scale': True})
    for _ in range({'quick': 8, 'thorough': 200, 'search': 2}[tier]):
        # scale: hundreds of segments per key, segments of hundreds of items, hundreds of live keys
        pred = rng.choice([['id'], ['floordiv', 50], ['floordiv', 2], ['mod', 2], ['const', enc(1)], ['floordiv', 300]])
        inner = rng.choice([[['to_list']], [['count', 1]], [['last']]])
        cases.append({'ast': [['split', pred, [['tap', 1]] + inner]], 'trace': muxgen.gen_trace_scale(rng), 'pred': pred,
                      'ctx': 'top', 'scale': True})
    return cases


def with_errors(rng, trace):
    out, live = [], set()
    for e in trace:
        k = tuple(e[1])
        if e[0] == 'd' and rng.random() < 0.3:
            out.append(['e', list(k), rng.choice([1, 2, 3])])
        out.append(e)
        if e[0] == 'c':
            live.add(k)
        elif e[0] == 'd':
            live.discard(k)
        if k in live and rng.random() < 0.3:
            out.append(['e', list(k), rng.choice([1, 2, 3])])
    return out


def run_impl(case):
    return muxlib.run_mux(case['ast'], case['trace'], taps=True)


def runs_of(pred, items):
    segs, prev = [], None
    for i, x in enumerate(items):
        p = pred(dec(x))
        if i == 0 or p != prev:
            segs.append([])
        segs[-1].append(x)
        prev = p
    return segs


def segments_by_parent(log):
    """inner lifetimes per parent key, in creation order: list of (items, closed)"""
    out, cur = {}, {}
    for e in log:
        if e[0] in ('completed', 'fatal'):
            continue
        k = tuple(e[1])
        parent = k[1:]
        if e[0] == 'c':
            cur[k] = {'items': [], 'closed': False}
            out.setdefault(parent, []).append(cur[k])
        elif e[0] == 'n':
            cur[k]['items'].append(e[2])
        elif e[0] == 'd':
            cur[k]['closed'] = True
    return out


def oracle(case, obs):
    if 'raised' in obs or muxprop.has_fatal(obs['steps']) or case['ctx'] not in ('top', 'errthru'):
        return None
    pred = py_fn(case['pred'])
    got = segments_by_parent(obs['taps'].get('1', []))
    exp = {}
    for lt in muxprop.lifetime_positions(case['trace']):
        exp.setdefault(tuple(lt['key']), []).extend(runs_of(pred, lt['items']))
    for parent, segs in exp.items():
        g = got.get(parent, [])
        if [s['items'] for s in g] != segs:
            return {'sig': 'split:runs', 'what': 'key %s predicate %s: segments %s, maximal runs %s' % (
                list(parent), json.dumps(case['pred']), json.dumps([[dec(x) for x in s['items']] for s in g])[:200],
                json.dumps([[dec(x) for x in s] for s in segs])[:200])}
        if not all(s['closed'] for s in g):
            return {'sig': 'split:unclosed', 'what': 'key %s: a segment was never completed' % list(parent)}
    return None


def nontrivial(case, obs):
    pred = py_fn(case['pred'])
    return any(len(runs_of(pred, lt['items'])) >= 2 for lt in muxprop.lifetime_positions(case['trace']))


def describe(cases, obs):
    ph, ctx, r1 = {}, {}, 0
    for c in cases:
        ph[json.dumps(c['pred'])] = ph.get(json.dumps(c['pred']), 0) + 1
        ctx[c['ctx']] = ctx.get(c['ctx'], 0) + 1
        pred = py_fn(c['pred'])
        r1 += sum(1 for lt in muxprop.lifetime_positions(c['trace']) for s in runs_of(pred, lt['items']) if len(s) == 1)
    return {'predicates': ph, 'contexts': ctx, 'runs_of_length_1': r1, 'operator_histogram': muxprop.op_histogram(cases)}


CLAIM = {
    'text': "Theorems (Coq): split's slot-level machine refines its per-key machine over any refined inner machine; every segment is processed by a fresh inner machine, outputs concatenated in segment order, last segment closed at completion, no segment for an empty key; the segments are `runs`: concat runs = xs, every run non-empty with == predicate values, adjacent runs have different values (maximal). Predicate values compared by the canonical serialisation of Python == (tied by correspondence with equal-not-identical values); oracle: maximal runs computed in Python from an inner tap.",
    'note': 'Trusted: Coq kernel+VM; hand-written model; Python == model (canon).',
    'technique': 'Coq proof (forward-simulation refinement of a slot-level model by per-key local machines, list-level induction) + vm_compute correspondence against /repo + model-free oracle',
}
