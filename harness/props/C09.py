"""C09 - scan/reduce algebra: running folds, final fold, per-key seed isolation."""
import json
from harness import muxlib, muxgen, muxprop
from harness.muxprop import *  # noqa: F401,F403
from harness.pyval import enc, dec, py_fn, py_fn2

PID = 'C09'
RULE = ('scan(accumulator, seed, reduce, terminator) and the operators defined through it (count, sum, mean, min, max, '
        'variance, to_list, to_array, batch, distinct_until_changed, dist.update) with accumulators that mutate and return their accumulator '
        '(list append), seeds given as values (plain lists and hashable mutable objects) and as factories, reduce on/off, terminator on/off, on 1-4 interleaved keys '
        'with empty keys and slots reused by later lifetimes, lifetimes ended by a mux error instead of a completion (key created again later), and on plain observables; values emitted by reduce are handed to a consumer that mutates them in place (nothing reachable from an emitted value may be the seed or another key\'s state). a scale family: accumulators beyond 2**31 and 2**53, keys of several hundred items, hundreds of live keys. Oracle: Python left fold per '
        'lifetime (functools-style), evaluated independently for every lifetime with a fresh seed. non-trivial = >= 2 '
        'lifetimes with >= 2 items; distinct = distinct JSON')
ASSUMPTIONS = ['accumulators return values of the seed type (typed state arrays); accumulators are total or raise']


def gen_scan(r):
    k = r.choice(['add', 'max', 'min', 'append', 'append', 'count', 'sub', 'mul', 'appendlen'])
    reduce_ = int(r.random() < 0.5)
    term = None
    if k == 'append':
        seed, kind = enc([]), r.choice(['value', 'factory', 'hvalue'])
        if r.random() < 0.3:
            term = ['len']
            reduce_ = 1
        return ['scan', ['append'], seed, 1 if term is None else reduce_, term, kind]
    if k == 'appendlen':
        return ['scan', ['append'], enc([7]), 1, None, r.choice(['value', 'factory', 'hvalue'])]
    if k == 'count':
        return ['count', reduce_]
    seed = enc(r.randint(-2, 5) if k != 'mul' else r.choice([1, 2]))
    if r.random() < 0.3:
        term = r.choice([['mul', enc(10)], ['add', enc(100)], ['neg']])
    return ['scan', [k], seed, reduce_, term]


DERIVED = [['sum', None, 0], ['sum', None, 1], ['sum', ['mul', enc(2)], 1], ['mean', None, 0], ['min', None, 0],
           ['min', None, 1], ['max', ['neg'], 1], ['max', None, 0], ['to_list'], ['count', 0], ['count', 1],
           ['variance', None, 0], ['variance', None, 1],
           # seeds that are tuples holding a mutable member (rxsci's own batch: ([], False))
           ['batch', 2], ['batch', 3], ['batch', 1], ['duc', None], ['duc', ['floordiv', 2]],
           # the remaining operators the library defines through scan (to_array has a Coq model, dist.update has not)
           ['to_array', 'q'], ['dist_update', 3, 0], ['dist_update', 3, 1], ['dist_update', 2, 1]]


def generate(rng, tier):
    n = {'quick': 600, 'thorough': 12000, 'search': 400}[tier]
    cases = []
    for _ in range(n):
        node = gen_scan(rng) if rng.random() < 0.7 else rng.choice(DERIVED)
        typ = muxgen.FLT if node[0] in ('sum', 'mean', 'min', 'max', 'variance') and rng.random() < 0.5 else muxgen.INT
        trace = muxgen.gen_trace(rng, typ, max_items=rng.choice([None, 3, 0]))
        if typ == muxgen.FLT and rng.random() < 0.5:
            # ints and floats mixed in one key
            trace = [(['n', e[1], enc(rng.randint(-2, 6))] if e[0] == 'n' and rng.random() < 0.5 else e) for e in trace]
        case = {'ast': [node], 'trace': trace, 'plain': rng.random() < 0.3}
        if rng.random() < 0.2:
            # lifetimes ended by a mux error instead of a completion (scan releases the key on both), the key
            # created again later, often with no other key's item in between
            if rng.random() < 0.5:
                trace = muxgen.gen_trace(rng, typ, nkeys=rng.choice([1, 2]), bursts=True, max_items=rng.choice([None, 3]))
            case['trace'] = error_ended(rng, trace)
        cases.append(case)
    # scale: accumulators beyond 2**31 / 2**53 / close to 2**63, long keys, hundreds of live keys; a fixed list of
    # operators, every one in every run, each on a key longer than its size parameter
    scale_nodes = [['scan', ['add'], enc(0), 0, None], ['scan', ['add'], enc(2 ** 31 - 5), 1, None], ['scan', ['add'], enc(2 ** 40), 0, None],
                   ['count', 0], ['count', 1], ['scan', ['max'], enc(0), 1, None], ['to_list'], ['to_array', 'q'], ['sum', None, 1],
                   ['batch', 257], ['batch', 300], ['batch', 256], ['scan', ['mul'], enc(3), 0, None]]
    for _ in range({'quick': 1, 'thorough': 20, 'search': 0}[tier]):
        for node in scale_nodes:
            shape = rng.choice(['long', 'long2', 'long_reuse']) if node[0] == 'batch' else rng.choice(['long', 'long2', 'many', 'long_reuse'])
            trace = muxgen.gen_trace_scale(rng, shape)
            if node[0] == 'batch':
                # at least one key with more than two batches worth of items
                k0 = trace[0][1]
                dpos = next(i for i, e in enumerate(trace) if e[0] == 'd' and e[1] == k0)
                trace = trace[:dpos] + [['n', k0, enc(i % 13)] for i in range(2 * node[1] + 9)] + trace[dpos:]
            if node[0] == 'scan' and node[1] == ['add']:
                bigv = rng.choice([2 ** 30, 2 ** 31, 2 ** 52])
                trace = [(['n', e[1], enc(bigv + dec(e[2]))] if e[0] == 'n' else e) for e in trace]
            if node[0] == 'scan' and node[1] == ['mul']:
                trace = [(['n', e[1], enc(1 + dec(e[2]) % 2)] if e[0] == 'n' else e) for e in trace[:60]] + \
                    [e for e in trace[60:] if e[0] != 'n']
            cases.append({'ast': [node], 'trace': trace, 'plain': False, 'scale': True})
    return cases


def error_ended(rng, trace):
    out = []
    for j, e in enumerate(trace):
        if e[0] == 'd' and rng.random() < 0.6 and any(f[0] == 'c' and f[1] == e[1] for f in trace[j + 1:]):
            out.append(['e', e[1], rng.choice([1, 2, 3])])
        else:
            out.append(e)
    return out


def lifetimes_with_errors(trace):
    """like muxprop.lifetime_positions, a mux error on the key ends the lifetime as a completion does"""
    occ, cur = [], {}
    for p, e in enumerate(trace):
        k = tuple(e[1])
        if e[0] == 'c':
            cur[k] = {'key': list(k), 'items': [], 'pos': [], 'create': p, 'done': None, 'error': None}
            occ.append(cur[k])
        elif e[0] == 'n':
            cur[k]['items'].append(e[2])
            cur[k]['pos'].append(p)
        elif e[0] == 'd':
            cur[k]['done'] = p
        elif e[0] == 'e':
            cur[k]['error'] = p
    return occ


def reduces(node):
    return (node[0] == 'scan' and bool(node[3])) or node[0] in ('to_list', 'to_array')


def run_impl(case):
    # final values (reduce) are handed to a consumer that mutates them in place: the seed and the state of
    # other keys and lifetimes must not be reachable from an emitted value
    obs = muxlib.run_mux(case['ast'], case['trace'], mutate_emitted=reduces(case['ast'][0]))
    if case['plain']:
        obs['plain'] = []
        for _, items in muxgen.lifetimes_of(case['trace'])[:3]:
            try:
                obs['plain'].append(muxlib.run_plain(case['ast'], items))
            except Exception as e:
                obs['plain'].append({'raised': type(e).__name__})
        # the same piped plain observable subscribed twice: every subscription starts from a fresh seed
        obs['resub'] = []
        for _, items in muxgen.lifetimes_of(case['trace'])[:2]:
            try:
                obs['resub'].append(muxlib.run_plain_twice(case['ast'], items))
            except Exception as e:
                obs['resub'].append({'raised': type(e).__name__})
    # the public entry point: the same pipeline behind rs.state.with_memory_store on a PLAIN source, on the items of the
    # first lifetime and on an EMPTY source (a reduce emits its seed fold for the one key although no item arrived)
    if case['ast'][0][0] != 'mean' and not any(e[0] == 'e' for e in case['trace']):
        lts = muxgen.lifetimes_of(case['trace'])
        for items in ([lts[0][1]] if lts else []) + [[]]:
            try:
                m = muxprop.entry_point_mismatch(case['ast'], items)
            except Exception as e:
                m = 'entry point run raised %s' % type(e).__name__
            if m:
                obs['entry'] = '%d items: %s' % (len(items), m)
                break
    return obs


def fold_spec(node, xs):
    """(per-item outputs, completion outputs) of one lifetime, from the property text"""
    k = node[0]
    if k == 'scan':
        acc_f = py_fn2(node[1]) if node[1] != ['append'] else (lambda a, x: a + [x])
        seed = dec(node[2])
        reduce_, term = bool(node[3]), (py_fn(node[4]) if node[4] else None)
        cur, per = seed, []
        for x in xs:
            cur = acc_f(cur, x)
            per.append([] if reduce_ else [cur])
        fin = []
        if term:
            cur = term(cur)
            if not reduce_:
                fin.append(cur)
        if reduce_:
            fin.append(cur)
        return per, fin
    if k == 'count':
        return ([[] if node[1] else [i + 1] for i in range(len(xs))], [len(xs)] if node[1] else [])
    if k in ('to_list', 'to_array'):
        return ([[] for _ in xs], [list(xs)])
    if k == 'dist_update':
        import distogram
        h = distogram.Distogram(bin_count=node[1])
        per = []
        snap = lambda d: ([list(b) for b in d.bins], d.min, d.max)
        for x in xs:
            h = distogram.update(h, x)
            per.append([] if node[2] else [snap(h)])
        return per, ([snap(h)] if node[2] else [])
    if k == 'batch':
        b = node[1]
        return ([[xs[i + 1 - b:i + 1]] if (i + 1) % b == 0 else [] for i in range(len(xs))],
                [xs[len(xs) - len(xs) % b:]] if len(xs) % b else [])
    if k == 'duc':
        f = py_fn(node[1]) if node[1] else (lambda x: x)
        return ([[x] if i == 0 or f(x) != f(xs[i - 1]) else [] for i, x in enumerate(xs)], [])
    km = py_fn(node[1]) if len(node) > 1 and node[1] else (lambda x: x)
    ys = [km(x) for x in xs]
    red = bool(node[2])

    def stat(p):
        if k == 'sum':
            s = 0.0
            for y in p:
                s = s + y
            return s
        if k == 'mean':
            return sum(p) / len(p)
        if k == 'min':
            return min(p) if p else None
        if k == 'max':
            return max(p) if p else None
        if k == 'variance':
            if len(p) < 2:
                return 0.0
            m = None
            s = 0
            for i, y in enumerate(p):
                if m is None:
                    m = y
                else:
                    m1 = m
                    m = m + (y - m) / (i + 1)
                    s = s + (y - m1) * (y - m)
            return s / (len(p) - 1)
        raise ValueError(k)
    if red:
        return ([[] for _ in ys], [stat(ys)])
    return ([[stat(ys[:i + 1])] for i in range(len(ys))], [])


def close(a, b):
    if isinstance(a, float) or isinstance(b, float):
        if a is None or b is None:
            return a is b
        return a == b or abs(a - b) <= 1e-9 * max(1.0, abs(a), abs(b))
    return a == b and type(a) is type(b)


def oracle(case, obs):
    if 'raised' in obs:
        return {'sig': 'scan:raised', 'what': 'raised %s to the caller' % obs['raised']}
    node = case['ast'][0]
    if obs.get('entry'):
        return {'sig': 'scan:entry-point', 'what': obs['entry']}
    if node[0] == 'mean' and node[2]:
        return None
    for lt in lifetimes_with_errors(case['trace']):
        xs = [dec(x) for x in lt['items']]
        if node[0] == 'mean' and not xs:
            continue
        per, fin = fold_spec(node, xs)
        if lt['error'] is not None:
            got = [dec(o[2]) for o in obs['steps'][lt['error']] if o[0] == 'n']
            if got:
                return {'sig': 'scan:%s:error-end' % node[0], 'what': '%s key %s: %s emitted when the lifetime ended with a mux '
                        'error' % (json.dumps(node)[:80], lt['key'], got)}
        for i, p in enumerate(lt['pos']):
            got = [dec(o[2]) for o in obs['steps'][p] if o[0] == 'n']
            if len(got) != len(per[i]) or not all(close(g, w) for g, w in zip(got, per[i])):
                return {'sig': 'scan:%s:running' % node[0], 'what': '%s key %s after item %d of %s: emitted %s, left fold %s'
                        % (json.dumps(node)[:80], lt['key'], i, xs, got, per[i])}
        if lt['done'] is not None:
            got = [dec(o[2]) for o in obs['steps'][lt['done']] if o[0] == 'n']
            if len(got) != len(fin) or not all(close(g, w) for g, w in zip(got, fin)):
                return {'sig': 'scan:%s:completion' % node[0], 'what': '%s key %s at completion of %s: emitted %s, expected %s'
                        % (json.dumps(node)[:80], lt['key'], xs, got, fin)}
    for (key, items), p in zip(muxgen.lifetimes_of(case['trace'])[:3], obs.get('plain', [])):
        if 'raised' in p:
            return {'sig': 'scan:plain-raised', 'what': 'plain run raised %s' % p['raised']}
        xs = [dec(x) for x in items]
        if node[0] == 'mean' and not xs:
            continue
        per, fin = fold_spec(node, xs)
        want = [v for st in per for v in st] + fin
        got = [dec(x) for x in p['items']]
        if len(got) != len(want) or not all(close(g, w) for g, w in zip(got, want)):
            return {'sig': 'scan:%s:plain' % node[0], 'what': '%s on plain %s: emitted %s, expected %s' % (
                json.dumps(node)[:80], xs, got, want)}
    for (key, items), rs_ in zip(muxgen.lifetimes_of(case['trace'])[:2], obs.get('resub', [])):
        if isinstance(rs_, dict):
            return {'sig': 'scan:plain-resubscribe-raised', 'what': 'second subscription raised %s' % rs_['raised']}
        if rs_[0] != rs_[1]:
            return {'sig': 'scan:%s:plain-resubscribe' % node[0], 'what': '%s on plain %s: first subscription emits %s, second '
                    'subscription of the same observable emits %s' % (json.dumps(node)[:80], [dec(x) for x in items],
                                                                      [dec(x) for x in rs_[0]], [dec(x) for x in rs_[1]])}
    return None


def nontrivial(case, obs):
    return sum(1 for lt in muxprop.lifetime_positions(case['trace']) if len(lt['items']) >= 2) >= 2


def describe(cases, obs):
    h = {'reduce': 0, 'terminator': 0, 'factory_seed': 0, 'mutating_accumulator': 0, 'plain_too': 0, 'empty_lifetimes': 0}
    for c in cases:
        n = c['ast'][0]
        if n[0] == 'scan':
            h['reduce'] += n[3]
            h['terminator'] += 1 if n[4] else 0
            h['factory_seed'] += 1 if len(n) > 5 and n[5] == 'factory' else 0
            h['hashable_mutable_value_seed'] = h.get('hashable_mutable_value_seed', 0) + (1 if len(n) > 5 and n[5] == 'hvalue' else 0)
            h['mutating_accumulator'] += 1 if n[1] == ['append'] else 0
        h['plain_too'] += 1 if c['plain'] else 0
        h['empty_lifetimes'] += sum(1 for lt in muxprop.lifetime_positions(c['trace']) if not lt['items'])
    h['operators'] = muxprop.op_histogram(cases)
    return h


CLAIM = {
    'text': "Theorems (Coq) for every accumulator, seed and item sequence: streaming scan emits after item i the left fold of the first i items; reduce emits exactly one item at completion = the fold (seed for an empty key); streaming-last = reduce value; a terminator is applied once at completion; a raising step emits one mux error and leaves the accumulator unchanged; seed isolation between keys/lifetimes is C02 (state recreated at Create), and C09_fresh_after_an_uncompleted_lifetime extends it to lifetimes that were not completed (ended by a mux error, key created again while live): for every pipeline of per-slot operators the refinement is re-proved under the weaker rule that a Create needs its slot free or held by the same key (RecreateProofs.v). Derived operators are expansions over scan mirrored from rxsci's definitions. copy.deepcopy/factory freshness is modelled not proved: tied by running mutating accumulators (list append, tuple seeds holding lists) on interleaved keys and reused slots. Oracle: Python left fold per lifetime.",
    'note': 'Trusted: Coq kernel+VM; hand-written model; aliasing between emitted items and state is outside the model; typed-array coercion modelled (coerce).',
    'technique': 'Coq proof (forward-simulation refinement of a slot-level model by per-key local machines, list-level induction) + vm_compute correspondence against /repo + model-free oracle',
}
