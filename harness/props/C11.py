"""C11 - streaming promptness: results are emitted with the item that determines them."""
import json
from harness import muxlib, muxgen, muxprop
from harness.muxprop import *  # noqa: F401,F403
from harness.pyval import enc, dec, py_fn

PID = 'C11'
RULE = ('families with a known emission position, each on 1-3 interleaved keys, outputs stamped with the index of the source '
        'event being pushed: (peritem) random pipelines of per-item operators and running aggregates, also inside '
        'group_by/roll/split/time_split and tee_map: every output appears in the step of a source item, nothing is held back '
        'to the completion step; (window) roll/split/time_split/batch with to_list: the result of a window, segment or batch '
        'appears in the step of its closing item (time_split also with a closing_mapper, closing item included or not); (zipwin) tumbling windows around tee_map(zip) of count(reduce) and a filter: the pair belongs to the closing step of its window and nothing pending survives a window; (tee) tee_map over branches of different cadence: tuples appear in the step in which the join of the separately run branches completes them; (final) reduce/last/to_list/pad_end: only in the completion step. '
        'non-trivial = >= 3 source items in some key; distinct = distinct JSON')
ASSUMPTIONS = ['take/first do not end a key early in multiplexed mode (specified behaviour)']

PERITEM_OPS = ['map', 'filter', 'scan', 'lag', 'duc', 'distinct', 'pad_start', 'start_with', 'take', 'first', 'clip',
               'count', 'sum', 'mean', 'min', 'max', 'variance', 'identity', 'starmap', 'fill_none', 'do_action']


def peritem_pipe(rng, depth=0):
    g = muxgen.Gen(rng, heads=depth < 2, tees=depth < 2, max_depth=2)
    for _ in range(50):
        ast, _ = g.pipe(muxgen.INT, 0, rng.randint(1, 3))
        if is_peritem(ast):
            return ast
    return [['map', ['add', enc(1)]]]


def is_peritem(ast):
    for n in ast:
        k = n[0]
        if k == 'tee':
            if not all(is_peritem(b) for b in n[2]):
                return False
        elif k in muxprop.HEADS:
            if not is_peritem(n[-1]):
                return False
        elif k == 'scan':
            if n[3] or n[4]:
                return False
        elif k in ('count',):
            if n[1]:
                return False
        elif k in ('sum', 'mean', 'min', 'max', 'variance', 'stddev'):
            if n[2]:
                return False
        elif k not in PERITEM_OPS + ['flat_map', 'assert', 'ignore', 'errmap', 'route']:
            return False
    return True


def generate(rng, tier):
    n = {'quick': 500, 'thorough': 10000, 'search': 300}[tier]
    cases = []
    for _ in range(n):
        fam = rng.choice(['peritem', 'peritem', 'batch', 'roll', 'split', 'tsplit', 'final', 'zipwin', 'tee'])
        trace = muxgen.gen_trace(rng, muxgen.INT, nkeys=rng.choice([1, 2, 3]), sorted_=(fam == 'tsplit'))
        if fam == 'tee':
            # tee_map over branches of different cadence (windows, reducers, per-item): every tuple is emitted in the
            # step in which the join of the separately run branches completes it (the timed join oracle of C08)
            from harness.props import C08
            c8 = C08.gen_case(rng, plain=False)
            while c8['ctx'] != 'top':
                c8 = C08.gen_case(rng, plain=False)
            c8.update({'family': 'tee', 'par': None})
            cases.append(c8)
            continue
        if fam == 'peritem':
            ast = peritem_pipe(rng)
            par = None
        elif fam == 'batch':
            par = rng.randint(1, 4)
            ast = [['batch', par]]
        elif fam == 'roll':
            par = [rng.randint(1, 5), rng.randint(1, 5)]
            ast = [['roll', par[0], par[1], [['to_list']]]]
        elif fam == 'split':
            par = rng.choice([['floordiv', 2], ['isodd'], ['floordiv', 3]])
            ast = [['split', par, [['to_list']]]]
        elif fam == 'zipwin':
            # tumbling windows around a zip of a completion-triggered branch and a per-item branch: the pair
            # (count, first passing item) belongs to the window's closing step; nothing pending survives a window
            par = [rng.randint(1, 4), rng.choice([['isodd'], ['gt', enc(rng.randint(0, 9))], ['lt', enc(rng.randint(0, 6))]])]
            ast = [['roll', par[0], par[0], [['tee', 'zip', [[['count', 1]], [['filter', par[1]]]]]]]]
        elif fam == 'tsplit':
            closing = rng.choice([None, ['comp', ['mod', rng.choice([2, 3, 4])], ['eq', enc(0)]], ['isodd']])
            par = [rng.choice([None, 4, 6]), rng.choice([None, 2, 3]), closing, int(rng.random() < 0.6)]
            ast = [['time_split', ['id'], par[0], par[1], closing, par[3], [['to_list']]]]
        else:
            ast = [rng.choice([['count', 1], ['last'], ['to_list'], ['pad_end', 2, enc(9)], ['sum', None, 1],
                               ['scan', ['add'], enc(0), 1, None], ['max', None, 1]])]
            par = None
            if ast[0][0] == 'pad_end':
                fam = 'pad_end'
        cases.append({'ast': ast, 'trace': trace, 'family': fam, 'par': par})
    # scale: windows of 257 and more, more than 32 windows open at once, batches of 257 and more - each result still
    # belongs to the step of its closing item
    from harness.muxprop import single_trace
    bigs = [('roll', [257, 257]), ('roll', [300, 300]), ('roll', [33, 1]), ('roll', [50, 1]), ('roll', [100, 2]), ('roll', [200, 3]),
            ('roll', [64, 50]), ('batch', 257), ('batch', 300)]
    for fam, par in (bigs if tier != 'search' else bigs[:2]):
        n = (par[0] if fam == 'roll' else par) * 2 + rng.choice([0, 1, 7])
        items = [enc(i % 1000) for i in range(n)]
        ast = [['roll', par[0], par[1], [['to_list']]]] if fam == 'roll' else [['batch', par]]
        cases.append({'ast': ast, 'trace': single_trace(items, (rng.choice([0, 3]),)), 'family': fam, 'par': par})
    return cases


def run_impl(case):
    if case['family'] == 'tee':
        from harness.props import C08
        return C08.run_impl(case)
    return muxlib.run_mux(case['ast'], case['trace'])


def items_at(obs, p):
    return [o[2] for o in obs['steps'][p] if o[0] == 'n']


def oracle(case, obs):
    if 'raised' in obs or muxprop.has_fatal(obs['steps']):
        return None
    fam = case['family']
    if fam == 'tee':
        from harness.props import C08
        f = C08.oracle(case, obs)
        if f:
            f['sig'] = 'prompt:' + f['sig']
        return f
    for lt in muxprop.lifetime_positions(case['trace']):
        xs = [dec(x) for x in lt['items']]
        n = len(xs)
        if fam == 'peritem':
            if lt['done'] is not None and items_at(obs, lt['done']):
                return {'sig': 'prompt:held-back', 'what': 'pipeline of per-item operators %s: %s emitted only at the completion '
                        'of key %s' % (json.dumps(case['ast'])[:200], muxprop.short(items_at(obs, lt['done'])), lt['key'])}
            continue
        want = {p: [] for p in lt['pos']}
        fin = []
        if fam == 'batch':
            b = case['par']
            for i in range(n):
                if (i + 1) % b == 0:
                    want[lt['pos'][i]].append(xs[i + 1 - b:i + 1])
            if n % b:
                fin.append(xs[n - n % b:])
        elif fam == 'roll':
            w, s = case['par']
            from harness.props.C05 import windows_timed
            per, tail = windows_timed(w, s, xs)
            for i in range(n):
                want[lt['pos'][i]] += per[i]
            fin = tail
        elif fam == 'zipwin':
            w, pred = case['par'][0], py_fn(case['par'][1])
            for a in range(0, n, w):
                chunk = xs[a:a + w]
                ok = [x for x in chunk if pred(x)]
                res = [(len(chunk), ok[-1])] if ok else []     # a cell holds the latest value of its branch
                if len(chunk) == w:
                    want[lt['pos'][a + w - 1]] += res
                else:
                    fin = res
        elif fam == 'split':
            pred = py_fn(case['par'])
            for i in range(1, n):
                if pred(xs[i]) != pred(xs[i - 1]):
                    j = i - 1
                    while j > 0 and pred(xs[j - 1]) == pred(xs[i - 1]):
                        j -= 1
                    want[lt['pos'][i]].append(xs[j:i])
            if n:
                j = n - 1
                while j > 0 and pred(xs[j - 1]) == pred(xs[n - 1]):
                    j -= 1
                fin.append(xs[j:])
        elif fam == 'tsplit':
            a, ina, closing, incl = case['par']
            closing = py_fn(closing) if closing else None
            start = last = None
            cur = []
            for i, t in enumerate(xs):
                if start is None:
                    start = last = t
                if (a is not None and t >= start + a) or (ina is not None and t >= last + ina):
                    want[lt['pos'][i]].append(cur)
                    cur = [t]
                    start = last = t
                elif closing is not None and closing(t) is True:
                    # the closing item ends the window in its own step (inside it or as the first of the next)
                    start = last = t
                    if incl:
                        want[lt['pos'][i]].append(cur + [t])
                        cur = []
                    else:
                        want[lt['pos'][i]].append(cur)
                        cur = [t]
                else:
                    cur.append(t)
                    last = t
            if n:
                fin.append(cur)
        elif fam in ('final', 'pad_end'):
            if fam == 'pad_end':
                for i in range(n):
                    want[lt['pos'][i]].append(xs[i])
            for p in lt['pos']:
                got = [dec(x) for x in items_at(obs, p)]
                if got != want[p]:
                    return {'sig': 'prompt:early', 'what': '%s emitted %s before the completion of key %s' % (
                        json.dumps(case['ast']), got, lt['key'])}
            if lt['done'] is not None and n and case['ast'][0][0] != 'pad_end' and len(items_at(obs, lt['done'])) != 1:
                return {'sig': 'prompt:final', 'what': '%s: %d results at completion of %s' % (
                    json.dumps(case['ast']), len(items_at(obs, lt['done'])), lt['key'])}
            continue
        for i, p in enumerate(lt['pos']):
            got = [dec(x) for x in items_at(obs, p)]
            if got != want[p]:
                return {'sig': 'prompt:' + fam, 'what': '%s key %s: while item %d of %s was consumed %s was emitted; the '
                        'results closed by that item are %s' % (json.dumps(case['ast'])[:120], lt['key'], i, xs, got, want[p])}
        if lt['done'] is not None:
            got = [dec(x) for x in items_at(obs, lt['done'])]
            if got != fin:
                return {'sig': 'prompt:' + fam + ':completion', 'what': '%s key %s on %s: at completion %s was emitted, expected %s'
                        % (json.dumps(case['ast'])[:120], lt['key'], xs, got, fin)}
    return None


def coq_term(case, obs):
    base = muxlib.coq_muxcase(case['ast'], case['trace'], obs)
    if case['family'] == 'peritem' and base.startswith('MC '):
        # the family the oracle treats as per-item is inside the hypothesis of C11_nothing_held_back
        return 'MCAnd (%s) (MCPerItem %s)' % (base, muxlib.coq_pipe(case['ast']))
    return base


def nontrivial(case, obs):
    return any(len(lt['items']) >= 3 for lt in muxprop.lifetime_positions(case['trace']))


def describe(cases, obs):
    f = {}
    for c in cases:
        f[c['family']] = f.get(c['family'], 0) + 1
    return {'families': f, 'operator_histogram': muxprop.op_histogram(cases)}


CLAIM = {
    'text': "Theorems (Coq): the timed run of every pipeline is causal (outputs during a prefix do not depend on the rest), one output list per event; synchronous composition preserves emission positions; the slot-level timed outputs equal the local machine's on every wf trace; closing actions emit the segment result in the same step (roll: w-th item); every C04-C10/C13 theorem is itself timed; C11_nothing_held_back: a pipeline with no completion-triggered operator (no last, reduce, terminator, pad_end - at any nesting depth under group_by / roll / split / time_split / tee_map) emits nothing at the completion of a key, so at slot level the completion step carries the key completion alone (C11_completion_step_is_bare). Oracle on the code: families with known emission positions (per-item pipelines emit nothing at completion; roll/split/time_split/batch results in the step of the closing item; reduce/last/to_list only at completion), outputs stamped with the source event index.",
    'note': "Trusted: Coq kernel+VM; a Mealy-style model bakes in 'no scheduler hop': validated by the event-indexed comparison on every case.",
    'technique': 'Coq proof (forward-simulation refinement of a slot-level model by per-key local machines, list-level induction) + vm_compute correspondence against /repo + model-free oracle',
}
