"""Common machinery of ./check: Coq build + property theorems, correspondence shards evaluated
inside Coq (vm_compute), known findings, replay files, evidence files.

Nothing here knows about a particular property; see harness/props/Cxx.py."""
import fcntl
import hashlib
import json
import os
import re
import shutil
import subprocess
import sys
import time
from concurrent.futures import ThreadPoolExecutor

VERIF = os.path.dirname(os.path.dirname(os.path.abspath(__file__)))
COQ = os.path.join(VERIF, 'coq')
WORK = os.path.join(VERIF, 'work')
EVID = os.path.join(VERIF, 'evidence')
REPO = os.environ.get('VERIF_REPO', '/repo')
COQ_ARGS = ['-Q', os.path.join(COQ, 'theories'), 'RxVerif', '-Q', os.path.join(COQ, 'props'), 'RxProps']
NCPU = min(16, os.cpu_count() or 4)

FORBIDDEN = re.compile(
    r'\b(Admitted|admit|Axiom|Axioms|Parameter|Parameters|Conjecture|Hypothesis|Variable|Variables)\b'
    r'|Unset\s+Guard|bypass_check|type-in-type|impredicative-set|Admit\s+Obligations|native_compute')
# axioms declared by Coq's standard library that a property file may depend on (named in DESIGN.md s.8)
ALLOWED_AXIOMS = {
    'functional_extensionality_dep', 'classic', 'proof_irrelevance', 'JMeq_eq',
    'sig_forall_dec', 'sig_not_dec', 'eq_rect_eq', 'constructive_indefinite_description',
    'constructive_definite_description', 'dependent_unique_choice', 'relational_choice',
    'propositional_extensionality', 'excluded_middle_informative',
}


def log(*a):
    print(*a, flush=True)


def workdir(pid):
    d = os.path.join(WORK, pid)
    shutil.rmtree(d, ignore_errors=True)
    os.makedirs(d, exist_ok=True)
    os.makedirs(os.path.join(WORK, 'replays'), exist_ok=True)
    return d


# ----------------------------------------------------------------------------------------------
# Proof stage
# ----------------------------------------------------------------------------------------------
def strip_comments(src):
    out, depth, i = [], 0, 0
    while i < len(src):
        if src.startswith('(*', i):
            depth += 1
            i += 2
        elif src.startswith('*)', i) and depth:
            depth -= 1
            i += 2
        else:
            if depth == 0:
                out.append(src[i])
            i += 1
    return ''.join(out)


def hygiene():
    """No Admitted/admit/Axiom/Parameter/... anywhere in the development (Variables inside Sections are
    allowed: they are checked to sit between Section ... End)."""
    bad = []
    for root in ('theories', 'props'):
        for dp, _, fns in os.walk(os.path.join(COQ, root)):
            for fn in fns:
                if not fn.endswith('.v'):
                    continue
                p = os.path.join(dp, fn)
                src = strip_comments(open(p).read())
                depth = 0
                for ln, line in enumerate(src.split('\n'), 1):
                    if re.match(r'\s*(Section|Module)\s', line):
                        depth += 1
                    if re.match(r'\s*End\s', line):
                        depth -= 1
                    for m in FORBIDDEN.finditer(line):
                        w = m.group(0)
                        if w in ('Variable', 'Variables', 'Hypothesis') and depth > 0:
                            continue
                        bad.append('%s:%d: %s' % (os.path.relpath(p, COQ), ln, w))
    return bad


def coq_build(target=None, timeout=3000):
    """Incremental full (.vo) build under a file lock; returns (ok, log)."""
    os.makedirs(WORK, exist_ok=True)
    if True:  # build.sh serialises itself with flock
        cmd = ['bash', os.path.join(COQ, 'build.sh')] + (target.split() if target else [])
        try:
            r = subprocess.run(cmd, cwd=COQ, stdout=subprocess.PIPE, stderr=subprocess.STDOUT,
                               timeout=timeout, text=True)
            return r.returncode == 0, r.stdout
        except subprocess.TimeoutExpired as e:
            return False, 'TIMEOUT building Coq development\n' + (e.stdout or '')


def proof_stage(pid, thorough=False):
    """Builds the development, recompiles props/<pid>.v from scratch, collects Print Assumptions."""
    t0 = time.time()
    res = {'ok': False, 'obligations': 0, 'discharged': 0, 'theorems': [], 'axioms': [], 'errors': []}
    prop_v = os.path.join(COQ, 'props', pid + '.v')
    if not os.path.exists(prop_v):
        res['errors'].append('missing ' + prop_v)
        return res
    src = strip_comments(open(prop_v).read())
    names = re.findall(r'^\s*(?:Theorem|Corollary)\s+(\w+)', src, re.M)
    res['theorems'] = names
    res['obligations'] = len(names)
    bad = hygiene()
    if bad:
        res['errors'].append('hygiene: ' + '; '.join(bad[:10]))
    ok, blog = coq_build('props/%s.vo' % pid)
    if not ok:
        tail = '\n'.join(blog.strip().split('\n')[-25:])
        res['errors'].append('coq build failed:\n' + tail)
        res['wall_s'] = time.time() - t0
        return res
    # recompile the property file alone, to capture what Print Assumptions says now
    d = os.path.join(WORK, pid)
    tmp_v = os.path.join(d, 'Prop_%s.v' % pid)
    shutil.copy(prop_v, tmp_v)
    try:
        r = subprocess.run(['coqc'] + COQ_ARGS + [tmp_v], cwd=d, stdout=subprocess.PIPE,
                           stderr=subprocess.STDOUT, timeout=900, text=True)
        out = r.stdout
        if r.returncode != 0:
            res['errors'].append('coqc props/%s.v failed:\n%s' % (pid, out[-2000:]))
    except subprocess.TimeoutExpired:
        out = ''
        res['errors'].append('coqc props/%s.v timed out' % pid)
    closed = len(re.findall(r'Closed under the global context', out))
    axioms = sorted(set(re.findall(r'^\s*([\w.]+)\s*:', out.split('Axioms:', 1)[1], re.M))) if 'Axioms:' in out else []
    # collect every "Axioms:" block
    axioms = set()
    for blk in out.split('Axioms:')[1:]:
        for m in re.finditer(r'^([\w.\']+)\s*:', blk, re.M):
            axioms.add(m.group(1))
    n_print = len(re.findall(r'^\s*Print\s+Assumptions\s+(\w+)', src, re.M))
    printed = set(re.findall(r'^\s*Print\s+Assumptions\s+(\w+)', src, re.M))
    missing = [n for n in names if n not in printed]
    if missing:
        res['errors'].append('no Print Assumptions for: ' + ', '.join(missing))
    foreign = sorted(a for a in axioms if a.split('.')[-1] not in ALLOWED_AXIOMS
                     and not is_primitive(a))
    if foreign:
        res['errors'].append('unexpected axioms: ' + ', '.join(foreign))
    res['axioms'] = sorted(axioms)
    res['closed'] = closed
    res['n_print_assumptions'] = n_print
    if not res['errors']:
        res['discharged'] = len(names)
        res['ok'] = True
    if thorough and res['ok']:
        # independent re-check of the compiled property file and everything it depends on
        try:
            r = subprocess.run(['coqchk', '-silent', '-o'] + COQ_ARGS[:6] + ['RxProps.' + pid], cwd=COQ,
                               stdout=subprocess.PIPE, stderr=subprocess.STDOUT, timeout=1500, text=True)
            res['coqchk'] = 'ok' if r.returncode == 0 else 'FAILED'
            res['coqchk_tail'] = r.stdout[-1500:]
            if r.returncode != 0:
                res['ok'] = False
                res['errors'].append('coqchk failed: ' + r.stdout[-800:])
        except subprocess.TimeoutExpired:
            res['coqchk'] = 'timeout (not counted)'
    res['wall_s'] = round(time.time() - t0, 2)
    return res


def is_primitive(a):
    # kernel primitives (63-bit integers, binary64 floats) and the standard library's FloatAxioms
    # are reported by Print Assumptions but are not declared by this development
    base = a.split('.')[-1]
    return a.startswith(('Coq.', 'PrimFloat.', 'Uint63.', 'PrimInt63.', 'FloatAxioms.', 'Floats.')) or \
        base in ('float', 'int', 'add', 'sub', 'mul', 'div', 'sqrt', 'eqb', 'ltb', 'leb', 'of_uint63',
                 'normfr_mantissa', 'frshiftexp', 'ldshiftexp', 'next_up', 'next_down', 'opp', 'abs',
                 'compare', 'classify', 'lsl', 'lsr', 'land', 'lor', 'lxor', 'mod', 'addc', 'subc',
                 'mulc', 'diveucl', 'head0', 'tail0', 'float_class', 'float_comparison')


# ----------------------------------------------------------------------------------------------
# Correspondence: evaluate the model on generated shards inside Coq
# ----------------------------------------------------------------------------------------------
REPORT_RE = re.compile(r'=\s*\(\s*(\d+)(?:%nat)?\s*,\s*\[(.*?)\](?:%nat)?\s*\)\s*:\s*nat\s*\*\s*list\s+nat', re.S)   # %nat: printed when an imported file opened another scope


def run_shards(pid, preamble, ctype, checker, terms, shard=300, timeout=600, tag='cases'):
    """terms: list of Coq terms of type `ctype` (each containing the input AND what the implementation
    produced); checker : ctype -> bool says whether the model agrees.  Returns (set of mismatching case
    indices, errors).  One coqc per shard, all cores."""
    d = os.path.join(WORK, pid)
    os.makedirs(d, exist_ok=True)
    files = []
    for si, lo in enumerate(range(0, len(terms), shard)):
        chunk = terms[lo:lo + shard]
        fn = os.path.join(d, '%s_%03d.v' % (tag, si))
        with open(fn, 'w') as f:
            f.write(preamble + '\n')
            f.write('Definition cases : list (%s) := [\n' % ctype)
            f.write(';\n'.join(chunk))
            f.write('\n].\n')
            f.write('Eval vm_compute in report (mismatches (%s) cases).\n' % checker)
        files.append((fn, lo))

    def one(a):
        fn, lo = a
        try:
            r = subprocess.run('ulimit -s unlimited 2>/dev/null; exec coqc %s %s' %
                               (' '.join(COQ_ARGS), fn), shell=True, cwd=d, stdout=subprocess.PIPE,
                               stderr=subprocess.STDOUT, timeout=timeout, text=True)
        except subprocess.TimeoutExpired:
            return lo, None, 'timeout evaluating ' + fn
        m = REPORT_RE.search(r.stdout)
        if r.returncode != 0 or not m:
            return lo, None, 'coqc failed on %s:\n%s' % (fn, r.stdout[-1500:])
        n = int(m.group(1))
        idx = [int(x) for x in re.findall(r'\d+', m.group(2))]
        return lo, (n, idx), None

    bad, errors, nbad = set(), [], 0
    with ThreadPoolExecutor(NCPU) as ex:
        for lo, r, err in ex.map(one, files):
            if err:
                errors.append(err)
                continue
            nbad += r[0]
            bad.update(lo + i for i in r[1])
    return bad, nbad, errors


def coq_eval(pid, preamble, expr, timeout=300, tag='eval'):
    """Evaluates one expression with vm_compute and returns Coq's printed answer (for replay files)."""
    d = os.path.join(WORK, pid)
    fn = os.path.join(d, tag + '.v')
    with open(fn, 'w') as f:
        f.write(preamble + '\nEval vm_compute in (%s).\n' % expr)
    try:
        r = subprocess.run(['coqc'] + COQ_ARGS + [fn], cwd=d, stdout=subprocess.PIPE,
                           stderr=subprocess.STDOUT, timeout=timeout, text=True)
        return re.sub(r'\s+', ' ', r.stdout).strip()
    except subprocess.TimeoutExpired:
        return 'timeout'


# ----------------------------------------------------------------------------------------------
# Coq term printing
# ----------------------------------------------------------------------------------------------
def c_nat(n):
    return '%d%%nat' % n


def c_Z(z):
    return '(%d)%%Z' % z


def c_N(n):
    return '%d%%N' % n


def c_bool(b):
    return 'true' if b else 'false'


def c_list(items):
    return '[' + '; '.join(items) + ']'


def c_opt(x, f=lambda v: v):
    return 'None' if x is None else '(Some %s)' % f(x)


def c_zlist(zs):
    return '[' + ';'.join(str(z) for z in zs) + ']%Z' if zs else '[]'


def c_nlist(ns):
    return '[' + ';'.join(str(n) for n in ns) + ']%N' if ns else '[]'


def c_str(s):
    """Python str -> list of code points (Z)."""
    return c_zlist([ord(c) for c in s])


def c_bytes(b):
    return c_nlist(list(b))


# ----------------------------------------------------------------------------------------------
# Findings, replays, evidence
# ----------------------------------------------------------------------------------------------
def load_known(pid):
    p = os.path.join(VERIF, 'known_findings.json')
    if not os.path.exists(p):
        return []
    return [e for e in json.load(open(p)).get('findings', []) if e.get('property') == pid]


def write_replay(pid, payload):
    os.makedirs(os.path.join(WORK, 'replays'), exist_ok=True)
    blob = json.dumps(payload, sort_keys=True, default=repr)
    h = hashlib.sha1(blob.encode()).hexdigest()[:10]
    p = os.path.join(WORK, 'replays', '%s-%s.json' % (pid, h))
    payload = dict(payload)
    payload['replay_cmd'] = './check %s --replay %s' % (pid, p)
    with open(p, 'w') as f:
        json.dump(payload, f, indent=1, sort_keys=True, default=repr)
    return p


def write_evidence(pid, tier, seed, coverage, assumptions, wall, violations, debug=False):
    """evidence/<pid>.json records a full check of /repo itself; debugging runs (--no-proof, another tree through
    VERIF_REPO) leave that file alone and write to work/evidence_debug/ instead"""
    evid = EVID
    if debug or os.path.realpath(REPO) != '/repo':
        evid = os.path.join(VERIF, 'work', 'evidence_debug')
    _write_evidence(evid, pid, tier, seed, coverage, assumptions, wall, violations)


def _write_evidence(EVID, pid, tier, seed, coverage, assumptions, wall, violations):
    os.makedirs(EVID, exist_ok=True)
    ev = {
        'property_id': pid, 'tier': tier, 'seed': int(seed), 'level': 'proof',
        'coverage': coverage, 'assumptions': assumptions, 'wall_s': round(wall, 2),
        'violations': int(violations),
    }
    tmp = os.path.join(EVID, pid + '.json.tmp')
    with open(tmp, 'w') as f:
        json.dump(ev, f, indent=1, default=repr)
    os.replace(tmp, os.path.join(EVID, pid + '.json'))


def git_head(path):
    try:
        return subprocess.run(['git', '-C', path, 'rev-parse', '--short', 'HEAD'], stdout=subprocess.PIPE,
                              text=True).stdout.strip()
    except Exception:
        return '?'


# ---------------------------------------------------------------------------------------------------
# line coverage of the implementation files a property is anchored in (measured, per run)
# ---------------------------------------------------------------------------------------------------
def start_line_coverage():
    if os.environ.get('VERIF_LINECOV', '1') == '0':
        return None
    try:
        import coverage
        cov = coverage.Coverage(data_file=None, include=[os.path.join(REPO, 'rxsci', '*')], config_file=False)
        cov.start()
        return cov
    except Exception:
        return None


def anchor_files(pid):
    try:
        for l in open(os.path.join(VERIF, 'properties.jsonl')):
            d = json.loads(l)
            if d['id'] == pid:
                return d['anchors']['files']
    except Exception:
        pass
    return []


def stop_line_coverage(cov, pid):
    if cov is None:
        return None
    out = {}
    try:
        cov.stop()
        for rel in anchor_files(pid):
            fn = os.path.join(REPO, rel)
            if not os.path.exists(fn):
                continue
            try:
                _, executable, _, missing, missing_str = cov.analysis2(fn)
            except Exception:
                continue
            n = len(executable)
            out[rel] = {'executable_lines': n, 'executed': n - len(missing),
                        'percent': round(100.0 * (n - len(missing)) / n, 1) if n else 100.0,
                        'not_executed': missing_str}
    except Exception as e:
        return {'error': str(e)[:200]}
    return out
