#!/venv/bin/python
"""Ties the Coq model Container/Json.v to the real orjson.

  mirror.py [-n N] [--seed S]                 N lines   <coq term of the value> | <byte list of orjson.dumps(value)>
  mirror.py --loads [-n N] [--seed S]         N lines   <byte list of a text> | <Some (coq term) / None>
                                              (what orjson.loads answers on the text; None = it raises, or the
                                              result holds a float, i.e. is outside the modelled subset)
  mirror.py --coq [-n N] [-m M] [--seed S]    a complete Coq file (Container/JsonMirror.v) with N dumps cases,
                                              M loads cases and the two vm_compute examples

Values: None, bool, int in -2**63 .. 2**64-1, str without surrogates, list, dict with str keys.  No floats.
The random generator is seeded: the same arguments give the same file.
"""
import argparse
import random
import sys

import orjson

# ---------------------------------------------------------------- Coq syntax
def zlit(n):
    return str(n) if n >= 0 else "(%d)" % n


def zlist(ns):
    """a list of Z, in Z scope whatever the scopes open in the file"""
    if not ns:
        return "(@nil Z)"
    return "[" + "; ".join(zlit(n) for n in ns) + "]%Z"


def cps(s):
    return [ord(ch) for ch in s]


def term(v):
    """Coq term of type jv; raises on a value outside the subset"""
    if v is None:
        return "JNull"
    if v is True:
        return "(JBool true)"
    if v is False:
        return "(JBool false)"
    if isinstance(v, int):
        if not (-2**63 <= v < 2**64):
            raise ValueError("int out of range")
        return "(JInt %s%%Z)" % zlit(v)
    if isinstance(v, str):
        return "(JStr %s)" % zlist(cps(v))
    if isinstance(v, list):
        if not v:
            return "(JArr (@nil jv))"
        return "(JArr [" + "; ".join(term(x) for x in v) + "])"
    if isinstance(v, dict):
        if not v:
            return "(JObj (@nil (list Z * jv)))"
        return "(JObj [" + "; ".join("(%s, %s)" % (zlist(cps(k)), term(x)) for k, x in v.items()) + "])"
    raise ValueError("outside the subset: %r" % (v,))


# ---------------------------------------------------------------- random values
INTS = [0, 1, -1, 9, 10, -10, 99, 100, 255, 256, 65535, 2**31 - 1, 2**31, -2**31, 2**32, 2**53, 2**63 - 1, 2**63,
        2**64 - 1, -2**63, -2**63 + 1, 10**18, 10**19, -10**18, 1000000007]
CHARS = ([0, 1, 7, 8, 9, 10, 11, 12, 13, 14, 0x1f, 0x20, 0x22, 0x2f, 0x5c, 0x7e, 0x7f, 0x80, 0xe9, 0xff, 0x7ff, 0x800,
          0x20ac, 0x2028, 0x2029, 0xd7ff, 0xe000, 0xfeff, 0xfffd, 0xffff, 0x10000, 0x1f600, 0x10ffff]
         + cps("aZ09 ,:[]{}-.eEun\\\"'"))


def rand_cp(rng):
    k = rng.random()
    if k < 0.45:
        return rng.choice(CHARS)
    if k < 0.75:
        return rng.randrange(0x20, 0x7f)
    if k < 0.80:
        return rng.randrange(0, 0x20)
    if k < 0.88:
        return rng.randrange(0x80, 0x800)
    if k < 0.96:
        c = rng.randrange(0x800, 0x10000 - 0x800)
        return c if c < 0xd800 else c + 0x800
    return rng.randrange(0x10000, 0x110000)


def rand_str(rng, maxlen=6):
    return "".join(chr(rand_cp(rng)) for _ in range(rng.randrange(0, maxlen + 1)))


def rand_int(rng):
    k = rng.random()
    if k < 0.4:
        return rng.choice(INTS)
    if k < 0.7:
        return rng.randrange(-1000, 1000)
    bits = rng.randrange(1, 65)
    n = rng.getrandbits(bits)
    if rng.random() < 0.4:
        n = -n
    return max(-2**63, min(2**64 - 1, n))


def rand_value(rng, depth=3):
    k = rng.random()
    if depth == 0 or k < 0.45:
        j = rng.randrange(6)
        if j == 0:
            return None
        if j == 1:
            return rng.random() < 0.5
        if j < 4:
            return rand_int(rng)
        return rand_str(rng)
    n = rng.choice([0, 1, 1, 2, 2, 3, 4])
    if k < 0.72:
        return [rand_value(rng, depth - 1) for _ in range(n)]
    d = {}
    for _ in range(n):
        d[rand_str(rng, 3)] = rand_value(rng, depth - 1)
    return d


def dumps_cases(rng, n):
    fixed = [None, True, False, 0, [], {}, "", [[]], {"": {}}, [[], {}, [[]]], {"a": [], "": ""}]
    out = []
    for i in range(n):
        v = fixed[i] if i < len(fixed) else rand_value(rng)
        out.append((term(v), zlist(list(orjson.dumps(v)))))
    return out


# ---------------------------------------------------------------- random texts for loads
WS = [b" ", b"\t", b"\n", b"\r", b"  ", b" \n"]
BAD = [b"01", b"-", b"-01", b"[1,]", b'{"a":1,}', b'"abc', b'"a\nb"', b'"a\x01b"', b"", b" ", b"1 2", b"[1 2]",
       b'"\\x"', b'"\\u12"', b'"\\u12G4"', b'"\\ud83d"', b'"\\ude00"', b'"\\ud83d\\u0041"', b'"\\ud83dx"',
       b'"\xc0\x80"', b'"\xed\xa0\x80"', b'"\xf4\x90\x80\x80"', b'"\xf5\x80\x80\x80"', b'"\xe0\x80\x80"',
       b'"\xf0\x80\x80\x80"', b'"\xc3"', b'"\x80"', b'"\xff"', b"\x0c1", b"\xef\xbb\xbf1", b"18446744073709551616",
       b"-9223372036854775809", b"1.0", b"1e2", b"1E2", b"[1,2.5]", b"{1:2}", b'{"a" 1}', b"[", b"]", b"{", b"nul",
       b"nullx", b"truefalse", b"NaN", b"+1", b"--1", b"- 1", b"1-", b"[1]]", b"{}x", b"1\x00", b"[-]", b"0x10",
       b"[1}", b'{"a":1]', b'{"a"}', b'{"a":}', b'{,}', b"[,1]", b"'a'", b'"\\ud800\\ud800"', b'"\\U0041"',
       b"123456789012345678901234567890", b"00", b"-00", b'"\xf0\x9f\x98"', b'"\xc2\x7f"', b"tru", b"fals", b"t",
       b"\"\x7f\"", b'"\\/"', b"-0", b'"\\u0000"', b'"\\uDBFF\\uDFFF"', b'"\\uD7FF\\uE000"', b'{"a":1,"b":2,"a":3}',
       b'{"a":{"x":1},"a":{"y":2}}', b" [ 1 , 2 ] ", b'\t\n\r {"a" : 1}\n', b'"\\b\\f\\n\\r\\t\\"\\\\"',
       b"9223372036854775808", b"-9223372036854775808", b"18446744073709551615", b'["\\uDC00"]', b'"a"b"', b'""""']


def noisy_text(rng, v):
    """a JSON text of v that differs from the canonical one: whitespace, \\u escapes, \\/ """
    def ws():
        return rng.choice(WS) if rng.random() < 0.3 else b""

    def s(x):
        out = bytearray(b'"')
        for ch in x:
            c = ord(ch)
            k = rng.random()
            if c >= 0x10000 and k < 0.5:
                c2 = c - 0x10000
                hi, lo = 0xd800 + (c2 >> 10), 0xdc00 + (c2 & 0x3ff)
                fmt = "\\u%04x\\u%04X" if rng.random() < 0.5 else "\\u%04X\\u%04x"
                out += (fmt % (hi, lo)).encode()
            elif c < 0x10000 and (k < 0.3 or c < 0x20 or c in (0x22, 0x5c)):
                out += (("\\u%04x" if rng.random() < 0.5 else "\\u%04X") % c).encode()
            elif c == 0x2f and k < 0.7:
                out += b"\\/"
            else:
                out += ch.encode("utf-8")
        return bytes(out) + b'"'

    def go(x):
        if x is None or isinstance(x, (bool, int)):
            return orjson.dumps(x)
        if isinstance(x, str):
            return s(x)
        if isinstance(x, list):
            return b"[" + ws() + (ws() + b"," + ws()).join(go(y) for y in x) + ws() + b"]"
        return b"{" + ws() + (ws() + b"," + ws()).join(s(k) + ws() + b":" + ws() + go(y) for k, y in x.items()) \
            + ws() + b"}"

    return ws() + go(v) + ws()


def mutate(rng, t):
    """one random byte edit: most results are rejected by orjson"""
    t = bytearray(t)
    k = rng.randrange(4)
    pos = rng.randrange(len(t) + 1)
    pool = b' \n,:[]{}"\\0123456789-.eEu/ntrbfalsd\x00\x1f\x7f\x80\xc3\xa9\xed\xa0\xf0\xff'
    if k == 0 and t:
        del t[min(pos, len(t) - 1)]
    elif k == 1:
        t.insert(pos, rng.choice(pool))
    elif k == 2 and t:
        t[min(pos, len(t) - 1)] = rng.choice(pool)
    else:
        t = t[:pos]
    return bytes(t)


def has_float(v):
    if isinstance(v, float):
        return True
    if isinstance(v, list):
        return any(has_float(x) for x in v)
    if isinstance(v, dict):
        return any(has_float(x) for x in v.values())
    return False


def loads_answer(t):
    try:
        v = orjson.loads(t)
    except orjson.JSONDecodeError:
        return "None"
    if has_float(v):
        return "None"
    return "(Some %s)" % term(v)


def loads_cases(rng, m):
    out = []
    for i in range(m):
        if i < len(BAD):
            t = BAD[i]
        else:
            t = noisy_text(rng, rand_value(rng, 2))
            if rng.random() < 0.45:
                t = mutate(rng, t)
        out.append((zlist(list(t)), loads_answer(t)))
    return out


# ---------------------------------------------------------------- the Coq file
HEAD = """(* GENERATED by mirror.py --coq -n %d -m %d --seed %d  with orjson %s: do not edit.
   cases: (value, bytes of orjson.dumps(value));  loads_cases: (text, what orjson.loads answers on it: None = it
   raises or the result holds a float).  The two examples evaluate the MODEL on the same data. *)
From Coq Require Import List ZArith Bool.
From RxVerif Require Import Container.Json.
Import ListNotations.

"""
TAIL = """
Definition opt_jv_eqb (a b : option jv) : bool :=
  match a, b with
  | Some v, Some w => jv_eqb v w
  | None, None => true
  | _, _ => false
  end.

(* every generated value is in the domain of the round-trip theorem *)
Example mirror_wf : forallb (fun c => jv_wfb (fst c)) cases = true.
Proof. vm_compute. reflexivity. Qed.

(* json_print = orjson.dumps on every case, and json_parse reads the bytes back to the value *)
Example mirror_ok :
  forallb (fun c => list_eqb Z.eqb (json_print (fst c)) (snd c) &&
                    (match json_parse (snd c) with Some v => jv_eqb v (fst c) | None => false end)) cases = true.
Proof. vm_compute. reflexivity. Qed.

(* json_parse = orjson.loads on every text, accepted or rejected *)
Example mirror_loads_ok :
  forallb (fun c => opt_jv_eqb (json_parse (fst c)) (snd c)) loads_cases = true.
Proof. vm_compute. reflexivity. Qed.
"""


def coq_file(n, m, seed):
    rng = random.Random(seed)
    dc = dumps_cases(rng, n)
    lc = loads_cases(rng, m)
    out = [HEAD % (n, m, seed, orjson.__version__)]
    out.append("Definition cases : list (jv * list Z) := [\n")
    out.append(";\n".join("  (%s,\n   %s)" % c for c in dc))
    out.append("\n].\n\n")
    out.append("Definition loads_cases : list (list Z * option jv) := [\n")
    out.append(";\n".join("  (%s,\n   %s)" % c for c in lc))
    out.append("\n].\n")
    out.append(TAIL)
    return "".join(out)


def main():
    ap = argparse.ArgumentParser()
    ap.add_argument("-n", type=int, default=200)
    ap.add_argument("-m", type=int, default=200)
    ap.add_argument("--seed", type=int, default=0)
    ap.add_argument("--loads", action="store_true")
    ap.add_argument("--coq", action="store_true")
    a = ap.parse_args()
    if a.coq:
        sys.stdout.write(coq_file(a.n, a.m, a.seed))
        return
    rng = random.Random(a.seed)
    for c in (loads_cases(rng, a.n) if a.loads else dumps_cases(rng, a.n)):
        print("%s | %s" % c)


if __name__ == "__main__":
    main()
