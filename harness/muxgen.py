"""Typed random generation of pipelines (ASTs of harness/muxlib.py) and of well-formed mux traces.
Every random choice comes from the rng passed in."""
from harness.pyval import enc

INT, FLT, PAIR, LST, ANY = 'int', 'float', 'pair', 'list', 'any'
ID = ['id']


def ev(v):
    return enc(v)


class Gen(object):
    def __init__(self, rng, errors=0.0, heads=True, tees=True, fatal=0.0, plain_ok=False, max_depth=3,
                 only=None, stateful_bias=False):
        self.r = rng
        self.errors = errors          # probability that a map/filter/scan gets a raising function
        self.heads = heads
        self.tees = tees
        self.fatal = fatal            # probability of asserts that can fail
        self.plain_ok = plain_ok      # only operators that also accept a plain Observable (C01)
        self.max_depth = max_depth
        self.only = only
        self.stateful_bias = stateful_bias

    # ---- functions -------------------------------------------------------------------------
    def int_map(self):
        r = self.r
        return r.choice([['add', ev(r.randint(-3, 5))], ['mul', ev(r.randint(-2, 3))], ['mod', r.randint(2, 5)],
                         ['neg'], ['rsub', ev(r.randint(0, 9))], ['floordiv', r.randint(2, 4)], ID])

    def int_pred(self):
        r = self.r
        return r.choice([['isodd'], ['gt', ev(r.randint(-2, 8))], ['lt', ev(r.randint(0, 12))],
                         ['mod', r.randint(2, 4)],          # truthy non-bool
                         ['comp', ['mod', 3], ['eq', ev(r.randint(0, 2))]]])

    def int_key(self):
        r = self.r
        return r.choice([['mod', r.randint(2, 4)], ['floordiv', r.randint(2, 5)], ['isodd'], ID,
                         ['pair', ['mod', 2], ['const', ev('k')]],            # equal-but-not-identical tuples
                         ['comp', ['mod', 3], ['tofloat']],                   # 1 == 1.0 == True
                         ['comp', ['mod', 2], ['add', ev(10 ** 20)]]])        # big ints built at run time

    def raising(self, f, typ):
        """wrap a function on ints so that it raises on some items"""
        r = self.r
        cond = ['comp', ['mod', r.randint(2, 4)], ['eq', ev(r.randint(0, 1))]] if typ == INT else ['const', ev(r.random() < 0.5)]
        return ['comp', ['raiseif', cond, r.choice([1, 2, 3, 4, 13])], f]      # 13: an exception whose instances are falsy

    # ---- single operators ------------------------------------------------------------------
    def op(self, t, depth, in_tee=False):
        """returns (list of nodes, output type); in plain_ok mode enforces the tee_safe precondition of C01:
        inside a tee branch no completion-triggered operator after take/first (looking through nested tees)"""
        for _ in range(20):
            saved = getattr(self, 'may_err', False)
            nodes, ot = self.op1(t, depth, in_tee)
            if self.plain_ok and in_tee and getattr(self, 'taken', False) and completion_triggered(nodes):
                self.may_err = saved
                continue
            if self.plain_ok and has_take(nodes):
                self.taken = True
            return nodes, ot
        return [['identity']], t

    def op1(self, t, depth, in_tee=False):
        """returns (list of nodes, output type)"""
        r = self.r
        cands = []
        w = lambda weight, f: cands.extend([f] * weight)
        err = r.random() < self.errors
        if t == INT:
            w(3, lambda: ([['map', self.raising(self.int_map(), t) if err else self.int_map()]], INT))
            w(2, lambda: ([['filter', self.raising(self.int_pred(), t) if err else self.int_pred()]], INT))
            w(1, lambda: ([['map', ['pair', ID, self.int_map()]]], PAIR))
            if in_tee:     # a branch that legitimately emits None for some items (join cells must not read it as empty)
                w(1, lambda: ([['map', ['noneif', self.int_pred()]]], ANY))
            w(1, lambda: ([['map', ['div', ev(r.choice([2, 4, 3]))]]], FLT))
            w(2, lambda: ([['scan', ['raiseif', ['comp', ['mod', 3], ['eq', ev(1)]], r.choice([1, 2, 13]), ['add']] if err else r.choice([['add'], ['max'], ['min'], ['sub']]),
                            ev(r.randint(-1, 3)), int(r.random() < 0.3), None]], INT))
            w(1, lambda: ([['scan', ['append'], ev([]), 1, None, r.choice(['value', 'factory'])]], LST))
            w(1, lambda: ([['scan', ['add'], ev(0), int(r.random() < 0.5), r.choice([['mul', ev(10)], ['add', ev(100)]])]], INT))
            w(1, lambda: ([['sum', r.choice([None, ['mul', ev(2)]]), int(r.random() < 0.3)]], FLT))
            w(1, lambda: ([['mean', None, int(r.random() < 0.3)]], FLT))
            w(1, lambda: (lambda red: ([[r.choice(['min', 'max']), r.choice([None, ['neg']]), red]], ANY if red else INT))(int(r.random() < 0.3)))  # reduce on an empty lifetime emits None
            w(1, lambda: ([[r.choice(['variance', 'stddev']), None, int(r.random() < 0.3)]], FLT))
            w(1, lambda: ([['clip', ev(r.choice([None, 0, 2])), ev(r.choice([None, 5, 9]))]], INT))
            w(1, lambda: ([['fill_none', ev(0)]], INT))
            if not self.plain_ok:
                w(1, lambda: ([['distinct', r.choice([None, ['mod', 3], ['comp', ['mod', 3], ['tofloat']]])]], INT))
                w(1, lambda: ([['start_with', [ev(r.randint(50, 60)) for _ in range(r.randint(0, 2))]]], INT))
                w(1, lambda: ([['pad_start', r.randint(0, 2), ev(r.choice([None, 77]))]], INT))
                w(1, lambda: ([['pad_end', r.randint(0, 2), ev(r.choice([None, 88]))]], INT))
            w(1, lambda: ([['duc', r.choice([None, ['floordiv', 2], ['mod', 2]])]], INT))
            if r.random() < self.fatal:
                w(2, lambda: ([['assert', ['lt', ev(r.randint(5, 15))]]], INT))
                w(2, lambda: ([['assert1', r.choice([['le'], ['ne'], ['lt']])]], INT))
            else:
                w(1, lambda: ([['assert', ['lt', ev(10 ** 6)]]], INT))
        elif t == FLT:
            w(2, lambda: ([['map', r.choice([['add', ev(0.5)], ['mul', ev(1.5)], ['neg'], ['sub', ev(1)]])]], FLT))
            w(1, lambda: ([['filter', ['gt', ev(r.choice([0.5, 2, 3.25]))]]], FLT))
            w(1, lambda: ([['scan', r.choice([['add'], ['max']]), ev(0.0), int(r.random() < 0.3), None]], FLT))
            w(1, lambda: ([[r.choice(['sum', 'mean', 'variance', 'stddev']), None, int(r.random() < 0.3)]], FLT))
            w(1, lambda: (lambda red: ([[r.choice(['min', 'max']), None, red]], ANY if red else FLT))(int(r.random() < 0.3)))
            w(1, lambda: ([['clip', ev(1.0), ev(4.0)]], FLT))
        elif t == PAIR:
            w(3, lambda: ([['map', ['nth', r.randint(0, 1)]]], INT))
            w(2, lambda: ([['starmap', r.choice([['add'], ['mul'], ['max']])]], INT))
            w(1, lambda: ([['filter', ['comp', ['nth', 0], ['isodd']]]], PAIR))
            w(1, lambda: ([['sum', ['nth', 1], int(r.random() < 0.3)]], FLT))
            w(1, lambda: (lambda red: ([[r.choice(['min', 'max']), ['nth', 0], red]], ANY if red else INT))(int(r.random() < 0.3)))
            if not self.plain_ok:
                w(1, lambda: ([['distinct', ['nth', 0]]], PAIR))
        elif t == LST:
            w(3, lambda: ([['flat_map']], INT))
            w(2, lambda: ([['map', ['len']]], INT))
        # generic
        early = not getattr(self, 'no_early', False)     # take / first complete a plain observable early
        if early:
            w(1, lambda: ([['first']], t))
        w(1, lambda: ([['last']], t))
        if early:
            w(2, lambda: ([['take', r.randint(0, 3)]], t))
        w(1, lambda: ([['count', int(r.random() < 0.4)]], INT))
        w(1, lambda: ([['to_list']], LST if t == INT else ANY))
        if t in (INT, FLT) and self.plain_ok:
            w(1, lambda: ([['to_array', 'q' if t == INT else 'd']], ANY))
        w(1, lambda: ([['batch', r.randint(1, 3)]], LST if t == INT else ANY))
        w(1, lambda: ([[r.choice(['identity', 'do_action'])]], t))
        if not self.plain_ok:
            w(1, lambda: ([['lag', r.randint(0, 3)]], ANY))
        if err and t in (INT,):
            pass
        if self.heads and depth < self.max_depth and not self.plain_ok and t == INT:
            w(2, lambda: self.head(t, depth))
        if self.tees and depth < self.max_depth:
            w(2, lambda: self.tee(t, depth))
        if self.only:
            cands2 = []
            for f in cands:
                nodes, ot = f()
                if nodes and nodes[0][0] in self.only:
                    return nodes, ot
            # fall through: random
        nodes, ot = r.choice(cands)()
        if nodes and nodes[0][0] == 'mean' and nodes[0][2]:
            self.may_err = True        # mean(reduce=True) of an empty lifetime raises ZeroDivisionError in its map
        # error handlers directly after an operator whose function may raise
        if err and nodes and nodes[0][0] in ('map', 'filter', 'scan'):
            h = r.choice(['ignore', 'errmap', 'route', 'none', 'ignore'])
            if h == 'none':
                self.may_err = True
            if h == 'ignore':
                nodes = nodes + [['ignore']]
            elif h == 'errmap':
                nodes = nodes + [['errmap', ['mul', ev(-1)] if ot == INT else ['const', ev(-1)]]]
            elif h == 'route':
                nodes = nodes + [['route']]
        return nodes, ot

    def head(self, t, depth):
        r = self.r
        inner, ot = self.pipe(t, depth + 1, r.randint(0, 2))
        k = r.choice(['group', 'roll', 'roll', 'split', 'time_split'])
        if k == 'group':
            return [['group', self.int_key(), inner]], ot
        if k == 'roll':
            w, s = r.randint(1, 4), r.randint(1, 4)
            return [['roll', w, s, inner]], ot
        if k == 'split':
            return [['split', r.choice([['floordiv', r.randint(2, 4)], ['isodd'], ['mod', 2],
                                        ['pair', ['floordiv', 3], ['const', ev('p')]]]), inner]], ot
        return [['time_split', ID, r.choice([None, 3, 5]), r.choice([None, 2, 3]),
                 r.choice([None, ['comp', ['mod', 4], ['eq', ev(0)]]]), int(r.random() < 0.5), inner]], ot

    def tee(self, t, depth):
        r = self.r
        n = r.randint(2, 4) if r.random() < 0.8 else 1
        mode = r.choice(['zip', 'merge', 'combine_latest'])
        brs, ots = [], []
        for _ in range(n):
            b, ot = self.pipe(t, depth + 1, r.randint(0, 2), in_tee=True)
            brs.append(b)
            ots.append(ot)
        if mode == 'merge':
            ot = ots[0] if all(o == ots[0] for o in ots) else ANY
        else:
            ot = ANY
        return [['tee', mode, brs]], ot

    def pipe(self, t, depth, n, in_tee=False):
        """errors_handled fragment: an operator that may emit a mux error is either directly followed by a
        handler or is the last operator of its pipeline (the error then reaches the enclosing demux); a tee
        with such a branch is the last operator too."""
        nodes = []
        outer = getattr(self, 'may_err', False)
        self.may_err = False
        taken0 = getattr(self, 'taken', False)
        if not in_tee:
            self.taken = False
        for _ in range(n):
            ns, t = self.op(t, depth, in_tee)
            nodes += ns
            if self.may_err:
                break
        # an unhandled error leaves a tee branch through the join, but stops at the demux of a head
        self.may_err = outer or (self.may_err and in_tee)
        if in_tee:
            self.taken = taken0 or False if not in_tee else taken0      # siblings do not see each other's take
        return nodes, t


def has_take(nodes):
    for n in nodes:
        if n[0] in ('take', 'first'):
            return True
        if n[0] == 'tee' and any(has_take(b) for b in n[2]):
            return True
    return False


def completion_triggered(nodes):
    for n in nodes:
        k = n[0]
        if k in ('last', 'to_list', 'batch', 'to_array'):
            return True
        if k == 'count' and n[1]:
            return True
        if k in ('sum', 'mean', 'min', 'max', 'variance', 'stddev', 'fvariance', 'fstddev') and n[2]:
            return True
        if k == 'scan' and (n[3] or n[4]):
            return True
        if k == 'tee' and any(completion_triggered(b) for b in n[2]):
            return True
    return False


# --------------------------------------------------------------------------------------------
# traces
# --------------------------------------------------------------------------------------------
def gen_items(r, typ=INT, n=None, sorted_=False):
    n = r.choice([0, 1, 2, 3, 4, 6, 9, 12]) if n is None else n
    if typ == FLT:
        xs = [r.choice([0.5, 1.25, -2.0, 3.0, 1e3, 0.1, 2.5]) * r.randint(1, 4) for _ in range(n)]
    else:
        xs = [r.randint(-3, 12) for _ in range(n)]
    if sorted_:
        xs = sorted(set(xs)) if r.random() < 0.5 else sorted(xs)
    return [enc(x) for x in xs]


def gen_trace(r, typ=INT, nkeys=None, reuse=True, sorted_=False, max_items=None, bursts=False):
    """A well-formed keyed trace: several lifetimes, sparse/descending slot indices, slots reused by later
    lifetimes, arbitrary interleaving of the items of simultaneously live keys."""
    nkeys = r.choice([1, 1, 2, 3, 4]) if nkeys is None else nkeys
    slots = r.sample([0, 1, 2, 3, 5, 7, 11], nkeys)
    lifetimes = []
    for s in slots:
        nl = r.choice([1, 1, 2, 3]) if reuse else 1
        for j in range(nl):
            key = [s] if r.random() < 0.8 else [s, r.randint(0, 3)]
            items = gen_items(r, typ, sorted_=sorted_)
            if max_items is not None:
                items = items[:max_items]
            lifetimes.append((s, key, items))
    # schedule: lifetimes on the same slot are sequential; different slots interleave
    per_slot = {}
    for s, key, items in lifetimes:
        per_slot.setdefault(s, []).append([['c', key]] + [['n', key, x] for x in items] + [['d', key]])
    queues = [sum(v, []) for v in per_slot.values()]
    trace = []
    while queues:
        q = r.choice(queues)
        burst = r.choice([2, 3, 2, 4]) if bursts else r.choice([1, 1, 2, 5])
        for _ in range(burst):
            if q:
                trace.append(q.pop(0))
        queues = [q for q in queues if q]
    return trace


def gen_trace_scale(r, shape=None, min_n=0, wave=None):
    """Traces at SCALE (thresholds of data-type widths, buffer sizes and growth policies): one or two keys with
    several hundred items; or hundreds of simultaneously live keys with a few items each; slot indices in the
    hundreds / low thousands; a long key whose slot is reused afterwards.  Items cycle through a small range so
    that groups, runs and windows repeat."""
    shape = shape or r.choice(['long', 'long2', 'many', 'many_groups', 'long_reuse'])
    ev = lambda v: ['i', v]
    if shape in ('long', 'long2', 'long_reuse'):
        nk = 1 if shape != 'long2' else 2
        slots = r.sample([0, 1, 3, 130, 257, 300], nk)
        n = max(r.choice([130, 260, 300, 520, 1030]), min_n)      # min_n: the configuration's own threshold (e.g. two full windows)
        qs = []
        for s in slots:
            key = [s]
            q = [['c', key]] + [['n', key, ev((i * 7 + s) % r.choice([5, 11, 300]))] for i in range(n)] + [['d', key]]
            if shape == 'long_reuse':
                q += [['c', key]] + [['n', key, ev(i % 4)] for i in range(r.choice([3, 140]))] + [['d', key]]
            qs.append(q)
        trace = []
        while qs:
            q = r.choice(qs)
            for _ in range(r.choice([1, 3, 50])):
                if q:
                    trace.append(q.pop(0))
            qs = [q for q in qs if q]
        return trace
    if shape == 'many':
        nk = r.choice([70, 140, 270])
        keys = [[s] for s in (r.sample(range(0, 320), nk) if r.random() < 0.5 else list(range(nk)))]
        # always two pairs of slots that are equal modulo 256 (k, k + 256), live together and fed one right after the
        # other (tables indexed by the low byte of a slot must not confuse them)
        pairs = [[3], [259], [40], [296]]
        keys = pairs + [k for k in keys if k not in pairs]
        nk = len(keys)
        trace, made = [], []
        wave = wave or r.choice([1, 7, 16, nk])        # keys are created in waves, earlier keys receive items in between
        rnd = 0
        for a in range(0, nk, wave):
            for k in keys[a:a + wave]:
                trace.append(['c', k])
                made.append(k)
            for k in (made if wave >= 7 else made[-3:]):
                trace.append(['n', k, ev((k[0] + rnd) % 9)])
            rnd += 1
        for rnd2 in range(r.choice([0, 1, 2])):
            for k in keys:
                trace.append(['n', k, ev((k[0] + rnd + rnd2) % 9)])
        order = list(keys)
        r.shuffle(order)
        trace += [['d', k] for k in order]
        return trace
    # many_groups: one key, items with hundreds of distinct values (hundreds of groups / runs / distinct keys)
    key = [r.choice([0, 2, 260])]
    n = r.choice([300, 420, 600])          # always more than 256 distinct values
    items = [ev(i if r.random() < 0.8 else r.randint(0, n)) for i in range(n)]
    # a second round: groups revisited after hundreds of other groups were touched, values that are equal modulo 256 next
    # to each other, every fifth group once more
    items += [ev(v) for v in (3, 259, 3, 40, 296, 40, 259)] + [ev(i) for i in range(0, n, 5)]
    return [['c', key]] + [['n', key, x] for x in items] + [['d', key]]


def lifetimes_of(trace):
    """[(key, [items])] in order of creation, from a well-formed trace"""
    open_, out = {}, []
    for e in trace:
        k = tuple(e[1])
        if e[0] == 'c':
            open_[k] = []
            out.append((list(k), open_[k]))
        elif e[0] == 'n':
            open_[k].append(e[2])
        elif e[0] == 'd':
            open_.pop(k, None)
    return out
