"""debug helper: python -m harness.classify Cxx [tier] -> oracle failure classes with one example each"""
import collections, random, sys
from importlib import import_module
from harness.main import safe_run
m = import_module('harness.props.' + sys.argv[1])
rng = random.Random(5)
cases = m.generate(rng, sys.argv[2] if len(sys.argv) > 2 else 'quick')
c, ex = collections.Counter(), {}
for cs in cases:
    o = safe_run(m, cs)
    f = m.oracle(cs, o)
    if f:
        c[f['sig']] += 1
        ex.setdefault(f['sig'], f['what'])
for k, v in sorted(c.items()):
    print(v, k, ex[k][:260])
print(len(cases), 'cases')
