"""Confirms a seeded change (patch.diff + demo.py + meta.json) in a scratch worktree, files it under
/verif/seeded/<name>/ and runs the registered checks against it.

  python3 harness/seedtest.py confirm <dir> <name>       # e.g. /tmp/mut_out_C02/m1 C02-tee-zip-leak
  python3 harness/seedtest.py run <name> [Cxx ...]        # apply to /repo, run checks, undo
  python3 harness/seedtest.py run-scratch <name> [Cxx ...] # same in a scratch worktree (VERIF_REPO)
"""
import json
import os
import shutil
import subprocess
import sys
import time

VERIF = os.path.dirname(os.path.dirname(os.path.abspath(__file__)))
SCR = '/tmp/seedchk'
PY = '/venv/bin/python'


def sh(cmd, cwd=None, env=None, timeout=1800):
    e = dict(os.environ)
    e.update(env or {})
    r = subprocess.run(cmd, shell=True, cwd=cwd, env=e, stdout=subprocess.PIPE, stderr=subprocess.STDOUT, text=True,
                       timeout=timeout)
    return r.returncode, r.stdout


def confirm(src, name):
    sh('git -C /repo worktree remove --force %s' % SCR)
    shutil.rmtree(SCR, ignore_errors=True)
    rc, out = sh('git -C /repo worktree add --detach %s HEAD' % SCR)
    assert rc == 0, out
    res = {}
    try:
        patch = os.path.join(src, 'patch.diff')
        demo = os.path.join(src, 'demo.py')
        env = {'PYTHONPATH': SCR, 'PYTHONDONTWRITEBYTECODE': '1'}
        rc, out = sh('%s %s' % (PY, demo), cwd=SCR, env=env)
        res['demo_clean_exit'] = rc
        rc, out = sh('git apply %s' % patch, cwd=SCR)
        res['applies'] = rc == 0
        rc, out = sh('%s -m pytest -q -p no:cacheprovider --timeout=900 2>&1 | tail -3' % PY, cwd=SCR, env=env)
        res['tests'] = out.strip().split('\n')[-1]
        res['tests_pass'] = '257 passed' in out and 'failed' not in out
        rc, out = sh('%s %s' % (PY, demo), cwd=SCR, env=env)
        res['demo_mutant_exit'] = rc
        res['demo_mutant_tail'] = out.strip().split('\n')[-3:]
        rc, out = sh('git diff --stat', cwd=SCR)
        res['diffstat'] = out.strip().split('\n')[-1]
    finally:
        sh('git -C /repo worktree remove --force %s' % SCR)
        shutil.rmtree(SCR, ignore_errors=True)
    ok = res.get('applies') and res.get('tests_pass') and res.get('demo_mutant_exit') == 1 and res.get('demo_clean_exit') == 0
    res['confirmed'] = bool(ok)
    print(json.dumps(res, indent=1))
    if ok:
        dst = os.path.join(VERIF, 'seeded', name)
        os.makedirs(dst, exist_ok=True)
        shutil.copy(patch, dst)
        shutil.copy(demo, dst)
        meta = {}
        try:
            meta = json.load(open(os.path.join(src, 'meta.json')))
        except Exception:
            pass
        meta['confirmed_by_coordinator'] = {k: res[k] for k in ('tests', 'demo_clean_exit', 'demo_mutant_exit', 'diffstat')}
        meta['repo_head'] = sh('git -C /repo rev-parse --short HEAD')[1].strip()
        meta['origin'] = 'fresh sub-agent given only the property text and a scratch worktree'
        json.dump(meta, open(os.path.join(dst, 'meta.json'), 'w'), indent=1)
    return ok


def run(name, pids, scratch=False):
    """scratch=False: apply to /repo itself and undo afterwards (what the registered commands see);
    scratch=True: apply in a scratch worktree and point the checks at it with VERIF_REPO (use while something
    else is running checks against /repo)"""
    dst = os.path.join(VERIF, 'seeded', name)
    meta = json.load(open(os.path.join(dst, 'meta.json')))
    pids = pids or [meta.get('property')]
    repo = '/repo'
    if scratch:
        repo = '/tmp/seedrun_%d' % os.getpid()
        sh('git -C /repo worktree remove --force %s' % repo)
        shutil.rmtree(repo, ignore_errors=True)
        rc, out = sh('git -C /repo worktree add --detach %s HEAD' % repo)
        assert rc == 0, out
    rc, out = sh('git -C %s status --porcelain' % repo)
    assert out.strip() == '', '%s is not clean: %s' % (repo, out)
    rc, out = sh('git -C %s apply %s' % (repo, os.path.join(dst, 'patch.diff')))
    assert rc == 0, out
    results = meta.setdefault('checks', {})
    try:
        for pid in pids:
            t0 = time.time()
            rc, out = sh('./check %s --tier quick' % pid, cwd=VERIF, env={'VERIF_REPO': repo})
            vio = [l for l in out.split('\n') if l.startswith('VIOLATION')]
            results[pid] = {'exit': rc, 'violation': vio[0] if vio else None, 'wall_s': round(time.time() - t0, 1),
                            'found_failing_input': bool(vio) and 'no-failing-input-found' not in vio[0]}
            print(name, pid, results[pid])
            # robustness of the detection against the choice of the PRNG seed (SEEDTEST_SEEDS="1 2 3")
            for sd in os.environ.get('SEEDTEST_SEEDS', '').split():
                rc2, out2 = sh('./check %s --tier quick --no-proof --seed %s' % (pid, sd), cwd=VERIF, env={'VERIF_REPO': repo})
                v2 = [l for l in out2.split('\n') if l.startswith('VIOLATION')]
                meta.setdefault('other_seeds', {}).setdefault(pid, {})[sd] = \
                    'input' if (v2 and 'no-failing-input-found' not in v2[0]) else ('no-input' if v2 else 'missed')
                print(name, pid, 'seed', sd, meta['other_seeds'][pid][sd])
    finally:
        if scratch:
            sh('git -C /repo worktree remove --force %s' % repo)
            shutil.rmtree(repo, ignore_errors=True)
        else:
            sh('git -C /repo checkout -- .')
    json.dump(meta, open(os.path.join(dst, 'meta.json'), 'w'), indent=1)


if __name__ == '__main__':
    if sys.argv[1] == 'confirm':
        sys.exit(0 if confirm(sys.argv[2], sys.argv[3]) else 1)
    elif sys.argv[1] == 'run':
        run(sys.argv[2], sys.argv[3:])
    elif sys.argv[1] == 'run-scratch':
        run(sys.argv[2], sys.argv[3:], scratch=True)
