"""Generators and Coq-term printers for the orjson model WITH floats (coq/theories/Container/JsonFloat.v); derived from the
test generator delivered with that model.  Used by harness/props/C19.py (kind 'jfloat'): values that may hold finite binary64
floats, texts (number syntax, long digit strings, halfway cases, mutated numbers) answered by the real orjson.  Never
generated: nan / inf (orjson writes null), ints outside -2^63..2^64-1, nesting beyond a few levels, mantissas beyond 400
digits or exponent fields beyond 20 digits (the range in which the model was compared with orjson)."""
import sys, math, random, struct, orjson
def triple(x):
    bits = struct.unpack("<Q", struct.pack("<d", x))[0]
    sign = bits >> 63; ex = (bits >> 52) & 0x7FF; fr = bits & ((1 << 52) - 1)
    assert ex != 0x7FF
    if ex == 0: return (sign, fr, -1074 if fr else 0)
    return (sign, fr + (1 << 52), ex - 1075)
def zlit(n): return str(n) if n >= 0 else "(%d)" % n
def zlist(ns): return "(@nil Z)" if not ns else "[" + "; ".join(zlit(n) for n in ns) + "]%Z"
def cps(s): return [ord(c) for c in s]
def term(v):
    if v is None: return "FNull"
    if v is True: return "(FBool true)"
    if v is False: return "(FBool false)"
    if isinstance(v, int):
        assert -2**63 <= v < 2**64
        return "(FInt %s%%Z)" % zlit(v)
    if isinstance(v, float):
        assert not (math.isinf(v) or math.isnan(v))
        t = triple(v)
        return "(ffloat (%s, %s%%Z, %s%%Z))" % ("true" if t[0] else "false", zlit(t[1]), zlit(t[2]))
    if isinstance(v, str): return "(FStr %s)" % zlist(cps(v))
    if isinstance(v, list):
        return "(FArr (@nil jvf))" if not v else "(FArr [" + "; ".join(term(x) for x in v) + "])"
    if isinstance(v, dict):
        return "(FObj (@nil (list Z * jvf)))" if not v else "(FObj [" + "; ".join("(%s, %s)" % (zlist(cps(k)), term(x)) for k, x in v.items()) + "])"
    raise ValueError
SPECIAL = [0.0, -0.0, 1.0, 0.1, 1e16, 1e-7, 1.5e300, 5e-324, 123456789012345680.0, 100.0, 1e21, 1e22, 1e15, 1e17, 1e-5, 1e-6, 0.00001, 9999999999999998.0,
           1.7976931348623157e308, 2.2250738585072014e-308, 2.0**-44, 2.0**53, 123.456, 1e100, 1e-100, 0.3, 1/3, 12345678901234567.0, 1234567890123456.0, 0.0001, 1e23]
def rand_float(rng):
    j = rng.randrange(6)
    if j == 0: return rng.choice(SPECIAL) * rng.choice([1, -1])
    if j == 1:
        while True:
            x = struct.unpack("<d", struct.pack("<Q", rng.getrandbits(64)))[0]
            if not (math.isinf(x) or math.isnan(x)): return x
    if j == 2: return round(rng.uniform(-1000, 1000), rng.randrange(0, 6))
    if j == 3: return float(rng.randrange(-10**rng.randrange(1, 22), 10**rng.randrange(1, 22)))
    if j == 4: return float("%de%d" % (rng.randrange(1, 10**rng.randrange(1, 8)), rng.randrange(-330, 300)))
    x = rng.choice([2.0**rng.randrange(-1070, 1023), float("1e%d" % rng.randrange(-320, 308))])
    return math.nextafter(x, rng.choice([0.0, math.inf]))
def rand_value(rng, depth=2):
    k = rng.random()
    if depth == 0 or k < 0.6:
        j = rng.randrange(8)
        if j == 0: return None
        if j == 1: return rng.random() < 0.5
        if j == 2: return rng.choice([0, -1, 2**64 - 1, -2**63, 2**53 + 1, rng.randrange(-10**6, 10**6)])
        if j == 3: return "".join(chr(rng.choice([0x20, 0x22, 0x5c, 10, 0xe9, 0x1f600, 0x65, 0x2e, 0x31])) for _ in range(rng.randrange(0, 4)))
        return rand_float(rng)
    n = rng.choice([0, 1, 2, 3])
    if k < 0.8: return [rand_value(rng, depth - 1) for _ in range(n)]
    return {"k%d" % i: rand_value(rng, depth - 1) for i in range(n)}
TEXTS = [b'1e400', b'-1e400', b'1e-400', b'1E5', b'1e+5', b'1.0', b'-0.0', b'-0', b'-0e0', b'0e5', b'1.', b'.5', b'1e', b'1.e5', b'01.5', b'1.5e', b'1e+',
 b'18446744073709551616', b'18446744073709551615', b'-9223372036854775809', b'-9223372036854775808', b'1.7976931348623158e308', b'1.7976931348623159e308', b'9007199254740993',
 b'9007199254740993.0', b'0.1e1', b'1e00005', b'1.0E-2', b'[1.5,2]', b'1e99999999999', b'1e-99999999999', b'123456789012345678901234567890',
 b'-123456789012345678901234567890', b'0.0e400', b'0e400', b'1' + b'0'*400, b'1'+b'0'*308, b'2.4703282292062328e-324', b'2.4703282292062327e-324', b'NaN',
 b'Infinity', b'-Infinity', b'1e5x', b'-', b'-.5', b'- 1.5', b'+1.5', b'1.5 ', b' 1.5', b'{"a":1.5,"b":[-0.0,1e-7]}', b'[1.5e3,]', b'1.5.5', b'1e5e5', b'1e5.5', b'-01', b'00.5',
 b'0.5', b'-0.5e-0', b'1e-0', b'0.000', b'0.1000000000000000055511151231257827021181583404541015625', b'0.10000000000000000555111512312578270211815834045410156250000001',
 b'0.1000000000000000124900090270330610871315002441406250', b'0.10000000000000001249000902703306108713150024414062500000001', b'9007199254740993.00000000000000000001',
 b'[1e2, 1E2 ,1.0e+2]', b'1ee5', b'1e-', b'1e+-5', b'1.e', b'--1.5', b'1_0.5', b'0x1p3', b'1.5f', b'1,5']
def rand_text(rng):
    j = rng.randrange(8); x = abs(rand_float(rng))
    if j == 0: return orjson.dumps(rand_value(rng))
    if j == 1: return ("%.*e" % (rng.randrange(0, 25), x)).encode()
    if j == 2: return ("%.*f" % (rng.randrange(0, 8), rng.uniform(-1e6, 1e6))).encode()
    if j == 3: return ("".join(rng.choice("0123456789") for _ in range(rng.randrange(20, 60))).lstrip("0") or "0").encode() + rng.choice([b"", b"e-%d" % rng.randrange(0, 360), b"E%d" % rng.randrange(0, 300)])
    if j == 4: return ("%s%d.%se%s%d" % (rng.choice(["", "-"]), rng.randrange(0, 1000), "".join(rng.choice("0123456789") for _ in range(rng.randrange(1, 12))), rng.choice(["", "+", "-"]), rng.randrange(0, 330))).encode()
    if j == 5: return str((1 << rng.randrange(53, 70)) + rng.randrange(-3, 4)).encode()
    t = bytearray(orjson.dumps(rand_float(rng)))
    pos = rng.randrange(len(t) + 1); pool = b"0123456789.eE+- ,"
    k = rng.randrange(3)
    if k == 0 and t: del t[min(pos, len(t) - 1)]
    elif k == 1: t.insert(pos, rng.choice(pool))
    else: t[min(pos, len(t) - 1)] = rng.choice(pool)
    return bytes(t)
def answer(t):
    try: v = orjson.loads(t)
    except orjson.JSONDecodeError: return "None"
    return "(Some %s)" % term(v)


def dump_values(rng, n):
    vals = [x for x in SPECIAL] + [-x for x in SPECIAL[:6]]
    rng.shuffle(vals)
    vals = vals[:max(4, n // 3)]
    while len(vals) < n:
        vals.append(rand_value(rng))
    return vals[:n]


def loads_cases(rng, m):
    texts = list(TEXTS)
    rng.shuffle(texts)
    texts = texts[:max(6, m // 3)]
    while len(texts) < m:
        texts.append(rand_text(rng))
    return [(zlist(list(t)), answer(t)) for t in texts[:m]]


def same_value(a, b):
    """equal as JSON values with floats compared bit for bit (so -0.0 is not 0.0) and bool / int / float kept apart"""
    if type(a) is not type(b):
        return False
    if isinstance(a, float):
        return struct.pack('<d', a) == struct.pack('<d', b)
    if isinstance(a, list):
        return len(a) == len(b) and all(same_value(x, y) for x, y in zip(a, b))
    if isinstance(a, dict):
        return list(a.keys()) == list(b.keys()) and all(same_value(a[k], b[k]) for k in a)
    return a == b
