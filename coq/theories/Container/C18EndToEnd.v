(* C18 end to end at the level of BYTES, without premises about numbers, codec or compression, for the MODELLED stack:
     csv.dump / load    = Container/Csv.v with the concrete number layers IntText.v and FloatText.v (okfl)
     rs.data.encode /
     rs.data.decode     = the incremental UTF-8 codec model of Codec/Wrapper.v, through u8_encode / u8_decode of
                          Container/C19EndToEnd.v
     compression        = none (id_compress / id_decompress) or the gzip model (gz_comp: the STORED-BLOCK compressor of the
                          model, NOT the compressor of zlib; gz_decomp: the full inflate model)
   The C18 theorems of CsvProofs.v / FloatTextProofs.v speak of TEXT chunks.  Here: the text items dump emits are
   encoded to bytes, (compressed,) written; ANY re-chunking of the file bytes - in particular reading the file in
   pieces of n bytes - is (decompressed,) decoded incrementally and loaded: the rows come back and the stream completes.
   New premises, on the data only: the separator, the escape character, the column names and the string fields are
   Unicode scalar values (cp_ok): what UTF-8 can carry. *)
From Coq Require Import List Arith Bool ZArith NArith Lia.
From RxVerif Require Import Framing.Line Container.Parquet Container.ParquetProofs Container.JsonLines.
From RxVerif Require Import Container.Json Container.C19EndToEnd.
From RxVerif Require Import Container.IntText Container.IntTextProofs Container.FloatText Container.FloatTextProofs.
From RxVerif Require Import Container.Csv Container.CsvProofs.
Import ListNotations.
Local Open Scope Z_scope.

(* ---------------------------------------------------------------------------------------------
   load from bytes: decompress, decode, load.  A stage that fails ends the stream with an error
   --------------------------------------------------------------------------------------------- *)
Definition load_byte_chunks (decomp : list (list Z) -> option (list (list Z))) (p esc : Z) (types : list ty)
    (r : list (list Z)) : list (list (value okfl)) * bool :=
  match decomp r with
  | None => ([], false)
  | Some bs =>
      match u8_decode bs with
      | None => ([], false)
      | Some cs => Csv.load_chunks okfl py_int_of okfl_of [p] esc types cs
      end
  end.
(* the bytes written: the text items of dump, encoded, compressed, appended *)
Definition dump_bytes (comp : list (list Z) -> list (list Z)) (p esc : Z) (names : list (list Z))
    (rows : list (list (value okfl))) : list Z :=
  concat (comp (u8_encode (dump_lines okfl py_str_int okfl_str [p] esc [newline] names rows))).

(* the string fields of a row hold Unicode scalar values only *)
Definition value_cp_ok (v : value okfl) : Prop := match v with VStr s => Forall cp_ok s | _ => True end.

(* ---------------------------------------------------------------------------------------------
   every character of the dumped text is a Unicode scalar value
   --------------------------------------------------------------------------------------------- *)
Lemma ascii_cp_ok : forall c, 0 <= c < 128 -> cp_ok c.
Proof. intros c H. unfold cp_ok. lia. Qed.

Lemma join_Forall : forall (P : Z -> Prop) sep l, Forall P sep -> Forall (Forall P) l -> Forall P (join sep l).
Proof.
  intros P sep l Hs Hl. induction Hl as [|x r Hx Hr IH]; [constructor|]. cbn [join].
  destruct r as [|y r']; [exact Hx|]. apply Forall_app. split; [exact Hx|]. apply Forall_app. split; [exact Hs | exact IH].
Qed.

Lemma replace1_Forall : forall (P : Z -> Prop) a r s, Forall P r -> Forall P s -> Forall P (replace1 a r s).
Proof.
  intros P a r s Hr Hs. unfold replace1. induction Hs as [|c s Hc Hs' IH]; [constructor|]. cbn [flat_map].
  apply Forall_app. split; [|exact IH]. destruct (Z.eq_dec c a); [exact Hr | constructor; [exact Hc | constructor]].
Qed.

Lemma str_bool_cp_ok : forall b, Forall cp_ok (str_bool b).
Proof. intros [|]; cbn [str_bool]; repeat constructor; unfold cp_ok; lia. Qed.

Lemma str_int_cp_ok : forall n, Forall cp_ok (py_str_int n).
Proof. intros n. apply Forall_forall. intros c H. apply py_str_int_chars in H. apply ascii_cp_ok. lia. Qed.

Lemma str_float_cp_ok : forall o, Forall cp_ok (okfl_str o).
Proof.
  intros o. apply Forall_forall. intros c H. unfold okfl_str in H. apply py_str_float_chars in H.
  unfold float_char in H. apply ascii_cp_ok. lia.
Qed.

Lemma quote_cp_ok : cp_ok quote.
Proof. unfold quote, cp_ok. lia. Qed.
Lemma newline_cp_ok : cp_ok newline.
Proof. unfold newline, cp_ok. lia. Qed.

Lemma render_cp_ok : forall esc v, cp_ok esc -> value_cp_ok v -> Forall cp_ok (render okfl py_str_int okfl_str esc v).
Proof.
  intros esc v He Hv. destruct v as [|n|x|b|s]; cbn [render].
  - constructor.
  - apply str_int_cp_ok.
  - apply str_float_cp_ok.
  - apply str_bool_cp_ok.
  - cbn [value_cp_ok] in Hv. apply Forall_app. split; [constructor; [exact quote_cp_ok | constructor]|].
    apply Forall_app. split; [|constructor; [exact quote_cp_ok | constructor]].
    unfold escape. apply replace1_Forall; [constructor; [exact He | constructor; [exact quote_cp_ok | constructor]]|].
    apply replace1_Forall; [constructor; [exact He | constructor; [exact He | constructor]] | exact Hv].
Qed.

Lemma dump_lines_cp_ok : forall p esc names rows, cp_ok p -> cp_ok esc ->
  Forall (Forall cp_ok) names -> Forall (Forall value_cp_ok) rows ->
  Forall (Forall cp_ok) (dump_lines okfl py_str_int okfl_str [p] esc [newline] names rows).
Proof.
  intros p esc names rows Hp He Hn Hr. unfold dump_lines. destruct rows as [|row rows]; [constructor|].
  assert (Hsep : Forall cp_ok [p]) by (constructor; [exact Hp | constructor]).
  assert (Hnl : Forall cp_ok [newline]) by (constructor; [exact newline_cp_ok | constructor]).
  constructor.
  - apply Forall_app. split; [apply join_Forall; assumption | exact Hnl].
  - apply Forall_forall. intros x Hx. apply in_map_iff in Hx. destruct Hx as (r0 & <- & Hr0).
    apply Forall_app. split; [|exact Hnl]. unfold dump_line. apply join_Forall; [exact Hsep|].
    apply Forall_forall. intros f Hf. apply in_map_iff in Hf. destruct Hf as (v & <- & Hv).
    apply render_cp_ok; [exact He|]. rewrite Forall_forall in Hr. specialize (Hr r0 Hr0).
    rewrite Forall_forall in Hr. apply Hr. exact Hv.
Qed.

(* ---------------------------------------------------------------------------------------------
   the composition, for a compression stage that satisfies the re-chunking law
   --------------------------------------------------------------------------------------------- *)
Section Stack.
Variable comp : list (list Z) -> list (list Z).
Variable decomp : list (list Z) -> option (list (list Z)).
Hypothesis H_compression : forall bs r, concat r = concat (comp bs) ->
  exists bs', decomp r = Some bs' /\ concat bs' = concat bs.

Theorem load_bytes_any_rechunking : forall (p esc : Z),
  p <> quote -> p <> esc -> esc <> quote ->
  ~ float_char p ->
  (forall b, ~ In p (str_bool b)) ->
  p <> newline -> esc <> newline ->
  cp_ok p -> cp_ok esc ->
  forall (types : list ty) (names : list (list Z)) (rows : list (list (value okfl))) (r : list (list Z)),
  Forall text_no_nl names ->
  Forall (fun row => Forall2 field_ok types row /\ row <> [] /\ Forall value_no_nl row) rows ->
  Forall (Forall cp_ok) names -> Forall (Forall value_cp_ok) rows ->
  concat r = dump_bytes comp p esc names rows ->
  load_byte_chunks decomp p esc types r = (rows, true).
Proof.
  intros p esc H1 H2 H3 Hp Hb Hn1 Hn2 Cp Ce types names rows r Hnames Hrows Cn Cr H.
  unfold dump_bytes in H. unfold load_byte_chunks.
  destruct (H_compression _ r H) as (bs & Hd & Hbs). rewrite Hd.
  destruct (u8_codec_ok _ bs (dump_lines_cp_ok p esc names rows Cp Ce Cn Cr) Hbs) as (cs & Hc & Hcs). rewrite Hc.
  apply csv_file_float_concrete with (names := names); assumption.
Qed.

(* reading the file in pieces of n bytes *)
Theorem load_bytes_file_read : forall (p esc : Z),
  p <> quote -> p <> esc -> esc <> quote ->
  ~ float_char p ->
  (forall b, ~ In p (str_bool b)) ->
  p <> newline -> esc <> newline ->
  cp_ok p -> cp_ok esc ->
  forall (types : list ty) (names : list (list Z)) (rows : list (list (value okfl))) (n : nat),
  Forall text_no_nl names ->
  Forall (fun row => Forall2 field_ok types row /\ row <> [] /\ Forall value_no_nl row) rows ->
  Forall (Forall cp_ok) names -> Forall (Forall value_cp_ok) rows ->
  load_byte_chunks decomp p esc types (JsonLines.file_read Z n (dump_bytes comp p esc names rows)) = (rows, true).
Proof.
  intros p esc H1 H2 H3 Hp Hb Hn1 Hn2 Cp Ce types names rows n Hnames Hrows Cn Cr.
  apply load_bytes_any_rechunking with (names := names); try assumption.
  unfold JsonLines.file_read. apply batches_concat.
Qed.
End Stack.

(* ---------------------------------------------------------------------------------------------
   C18 end to end: the two compression settings
   --------------------------------------------------------------------------------------------- *)
(* compression=None *)
Theorem C18_e2e_bytes_any_rechunking_plain : forall (p esc : Z),
  p <> quote -> p <> esc -> esc <> quote ->
  ~ float_char p ->
  (forall b, ~ In p (str_bool b)) ->
  p <> newline -> esc <> newline ->
  cp_ok p -> cp_ok esc ->
  forall (types : list ty) (names : list (list Z)) (rows : list (list (value okfl))) (r : list (list Z)),
  Forall text_no_nl names ->
  Forall (fun row => Forall2 field_ok types row /\ row <> [] /\ Forall value_no_nl row) rows ->
  Forall (Forall cp_ok) names -> Forall (Forall value_cp_ok) rows ->
  concat r = dump_bytes id_compress p esc names rows ->
  load_byte_chunks id_decompress p esc types r = (rows, true).
Proof. exact (load_bytes_any_rechunking id_compress id_decompress id_compression_ok). Qed.

Theorem C18_e2e_bytes_file_read_plain : forall (p esc : Z),
  p <> quote -> p <> esc -> esc <> quote ->
  ~ float_char p ->
  (forall b, ~ In p (str_bool b)) ->
  p <> newline -> esc <> newline ->
  cp_ok p -> cp_ok esc ->
  forall (types : list ty) (names : list (list Z)) (rows : list (list (value okfl))) (n : nat),
  Forall text_no_nl names ->
  Forall (fun row => Forall2 field_ok types row /\ row <> [] /\ Forall value_no_nl row) rows ->
  Forall (Forall cp_ok) names -> Forall (Forall value_cp_ok) rows ->
  load_byte_chunks id_decompress p esc types (JsonLines.file_read Z n (dump_bytes id_compress p esc names rows)) = (rows, true).
Proof. exact (load_bytes_file_read id_compress id_decompress id_compression_ok). Qed.

(* the gzip model (stored-block compressor, full inflate) *)
Theorem C18_e2e_bytes_any_rechunking_gzip : forall (p esc : Z),
  p <> quote -> p <> esc -> esc <> quote ->
  ~ float_char p ->
  (forall b, ~ In p (str_bool b)) ->
  p <> newline -> esc <> newline ->
  cp_ok p -> cp_ok esc ->
  forall (types : list ty) (names : list (list Z)) (rows : list (list (value okfl))) (r : list (list Z)),
  Forall text_no_nl names ->
  Forall (fun row => Forall2 field_ok types row /\ row <> [] /\ Forall value_no_nl row) rows ->
  Forall (Forall cp_ok) names -> Forall (Forall value_cp_ok) rows ->
  concat r = dump_bytes gz_comp p esc names rows ->
  load_byte_chunks gz_decomp p esc types r = (rows, true).
Proof. exact (load_bytes_any_rechunking gz_comp gz_decomp gz_compression_ok). Qed.

Theorem C18_e2e_bytes_file_read_gzip : forall (p esc : Z),
  p <> quote -> p <> esc -> esc <> quote ->
  ~ float_char p ->
  (forall b, ~ In p (str_bool b)) ->
  p <> newline -> esc <> newline ->
  cp_ok p -> cp_ok esc ->
  forall (types : list ty) (names : list (list Z)) (rows : list (list (value okfl))) (n : nat),
  Forall text_no_nl names ->
  Forall (fun row => Forall2 field_ok types row /\ row <> [] /\ Forall value_no_nl row) rows ->
  Forall (Forall cp_ok) names -> Forall (Forall value_cp_ok) rows ->
  load_byte_chunks gz_decomp p esc types (JsonLines.file_read Z n (dump_bytes gz_comp p esc names rows)) = (rows, true).
Proof. exact (load_bytes_file_read gz_comp gz_decomp gz_compression_ok). Qed.

(* the usual separators with backslash as escape character satisfy every side condition, the new ones included *)
Example C18_e2e_side_conditions_ok : forall p, In p [44; 59; 9; 124] ->
  p <> quote /\ p <> 92 /\ 92 <> quote /\ ~ float_char p /\ (forall b, ~ In p (str_bool b)) /\ p <> newline /\ 92 <> newline
  /\ cp_ok p /\ cp_ok 92.
Proof.
  intros p H. unfold quote, newline, float_char, cp_ok. cbn [In] in H.
  repeat split; try lia; intros b Hb; destruct b; cbn [str_bool In] in Hb; lia.
Qed.

(* ---------------------------------------------------------------------------------------------
   the whole stack evaluated: separator comma, escape backslash; columns int, float, bool, str.
   row 1: -42, 0.1, True, the string  e-acute comma quote euro;  row 2: 7, -0.0, False, the string  a backslash grinning-face.
   The file is read back in pieces of 1 and 5 bytes, with and without the gzip model.
   --------------------------------------------------------------------------------------------- *)
Definition mk_okfl (x : fl) (H : okflb x = true) : okfl := exist (fun x => okflb x = true) x H.
Definition ex_types : list ty := [TInt; TFloat; TBool; TStr].
Definition ex_names : list (list Z) := [[110]; [120]; [98]; [115]].
Definition ex_rows : list (list (value okfl)) :=
  [[VInt (-42); VFloat (mk_okfl (mkfl false 7205759403792794 (-56)) eq_refl); VBool true; VStr [233; 44; 34; 8364]];
   [VInt 7; VFloat (mk_okfl (mkfl true 0 0) eq_refl); VBool false; VStr [97; 92; 128512]]].
(* the rows with the floats shown as plain triples *)
Definition show_value (v : value okfl) : value fl :=
  match v with
  | VNone => VNone | VInt n => VInt n | VFloat o => VFloat (okfl_val o) | VBool b => VBool b | VStr s => VStr s
  end.
Definition show (res : list (list (value okfl)) * bool) : list (list (value fl)) * bool :=
  (map (map show_value) (fst res), snd res).

(* the file without compression: header and two lines, UTF-8 *)
Example C18_e2e_file_example :
  dump_bytes id_compress 44 92 ex_names ex_rows =
  [110; 44; 120; 44; 98; 44; 115; 10;
   45; 52; 50; 44; 48; 46; 49; 44; 84; 114; 117; 101; 44; 34; 195; 169; 44; 92; 34; 226; 130; 172; 34; 10;
   55; 44; 45; 48; 46; 48; 44; 70; 97; 108; 115; 101; 44; 34; 97; 92; 92; 240; 159; 152; 128; 34; 10].
Proof. vm_compute. reflexivity. Qed.
Example C18_e2e_plain_example :
  map (fun n => show (load_byte_chunks id_decompress 44 92 ex_types
                        (JsonLines.file_read Z n (dump_bytes id_compress 44 92 ex_names ex_rows)))) [1; 5]%nat
  = [show (ex_rows, true); show (ex_rows, true)].
Proof. vm_compute. reflexivity. Qed.
Example C18_e2e_gzip_example :
  map (fun n => show (load_byte_chunks gz_decomp 44 92 ex_types
                        (JsonLines.file_read Z n (dump_bytes gz_comp 44 92 ex_names ex_rows)))) [1; 5]%nat
  = [show (ex_rows, true); show (ex_rows, true)].
Proof. vm_compute. reflexivity. Qed.
(* a byte sequence that is not UTF-8 (the file with its last line cut inside the astral character) ends with an error *)
Example C18_e2e_bad_bytes_example :
  snd (load_byte_chunks id_decompress 44 92 ex_types
         [firstn 51 (dump_bytes id_compress 44 92 ex_names ex_rows)]) = false.
Proof. vm_compute. reflexivity. Qed.

Print Assumptions C18_e2e_bytes_any_rechunking_plain.
Print Assumptions C18_e2e_bytes_file_read_plain.
Print Assumptions C18_e2e_bytes_any_rechunking_gzip.
Print Assumptions C18_e2e_bytes_file_read_gzip.
