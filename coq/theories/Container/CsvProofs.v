(* Proofs about the CSV model (Container/Csv.v): un-escaping inverts escaping, split/join algebra for a
   one-character separator, the parity of escape runs, merge_escape_parts re-assembles exactly the
   rendered fields, parse_line inverts dump_line, and the file-level corollary through line.unframe. *)
From Coq Require Import List Arith Bool ZArith Lia.
From RxVerif Require Import Framing.Line Framing.LineProofs Container.Csv.
Import ListNotations.

(* =============================================================================================
   1. String layer: unescape (escape s) = s for every string (token-alignment argument)
   ============================================================================================= *)
Section StringLayer.
Variable esc : Z.
Hypothesis esc_ne_q : esc <> quote.

(* token view of the two sequential replace calls *)
Definition enc (s : list Z) : list Z :=
  flat_map (fun c => if Z.eq_dec c esc then [esc; esc] else if Z.eq_dec c quote then [esc; quote] else [c]) s.
Definition mid (s : list Z) : list Z := flat_map (fun c => if Z.eq_dec c quote then [esc; quote] else [c]) s.

Lemma escape_enc s : escape esc s = enc s.
Proof.
  unfold escape, replace1, enc. induction s as [|c s IH]; cbn [flat_map]; auto.
  rewrite flat_map_app, IH. destruct (Z.eq_dec c esc) as [->|Hne].
  - cbn [flat_map app]. destruct (Z.eq_dec esc quote); [contradiction|]. reflexivity.
  - cbn [flat_map app]. destruct (Z.eq_dec c quote); reflexivity.
Qed.

Lemma replace2_skip a b r x t : x <> a -> replace2 a b r (x :: t) = x :: replace2 a b r t.
Proof. intro H. destruct t; cbn [replace2]. reflexivity. destruct (Z.eq_dec x a); [contradiction|reflexivity]. Qed.
Lemma replace2_skip2 a b r x y t : y <> b -> replace2 a b r (x :: y :: t) = x :: replace2 a b r (y :: t).
Proof. intro H. cbn [replace2]. destruct (Z.eq_dec x a); auto. destruct (Z.eq_dec y b); [contradiction|reflexivity]. Qed.

Lemma un1 s : replace2 esc esc [esc] (enc s) = mid s.
Proof.
  unfold enc, mid. induction s as [|c s IH]; cbn [flat_map]; auto.
  destruct (Z.eq_dec c esc) as [->|Hne].
  - cbn [app replace2]. destruct (Z.eq_dec esc esc); [|congruence]. destruct (Z.eq_dec esc quote); [contradiction|]. cbn [app]. now rewrite IH.
  - destruct (Z.eq_dec c quote) as [->|Hnq]; cbn [app].
    + rewrite replace2_skip2 by congruence. rewrite replace2_skip by congruence. now rewrite IH.
    + rewrite replace2_skip by auto. now rewrite IH.
Qed.

Lemma mid_head_not_q s : match mid s with [] => True | y :: _ => y <> quote end.
Proof. unfold mid. destruct s as [|c s]; cbn [flat_map]; auto. destruct (Z.eq_dec c quote); cbn [app]; auto. Qed.

Lemma un2 s : replace2 esc quote [quote] (mid s) = s.
Proof.
  induction s as [|c s IH]; auto. unfold mid in *. cbn [flat_map].
  destruct (Z.eq_dec c quote) as [->|Hnq]; cbn [app].
  - cbn [replace2]. destruct (Z.eq_dec esc esc); [|congruence]. destruct (Z.eq_dec quote quote); [|congruence]. cbn [app]. now rewrite IH.
  - destruct (Z.eq_dec c esc) as [->|Hne].
    + pose proof (mid_head_not_q s) as Hh. unfold mid in Hh. destruct (flat_map _ s) as [|y t] eqn:E.
      * cbn [replace2] in *. now rewrite <- IH.
      * rewrite replace2_skip2 by auto. now rewrite IH.
    + rewrite replace2_skip by auto. now rewrite IH.
Qed.

Theorem unescape_escape s : unescape esc (escape esc s) = s.
Proof. unfold unescape. rewrite escape_enc, un1. apply un2. Qed.

(* ---------------------------------------------------------------------------------------------
   parity of escape runs in an escaped string
   --------------------------------------------------------------------------------------------- *)
(* ev u: the run of escape characters at the end of u has even length *)
Definition ev (u : list Z) : bool := Nat.even (esc_run esc (rev u)).

Lemma esc_run_app_stop l c m : c <> esc -> esc_run esc (l ++ c :: m) = esc_run esc l.
Proof.
  intro H. induction l as [|x l IH]; cbn [app esc_run].
  - apply Z.eqb_neq in H. now rewrite H.
  - destruct (Z.eqb x esc); auto.
Qed.

Lemma ev_snoc_esc u : ev (u ++ [esc]) = negb (ev u).
Proof.
  unfold ev. rewrite rev_app_distr. cbn [rev app esc_run]. rewrite Z.eqb_refl.
  rewrite Nat.even_succ. now rewrite <- Nat.negb_even.
Qed.
Lemma ev_snoc_other u c : c <> esc -> ev (u ++ [c]) = true.
Proof.
  intro H. unfold ev. rewrite rev_app_distr. cbn [rev app esc_run]. apply Z.eqb_neq in H. now rewrite H.
Qed.
Lemma ev_after x c y : c <> esc -> ev (x ++ c :: y) = ev y.
Proof.
  intro H. unfold ev. rewrite rev_app_distr. cbn [rev]. rewrite <- app_assoc. cbn [app].
  now rewrite esc_run_app_stop.
Qed.
Lemma ev_nil : ev [] = true.
Proof. reflexivity. Qed.

Lemma enc_snoc s c : enc (s ++ [c]) =
  enc s ++ (if Z.eq_dec c esc then [esc; esc] else if Z.eq_dec c quote then [esc; quote] else [c]).
Proof. unfold enc. rewrite flat_map_app. cbn [flat_map]. now rewrite app_nil_r. Qed.

(* the escape run at the end of an escaped string is even *)
Lemma enc_ev s : ev (enc s) = true.
Proof.
  induction s as [|c s IH] using rev_ind. reflexivity.
  rewrite enc_snoc. destruct (Z.eq_dec c esc) as [->|Hne].
  - change [esc; esc] with ([esc] ++ [esc]). rewrite app_assoc, !ev_snoc_esc, IH. reflexivity.
  - destruct (Z.eq_dec c quote) as [->|Hnq].
    + change [esc; quote] with ([esc] ++ [quote]). rewrite app_assoc. apply ev_snoc_other. congruence.
    + now apply ev_snoc_other.
Qed.

(* every quote inside an escaped string is preceded by an odd run of escape characters *)
Lemma enc_quote_odd s : forall u v, enc s = u ++ quote :: v -> ev u = false.
Proof.
  induction s as [|c s IH] using rev_ind; intros u v E.
  - destruct u; discriminate.
  - rewrite enc_snoc in E. apply app_eq_app in E. destruct E as [l [[E1 E2]|[E1 E2]]].
    + destruct l as [|x l].
      * rewrite app_nil_r in E1. cbn [app] in E2.
        destruct (Z.eq_dec c esc); [inversion E2; congruence|].
        destruct (Z.eq_dec c quote); inversion E2; congruence.
      * cbn [app] in E2. inversion E2; subst x. apply (IH u l). exact E1.
    + destruct (Z.eq_dec c esc) as [->|Hne].
      * destruct l as [|x [|y [|z l]]]; cbn [app] in E2; inversion E2; congruence.
      * destruct (Z.eq_dec c quote) as [->|Hnq].
        -- destruct l as [|x [|y l]]; cbn [app] in E2; inversion E2; try congruence.
           ++ subst. rewrite ev_snoc_esc, enc_ev. reflexivity.
           ++ destruct l; discriminate.
        -- destruct l as [|x l]; cbn [app] in E2; inversion E2; try congruence. destruct l; discriminate.
Qed.

(* "well escaped": what merge_escape_parts relies on *)
Definition wellesc (w : list Z) : Prop :=
  ev w = true /\ forall u v, w = u ++ quote :: v -> ev u = false.

Lemma wellesc_enc s : wellesc (enc s).
Proof. split. apply enc_ev. apply enc_quote_odd. Qed.

Lemma wellesc_tail x c y : c <> esc -> wellesc (x ++ c :: y) -> wellesc y.
Proof.
  intros H [H1 H2]. split.
  - now rewrite ev_after in H1.
  - intros u v E. subst y. specialize (H2 (x ++ c :: u) v).
    rewrite <- app_assoc in H2. cbn [app] in H2. specialize (H2 eq_refl). now rewrite ev_after in H2.
Qed.

Lemma closing_snoc_quote b : closing esc (b ++ [quote]) = ev b.
Proof. unfold closing, ev. rewrite rev_app_distr. cbn [rev app]. now rewrite Z.eqb_refl. Qed.
Lemma closing_snoc_other b c : c <> quote -> closing esc (b ++ [c]) = false.
Proof. intro H. unfold closing. rewrite rev_app_distr. cbn [rev app]. apply Z.eqb_neq in H. now rewrite H. Qed.
Lemma closing_nil : closing esc [] = false.
Proof. reflexivity. Qed.
End StringLayer.

(* =============================================================================================
   2. split / join for a one-character separator
   ============================================================================================= *)
Section SplitJoin.
Variable p : Z.

Fixpoint split1 (s : list Z) : list (list Z) :=
  match s with
  | [] => [[]]
  | c :: t => if Z.eqb p c then [] :: split1 t else cons_head c (split1 t)
  end.

Lemma str_split_single s : str_split [p] s = split1 s.
Proof.
  unfold str_split. induction s as [|c t IH]; cbn [split_from split1]; auto.
  cbn [is_prefix]. rewrite andb_true_r. simpl length. simpl Nat.sub.
  destruct (Z.eqb p c); now rewrite IH.
Qed.

Lemma split1_nonempty s : split1 s <> [].
Proof.
  induction s as [|c t IH]; cbn [split1]. discriminate.
  destruct (Z.eqb p c). discriminate. destruct (split1 t); cbn; discriminate.
Qed.

Lemma cons_head_app c a b : a <> [] -> cons_head c (a ++ b) = cons_head c a ++ b.
Proof. destruct a; [contradiction|reflexivity]. Qed.

Lemma split1_app a b : split1 (a ++ p :: b) = split1 a ++ split1 b.
Proof.
  induction a as [|c a IH]; cbn [app split1].
  - now rewrite Z.eqb_refl.
  - rewrite IH. destruct (Z.eqb p c); auto. apply cons_head_app, split1_nonempty.
Qed.

Lemma split1_nosep t : ~ In p t -> split1 t = [t].
Proof.
  induction t as [|c t IH]; intro H; cbn [split1]; auto.
  destruct (Z.eqb_spec p c) as [->|Hne]. exfalso; apply H; now left.
  rewrite IH. reflexivity. intro; apply H; now right.
Qed.

Lemma join_cons2 sep x y r : join sep (x :: y :: r) = x ++ sep ++ join sep (y :: r).
Proof. reflexivity. Qed.

Lemma split1_join fs : fs <> [] -> split1 (join [p] fs) = flat_map split1 fs.
Proof.
  induction fs as [|f r IH]; intro H. contradiction.
  destruct r as [|g r]. cbn. now rewrite app_nil_r.
  rewrite join_cons2. cbn [app flat_map]. rewrite split1_app, IH by discriminate. reflexivity.
Qed.

Lemma flat_map_split1_nosep bs : Forall (fun b => ~ In p b) bs -> flat_map split1 bs = bs.
Proof. induction 1 as [|b bs Hb _ IH]; cbn [flat_map]; auto. now rewrite split1_nosep, IH. Qed.

Lemma split_join_pieces bs : bs <> [] -> Forall (fun b => ~ In p b) bs -> split1 (join [p] bs) = bs.
Proof. intros H1 H2. rewrite split1_join by auto. now apply flat_map_split1_nosep. Qed.

Lemma join_split1 s : join [p] (split1 s) = s.
Proof.
  induction s as [|c t IH]; cbn [split1]; auto.
  pose proof (split1_nonempty t) as Hn. destruct (Z.eqb_spec p c) as [->|Hne].
  - destruct (split1 t) as [|h r] eqn:E; [contradiction|]. rewrite join_cons2. cbn [app]. now rewrite IH.
  - destruct (split1 t) as [|h r] eqn:E; [contradiction|]. cbn [cons_head].
    destruct r as [|h2 r]. cbn in *. now rewrite IH.
    rewrite <- IH. reflexivity.
Qed.

Lemma split1_pieces_nosep s : Forall (fun b => ~ In p b) (split1 s).
Proof.
  induction s as [|c t IH]; cbn [split1]. constructor; auto.
  destruct (Z.eqb_spec p c) as [->|Hne]. constructor; auto.
  destruct (split1 t) as [|h r]; cbn [cons_head].
  - constructor; auto. intros [E|[]]. congruence.
  - inversion IH; subst. constructor; auto. intros [E|E]; [congruence|contradiction].
Qed.

(* the number of pieces equals the number of fields only if no field was cut *)
Lemma flat_map_split1_length_ge fs : length fs <= length (flat_map split1 fs).
Proof.
  induction fs as [|f fs IH]; cbn [flat_map length]; auto. rewrite app_length.
  pose proof (split1_nonempty f). destruct (split1 f); [contradiction|]. cbn [length]. lia.
Qed.
Lemma flat_map_split1_same_length fs : length (flat_map split1 fs) = length fs -> flat_map split1 fs = fs.
Proof.
  induction fs as [|f fs IH]; cbn [flat_map length]; auto. rewrite app_length. intro H.
  pose proof (flat_map_split1_length_ge fs) as Hge. pose proof (join_split1 f) as Hj.
  pose proof (split1_nonempty f) as Hn.
  destruct (split1 f) as [|x [|y r]]; cbn [length] in H; [contradiction| |lia].
  cbn in Hj. subst x. cbn [app]. f_equal. apply IH. lia.
Qed.

(* appending to the last piece *)
Fixpoint app_last (l : list (list Z)) (y : list Z) : list (list Z) :=
  match l with
  | [] => [y]
  | x :: r => match r with [] => [x ++ y] | _ :: _ => x :: app_last r y end
  end.
Lemma app_last_cons2 x z r y : app_last (x :: z :: r) y = x :: app_last (z :: r) y.
Proof. reflexivity. Qed.
Lemma app_last_nonempty l y : app_last l y <> [].
Proof. destruct l as [|x [|z r]]; discriminate. Qed.
Lemma join_app_last r y : r <> [] -> join [p] (app_last r y) = join [p] r ++ y.
Proof.
  induction r as [|x r IH]; intro H. contradiction.
  destruct r as [|z r]. reflexivity.
  rewrite app_last_cons2. pose proof (app_last_nonempty (z :: r) y) as Hn.
  destruct (app_last (z :: r) y) as [|a l] eqn:E; [contradiction|].
  rewrite !join_cons2. rewrite IH by discriminate. now rewrite <- !app_assoc.
Qed.
Lemma app_last_nosep r y : ~ In p y -> Forall (fun b => ~ In p b) r -> Forall (fun b => ~ In p b) (app_last r y).
Proof.
  intros Hy H. induction H as [|x r Hx Hr IH]. constructor; auto.
  destruct r as [|z r].
  - constructor; auto. intro Hin. apply in_app_or in Hin. tauto.
  - rewrite app_last_cons2. constructor; auto.
Qed.
End SplitJoin.

(* =============================================================================================
   3. merge_escape_parts puts back together exactly the pieces of each rendered field
   ============================================================================================= *)
Lemma snoc_case (l : list Z) : l = [] \/ exists l' a, l = l' ++ [a].
Proof. induction l as [|a l' _] using rev_ind; [now left|right; eauto]. Qed.

Section Merge.
Variables p esc : Z.
Hypothesis p_ne_q : p <> quote.
Hypothesis p_ne_esc : p <> esc.
Hypothesis esc_ne_q : esc <> quote.

Notation mrg := (merge [p] esc).
Notation ev := (ev esc).
Notation wellesc := (wellesc esc).
Notation nosep := (fun b : list Z => ~ In p b).

Lemma is_quote_true t : is_quote t = true -> t = [quote].
Proof. destruct t as [|c [|d t]]; cbn; try discriminate. intro H. apply Z.eqb_eq in H. now subst. Qed.
Lemma is_quote_cons_snoc c w d : is_quote (c :: w ++ [d]) = false.
Proof. destruct w; reflexivity. Qed.
Lemma len_gt1 (c : Z) w (d : Z) : (1 <? length (c :: w ++ [d])) = true.
Proof. destruct w; reflexivity. Qed.
Lemma ev_cons_q b : ev (quote :: b) = ev b.
Proof. apply (ev_after esc [] quote b). congruence. Qed.

(* a piece that is followed by a separator inside a well-escaped string *)
Lemma mid_not_quote b rest : wellesc (b ++ p :: rest) -> is_quote b = false.
Proof.
  intros [_ H]. destruct (is_quote b) eqn:E; auto. apply is_quote_true in E. subst b.
  specialize (H [] (p :: rest) eq_refl). rewrite ev_nil in H. discriminate.
Qed.
Lemma mid_not_closing b rest : wellesc (b ++ p :: rest) -> closing esc b = false.
Proof.
  intros [_ H]. destruct (snoc_case b) as [->|[b' [c ->]]]. reflexivity.
  destruct (Z.eq_dec c quote) as [->|Hc].
  - rewrite closing_snoc_quote. apply (H b' (p :: rest)). now rewrite <- app_assoc.
  - now apply closing_snoc_other.
Qed.

Lemma merge_mid A b ps rest : wellesc (b ++ p :: rest) -> mrg (Some A) (b :: ps) = mrg (Some (A ++ [b])) ps.
Proof. intro H. cbn [merge]. now rewrite (mid_not_quote _ _ H), (mid_not_closing _ _ H). Qed.

Lemma merge_first b ps rest : wellesc (b ++ p :: rest) ->
  mrg None ((quote :: b) :: ps) = mrg (Some [quote :: b]) ps.
Proof.
  intro H. destruct (snoc_case b) as [->|[b' [d ->]]].
  - cbn [merge is_quote]. now rewrite Z.eqb_refl.
  - cbn [merge]. rewrite is_quote_cons_snoc, len_gt1.
    assert (Hc : closing esc (quote :: b' ++ [d]) = false).
    { change (quote :: b' ++ [d]) with ((quote :: b') ++ [d]).
      destruct (Z.eq_dec d quote) as [->|Hd].
      - rewrite closing_snoc_quote, ev_cons_q. destruct H as [_ H]. apply (H b' (p :: rest)).
        now rewrite <- app_assoc.
      - now apply closing_snoc_other. }
    rewrite Hc, andb_false_r. cbn [first_is_quote length Nat.ltb Nat.leb andb]. now rewrite Z.eqb_refl.
Qed.

Lemma merge_tail : forall r A ps, r <> [] -> wellesc (join [p] r) ->
  mrg (Some A) (app_last r [quote] ++ ps) = join [p] (A ++ app_last r [quote]) :: mrg None ps.
Proof.
  induction r as [|b r IH]; intros A ps Hne Hw. contradiction.
  destruct r as [|c r].
  - cbn [app_last app join] in *. destruct Hw as [Hev _]. cbn [merge].
    destruct (is_quote (b ++ [quote])); auto. now rewrite closing_snoc_quote, Hev.
  - rewrite app_last_cons2. rewrite join_cons2 in Hw. cbn [app] in Hw |- *.
    rewrite (merge_mid A b _ (join [p] (c :: r))) by exact Hw.
    rewrite IH. now rewrite <- app_assoc. discriminate.
    eapply wellesc_tail; eauto.
Qed.

(* the pieces of a quoted field *)
Definition wrapq (bs : list (list Z)) : list (list Z) :=
  match bs with
  | [] => []
  | b :: r => match r with [] => [quote :: b ++ [quote]] | _ :: _ => (quote :: b) :: app_last r [quote] end
  end.
Lemma join_wrapq bs : bs <> [] -> join [p] (wrapq bs) = quote :: join [p] bs ++ [quote].
Proof.
  destruct bs as [|b [|c r]]; intro H. contradiction. reflexivity.
  cbn [wrapq]. pose proof (app_last_nonempty (c :: r) [quote]) as Hn.
  destruct (app_last (c :: r) [quote]) as [|a l] eqn:E; [contradiction|].
  rewrite join_cons2, <- E, join_app_last by discriminate. rewrite join_cons2.
  cbn [app]. now rewrite <- !app_assoc.
Qed.
Lemma wrapq_nosep bs : Forall nosep bs -> Forall nosep (wrapq bs).
Proof.
  assert (Hq : ~ In p [quote]) by (intros [E|[]]; congruence).
  destruct bs as [|b [|c r]]; intro H; cbn [wrapq]. constructor.
  - inversion H; subst. constructor; auto. intros [E|E]. congruence. apply in_app_or in E. tauto.
  - inversion H; subst. constructor. intros [E|E]; [congruence|contradiction].
    now apply app_last_nosep.
Qed.
Lemma wrapq_nonempty bs : bs <> [] -> wrapq bs <> [].
Proof. destruct bs as [|b [|c r]]; intro H; [contradiction| |]; discriminate. Qed.

Lemma split1_quoted w : split1 p (quote :: w ++ [quote]) = wrapq (split1 p w).
Proof.
  rewrite <- (join_split1 p w) at 1. rewrite <- join_wrapq by apply split1_nonempty.
  apply split_join_pieces. apply wrapq_nonempty, split1_nonempty. apply wrapq_nosep, split1_pieces_nosep.
Qed.

Lemma merge_quoted w ps : wellesc w ->
  mrg None (split1 p (quote :: w ++ [quote]) ++ ps) = (quote :: w ++ [quote]) :: mrg None ps.
Proof.
  intro Hw. rewrite split1_quoted. pose proof (join_split1 p w) as Hj.
  pose proof (split1_nonempty p w) as Hn. destruct (split1 p w) as [|b [|c r]] eqn:E; [contradiction| |].
  - cbn in Hj. subst b. cbn [wrapq app merge]. rewrite is_quote_cons_snoc, len_gt1.
    change (quote :: w ++ [quote]) with ((quote :: w) ++ [quote]) at 2.
    rewrite closing_snoc_quote, ev_cons_q. destruct Hw as [Hev _]. rewrite Hev.
    cbn [first_is_quote andb]. now rewrite Z.eqb_refl.
  - cbn [wrapq]. rewrite join_cons2 in Hj. cbn [app] in Hj. rewrite <- Hj in Hw.
    cbn [app]. rewrite (merge_first b _ (join [p] (c :: r))) by exact Hw.
    rewrite merge_tail; [|discriminate|eapply wellesc_tail; eauto].
    f_equal. change ([quote :: b] ++ app_last (c :: r) [quote]) with (wrapq (b :: c :: r)).
    rewrite join_wrapq by discriminate. rewrite join_cons2. cbn [app]. now rewrite Hj.
Qed.

(* an unquoted field: a text without separator that does not start with a quote (possibly empty) *)
Lemma merge_plain t ps : ~ In p t -> first_is_quote t = false ->
  mrg None (split1 p t ++ ps) = t :: mrg None ps.
Proof.
  intros H1 H2. rewrite split1_nosep by auto. cbn [app merge].
  assert (Hq : is_quote t = false).
  { destruct (is_quote t) eqn:E; auto. apply is_quote_true in E. subst t. unfold first_is_quote in H2. rewrite Z.eqb_refl in H2. discriminate. }
  now rewrite Hq, H2, !andb_false_r.
Qed.

(* what dump writes for one field *)
Definition rendered (f : list Z) : Prop :=
  (exists s, f = quote :: enc esc s ++ [quote]) \/ (~ In p f /\ first_is_quote f = false).

Lemma merge_rendered f ps : rendered f -> mrg None (split1 p f ++ ps) = f :: mrg None ps.
Proof.
  intros [[s ->]|[H1 H2]]. apply merge_quoted, wellesc_enc; auto. now apply merge_plain.
Qed.

Lemma merge_all fs : Forall rendered fs -> mrg None (flat_map (split1 p) fs) = fs.
Proof.
  induction 1 as [|f fs Hf _ IH]; cbn [flat_map]. reflexivity.
  now rewrite merge_rendered, IH.
Qed.

(* the part of parse_line before the typed parsing: split, count, merge if needed *)
Theorem merge_split_join fs : fs <> [] -> Forall rendered fs ->
  merge_escape_parts [p] esc (str_split [p] (join [p] fs)) = fs.
Proof.
  intros Hne H. unfold merge_escape_parts. rewrite str_split_single, split1_join by auto. now apply merge_all.
Qed.
Theorem split_join_same_count fs : fs <> [] ->
  length (str_split [p] (join [p] fs)) = length fs -> str_split [p] (join [p] fs) = fs.
Proof.
  intros Hne. rewrite str_split_single, split1_join by auto. apply flat_map_split1_same_length.
Qed.
End Merge.

(* =============================================================================================
   4. parse_line inverts dump_line; load inverts dump through any chunking of the file
   ============================================================================================= *)
Lemma forall2_len {A B} (R : A -> B -> Prop) l1 l2 : Forall2 R l1 l2 -> length l1 = length l2.
Proof. induction 1; cbn [length]; auto. Qed.

Section RoundTrip.
Variable F : Type.
Variable str_int : Z -> list Z.
Variable int_of : list Z -> option Z.
Variable str_float : F -> list Z.
Variable float_of : list Z -> option F.
Variables p esc : Z.
Hypothesis p_ne_q : p <> quote.
Hypothesis p_ne_esc : p <> esc.
Hypothesis esc_ne_q : esc <> quote.
(* assumptions about CPython's str / int / float (validated on every generated number by the
   correspondence check, not proved) *)
Hypothesis int_roundtrip : forall n, int_of (str_int n) = Some n.
Hypothesis float_roundtrip : forall x, float_of (str_float x) = Some x.
Hypothesis int_printed : forall n, printed_ok p (str_int n).
Hypothesis float_printed : forall x, printed_ok p (str_float x).
Hypothesis bool_printed : forall b, ~ In p (str_bool b).

Notation render := (render F str_int str_float esc).
Notation parse_field := (parse_field F int_of float_of).
Notation parse_fields := (parse_fields F int_of float_of esc).
Notation parse_line := (parse_line F int_of float_of [p] esc).
Notation dump_line := (dump_line F str_int str_float [p] esc).

Lemma unquote_plain t : first_is_quote t = false -> unquote esc t = t.
Proof. intro H. unfold unquote. now rewrite H. Qed.

Lemma unquote_quoted s : unquote esc (quote :: escape esc s ++ [quote]) = s.
Proof.
  unfold unquote, first_is_quote, last_is_quote. rewrite Z.eqb_refl.
  cbn [rev]. rewrite rev_app_distr. cbn [rev app]. rewrite Z.eqb_refl. cbn [andb tl].
  rewrite removelast_last. now apply unescape_escape.
Qed.

Lemma str_bool_first b : first_is_quote (str_bool b) = false.
Proof. destruct b; reflexivity. Qed.

(* one field: typed parsing of the un-quoted, un-escaped text gives back the value *)
Theorem field_roundtrip t v : field_ok t v -> parse_field t (unquote esc (render v)) = Some v.
Proof.
  destruct 1; cbn [Csv.render].
  - destruct (int_printed n) as [H1 [_ H3]]. rewrite unquote_plain by auto. cbn [Csv.parse_field].
    destruct (str_int n) eqn:E; [contradiction|]. cbn [is_empty]. rewrite <- E, int_roundtrip. reflexivity.
  - destruct (float_printed x) as [H1 [_ H3]]. rewrite unquote_plain by auto. cbn [Csv.parse_field].
    destruct (str_float x) eqn:E; [contradiction|]. cbn [is_empty]. rewrite <- E, float_roundtrip. reflexivity.
  - rewrite unquote_plain by apply str_bool_first. cbn [Csv.parse_field].
    destruct b; destruct (list_eq_dec Z.eq_dec _ _) as [E|E]; try reflexivity; try discriminate E.
    exfalso. now apply E.
  - cbn [app]. rewrite unquote_quoted. reflexivity.
  - reflexivity.
  - reflexivity.
Qed.

Lemma render_rendered t v : field_ok t v -> rendered p esc (render v).
Proof.
  destruct 1; cbn [Csv.render].
  - right. destruct (int_printed n) as [_ [H2 H3]]. auto.
  - right. destruct (float_printed x) as [_ [H2 H3]]. auto.
  - right. split. apply bool_printed. apply str_bool_first.
  - left. exists s. cbn [app]. now rewrite escape_enc.
  - right. split; auto.
  - right. split; auto.
Qed.

Lemma parse_fields_ok types row : Forall2 field_ok types row -> parse_fields types (map render row) = Some row.
Proof.
  induction 1 as [|t v types row Hv _ IH]; cbn [map Csv.parse_fields]. reflexivity.
  now rewrite (field_roundtrip t v Hv), IH.
Qed.

Theorem line_roundtrip types row : Forall2 field_ok types row -> row <> [] ->
  parse_line types (dump_line row) = Some row.
Proof.
  intros H Hne. unfold Csv.parse_line, Csv.dump_line. cbv zeta. set (fs := map render row).
  assert (Hlen : length fs = length types).
  { unfold fs. rewrite map_length. symmetry. eapply forall2_len; eauto. }
  assert (Hr : Forall (rendered p esc) fs).
  { unfold fs. clear Hlen Hne. induction H; cbn [map]; constructor; eauto using render_rendered. }
  assert (Hfs : fs <> []).
  { unfold fs. destruct row; [contradiction|discriminate]. }
  destruct (length (str_split [p] (join [p] fs)) =? length types) eqn:E.
  - apply Nat.eqb_eq in E. rewrite split_join_same_count by (auto; congruence). now apply parse_fields_ok.
  - rewrite (merge_split_join p esc) by auto. rewrite Hlen, Nat.eqb_refl. now apply parse_fields_ok.
Qed.

(* ---- through the file: dump_to_file writes the lines, load_from_file reads them in chunks ---- *)
Hypothesis p_ne_nl : p <> newline.
Hypothesis esc_ne_nl : esc <> newline.
Hypothesis int_no_nl : forall n, text_no_nl (str_int n).
Hypothesis float_no_nl : forall x, text_no_nl (str_float x).

Lemma no_nl_of t : text_no_nl t -> Line.no_nl Z z_is_nl t.
Proof.
  unfold text_no_nl, Line.no_nl. induction t as [|c t IH]; intro H; cbn [forallb]; auto.
  rewrite IH by (intro; apply H; now right). unfold z_is_nl.
  destruct (Z.eqb_spec c 10) as [->|Hc]; [exfalso; apply H; now left|reflexivity].
Qed.

Lemma in_join c sep l : In c (join sep l) -> In c sep \/ exists x, In x l /\ In c x.
Proof.
  induction l as [|x r IH]; cbn [join]. contradiction.
  destruct r as [|y r].
  - intro H. right. exists x. split; auto. now left.
  - intro H. apply in_app_or in H. destruct H as [H|H]. right; exists x; split; auto; now left.
    apply in_app_or in H. destruct H as [H|H]; auto.
    destruct (IH H) as [H'|[z [H1 H2]]]; auto. right. exists z. split; auto. now right.
Qed.

Lemma in_enc c s : In c (enc esc s) -> c = esc \/ c = quote \/ In c s.
Proof.
  unfold enc. induction s as [|x s IH]; cbn [flat_map]. contradiction.
  intro H. apply in_app_or in H. destruct H as [H|H].
  - destruct (Z.eq_dec x esc) as [->|Hx].
    + cbn in H. destruct H as [H|[H|[]]]; left; congruence.
    + destruct (Z.eq_dec x quote) as [->|Hq]; cbn in H.
      * destruct H as [H|[H|[]]]; [left|right; left]; congruence.
      * destruct H as [H|[]]. right; right; left; exact H.
  - destruct (IH H) as [?|[?|?]]; auto. right; right; now right.
Qed.

Lemma render_no_nl t v : field_ok t v -> value_no_nl v -> text_no_nl (render v).
Proof.
  destruct 1; cbn [Csv.render value_no_nl]; intro Hs; auto.
  - destruct b; unfold text_no_nl, newline; cbn; intuition discriminate.
  - unfold text_no_nl in *. cbn [app]. rewrite escape_enc by auto. intros [E|E]. discriminate E.
    apply in_app_or in E. destruct E as [E|[E|[]]]; [|discriminate E].
    apply in_enc in E. destruct E as [E|[E|E]]; auto. discriminate E.
  - intros [].
  - intros [].
Qed.

Lemma dump_line_no_nl types row : Forall2 field_ok types row -> Forall value_no_nl row ->
  text_no_nl (dump_line row).
Proof.
  intros H Hn E. unfold Csv.dump_line in E. apply in_join in E. destruct E as [[E|[]]|[x [H1 H2]]].
  - now apply p_ne_nl.
  - apply in_map_iff in H1. destruct H1 as [v [<- Hv]].
    assert (exists t, field_ok t v) as [t Ht].
    { clear Hn H2. induction H. contradiction. destruct Hv as [<-|Hv]; eauto. }
    apply (render_no_nl t v Ht); auto. rewrite Forall_forall in Hn. auto.
Qed.

Definition row_ok (types : list ty) (row : list (value F)) : Prop :=
  Forall2 field_ok types row /\ row <> [] /\ Forall value_no_nl row.

Lemma load_rows_ok types rows : Forall (row_ok types) rows ->
  load_rows F int_of float_of [p] esc types (map dump_line rows) = (rows, true).
Proof.
  induction 1 as [|r rows [H1 [H2 _]] _ IH]; cbn [map load_rows]. reflexivity.
  now rewrite line_roundtrip, IH.
Qed.

Theorem file_roundtrip types names rows chunks :
  Forall text_no_nl names -> Forall (row_ok types) rows ->
  concat chunks = concat (dump_lines F str_int str_float [p] esc [newline] names rows) ->
  load_chunks F int_of float_of [p] esc types chunks = (rows, true).
Proof.
  intros Hnames Hrows E. unfold load_chunks, load. destruct rows as [|r rows].
  - cbn [dump_lines concat] in E. rewrite run_concat, E. reflexivity.
  - set (items := join [p] names :: map dump_line (r :: rows)).
    assert (Hf : concat chunks = Line.frame Z newline items ++ []).
    { rewrite E, app_nil_r. unfold dump_lines, Line.frame, items. cbn [map concat]. f_equal.
      rewrite map_map. reflexivity. }
    assert (Hi : Forall (Line.no_nl Z z_is_nl) items).
    { unfold items. constructor.
      - apply no_nl_of. intro Hin. apply in_join in Hin. destruct Hin as [[Hin|[]]|[x [H1 H2]]].
        now apply p_ne_nl. rewrite Forall_forall in Hnames. exact (Hnames x H1 H2).
      - apply Forall_forall. intros l Hl. apply in_map_iff in Hl. destruct Hl as [row [<- Hrow]].
        rewrite Forall_forall in Hrows. destruct (Hrows row Hrow) as [H1 [_ H3]].
        apply no_nl_of. eapply dump_line_no_nl; eauto. }
    rewrite (unframe_frame Z z_is_nl newline eq_refl items chunks [] Hi eq_refl Hf).
    unfold items. cbn [Line.finish length Nat.eqb]. rewrite app_nil_r. cbn [tl].
    now apply load_rows_ok.
Qed.
End RoundTrip.

(* =============================================================================================
   5. The statements of props/C18.v, on the model functions only
   ============================================================================================= *)
Lemma closing_quote_parity (esc : Z) (s : list Z) : esc <> quote ->
  closing esc (escape esc s ++ [quote]) = true /\
  forall u v, escape esc s = u ++ quote :: v -> closing esc (u ++ [quote]) = false.
Proof.
  intro H. rewrite escape_enc by auto. split.
  - rewrite closing_snoc_quote. now apply enc_ev.
  - intros u v E. rewrite closing_snoc_quote. eapply enc_quote_odd; eauto.
Qed.

Lemma merge_split_dump (F : Type) (str_int : Z -> list Z) (str_float : F -> list Z) (p esc : Z) :
  p <> quote -> p <> esc -> esc <> quote ->
  (forall n, printed_ok p (str_int n)) -> (forall x, printed_ok p (str_float x)) ->
  (forall b, ~ In p (str_bool b)) ->
  forall types row, Forall2 field_ok types row -> row <> [] ->
  merge_escape_parts [p] esc (str_split [p] (dump_line F str_int str_float [p] esc row))
  = map (render F str_int str_float esc) row.
Proof.
  intros H1 H2 H3 Hi Hf Hb types row H Hne. unfold dump_line. apply merge_split_join; auto.
  - destruct row; [contradiction|discriminate].
  - clear Hne. induction H; cbn [map]; constructor; auto.
    eapply (render_rendered F str_int str_float p esc); eauto.
Qed.

(* file.read(size) chunks re-assemble to the content, hence load_file on what dump_to_file wrote *)
Lemma concat_chunk_go : forall s size n cur, concat (chunk_go size n cur s) = rev cur ++ s.
Proof.
  induction s as [|c t IH]; intros size n cur; cbn [chunk_go].
  - destruct cur; cbn [concat]; rewrite ?rev_append_rev; now rewrite ?app_nil_r.
  - destruct (N.eqb (n + 1) size); [cbn [concat]; rewrite rev_append_rev, app_nil_r|]; rewrite IH; cbn [rev app];
      now rewrite <- app_assoc.
Qed.
Lemma concat_chunks_of size s : concat (chunks_of size s) = s.
Proof. unfold chunks_of. now rewrite concat_chunk_go. Qed.

Lemma file_roundtrip_64k (F : Type) (str_int : Z -> list Z) (int_of : list Z -> option Z)
    (str_float : F -> list Z) (float_of : list Z -> option F) (p esc : Z) :
  p <> quote -> p <> esc -> esc <> quote ->
  (forall n, int_of (str_int n) = Some n) -> (forall x, float_of (str_float x) = Some x) ->
  (forall n, printed_ok p (str_int n)) -> (forall x, printed_ok p (str_float x)) ->
  (forall b, ~ In p (str_bool b)) ->
  p <> newline -> esc <> newline ->
  (forall n, text_no_nl (str_int n)) -> (forall x, text_no_nl (str_float x)) ->
  forall types names rows,
  Forall text_no_nl names ->
  Forall (fun row => Forall2 field_ok types row /\ row <> [] /\ Forall value_no_nl row) rows ->
  load_file F int_of float_of [p] esc types
    (concat (dump_lines F str_int str_float [p] esc [newline] names rows)) = (rows, true).
Proof.
  intros. unfold load_file. eapply file_roundtrip; eauto. apply concat_chunks_of.
Qed.
