(* Correspondence checker for C20.  Executable only.
   CPq: parquet.dump_to_file was run on k rows (represented by their index 0..k-1) with dump batch size n
        and optional row_group_size; observed: the row counts of the row groups in the file (parquet
        metadata), the rows in the file (pyarrow read_table) and the rows delivered by load_from_file with
        load batch size m, both as runs (start, length) of consecutive indices.
   CBatch: rs.data.batch(n) alone, what it emits while each row is pushed and at completion.
   CCols: the column layer.  parquet.create_record(schema) was called on a list of row dicts (keys and values are
        small non-negative integers; keys in any order, extra keys, sometimes a schema name missing); observed: the
        columns of the record batch it returned (None when it raised KeyError) and, when it returned, the rows that
        load_from_file delivers from a parquet file holding exactly this record batch (keys in dict order).
   CSkip: a SCALE case (dump or load batches of tens of thousands of rows) that is too large to be evaluated
        here, the list model being quadratic in the batch size: it is judged by the model-free oracle of
        harness/props/C20.py alone; never used for an observation that raised. *)
From Coq Require Import List ZArith NArith Bool Arith.
From RxVerif Require Import Base.Corr Container.Parquet Container.ParquetCols.
Import ListNotations.

Inductive c20case :=
| CRaised
| CPq (k n m : N) (rg : option N) (rg_sizes : list N) (file_runs load_runs : list (N * N)) (completed : bool)
| CBatch (k n : N) (out : list (list (list N)))
| CCols (names : list N) (data : list (list (N * N))) (cols : option (list (list N))) (rows : list (list (N * N)))
| CSkip.

Definition expand (runs : list (N * N)) : list N :=
  concat (map (fun r => nseq (fst r) (N.to_nat (snd r))) runs).
Definition ns_eqb := list_eqb N.eqb.

Definition pair_eqb (a b : N * N) : bool := N.eqb (fst a) (fst b) && N.eqb (snd a) (snd b).

Definition c20_check (c : c20case) : bool :=
  match c with
  | CRaised => false
  | CPq k n m rg rgs fr lr completed =>
      let f := dump N (N.to_nat n) (idx_rows k) in
      completed
      && ns_eqb (map N.of_nat (row_groups N (option_map N.to_nat rg) f)) rgs
      && ns_eqb (file_rows N f) (expand fr)
      && ns_eqb (load N (N.to_nat m) f) (expand lr)
  | CBatch k n out =>
      list_eqb (list_eqb ns_eqb) (batch_timed N (N.to_nat n) (idx_rows k)) out
  | CCols names data cols rows =>
      let mc := create_cols N N N.eqb names data in
      option_eqb (list_eqb ns_eqb) mc cols
      && match mc with
         | Some c => list_eqb (list_eqb pair_eqb) (rows_of_cols N N names c) rows
         | None => true
         end
  | CSkip => true
  end.
