(* Proofs about Container/ParquetCols.v: the columns create_record builds are the transposition of the
   projected rows; zip( *columns) inverts it; a missing field makes the call fail; an empty schema loses rows. *)
From Coq Require Import List Arith Bool Lia NArith.
From RxVerif Require Import Container.Parquet Container.ParquetProofs Container.ParquetCols.
Import ListNotations.

Section Proofs.
Variables K V : Type.
Variable keq : K -> K -> bool.
Hypothesis keq_spec : forall a b, keq a b = true <-> a = b.

Notation lookup := (lookup K V keq).
Notation project := (project K V keq).
Notation append_fields := (append_fields K V keq).
Notation create_cols := (create_cols K V keq).
Notation create_step := (create_step K V keq).

(* functional reading: snoc a row of values onto the columns / cons it *)
Fixpoint snoc_col (cols : list (list V)) (rv : list V) : list (list V) :=
  match cols, rv with
  | c :: cs, v :: vs => (c ++ [v]) :: snoc_col cs vs
  | _, _ => []
  end.
Fixpoint cons_row (rv : list V) (cols : list (list V)) : list (list V) :=
  match rv, cols with
  | v :: vs, c :: cs => (v :: c) :: cons_row vs cs
  | _, _ => []
  end.
Definition empty_cols (w : nat) : list (list V) := repeat [] w.
Definition transpose (w : nat) (rvs : list (list V)) : list (list V) := fold_right cons_row (empty_cols w) rvs.

Lemma project_length : forall names r rv, project names r = Some rv -> length rv = length names.
Proof.
  induction names as [|n ns IH]; cbn; intros r rv H.
  - inversion H; reflexivity.
  - destruct (lookup r n); [|discriminate]. destruct (project ns r) eqn:E; [|discriminate].
    inversion H; subst; cbn. f_equal. eapply IH; eauto.
Qed.

Lemma append_fields_spec : forall names cols r, length cols = length names ->
  append_fields names cols r = option_map (snoc_col cols) (project names r).
Proof.
  induction names as [|n ns IH]; intros cols r HL; destruct cols as [|c cs]; cbn in *; try discriminate; try reflexivity.
  destruct (lookup r n); [|reflexivity]. rewrite IH by lia. destruct (project ns r); reflexivity.
Qed.

Lemma snoc_col_length : forall cols rv, length rv = length cols -> length (snoc_col cols rv) = length cols.
Proof. induction cols as [|c cs IH]; intros [|v vs] H; cbn in *; try discriminate; auto. Qed.

Lemma cons_row_length : forall rv cols, length rv = length cols -> length (cons_row rv cols) = length cols.
Proof. induction rv as [|v vs IH]; intros [|c cs] H; cbn in *; try discriminate; auto. Qed.

Lemma empty_cols_map : forall (names : list K), map (fun _ => @nil V) names = empty_cols (length names).
Proof. induction names; cbn; [reflexivity|]. unfold empty_cols in *. cbn. f_equal. assumption. Qed.

Lemma transpose_length : forall w rvs, Forall (fun rv => length rv = w) rvs -> length (transpose w rvs) = w.
Proof.
  intros w rvs H; induction H as [|rv rvs Hrv _ IH]; cbn.
  - unfold empty_cols. apply repeat_length.
  - fold (transpose w rvs). rewrite cons_row_length; lia.
Qed.

Lemma snoc_empty : forall w rv, length rv = w -> snoc_col (empty_cols w) rv = cons_row rv (empty_cols w).
Proof.
  induction w as [|w IH]; intros [|v vs] H; cbn in *; try discriminate; try reflexivity.
  f_equal. apply IH. lia.
Qed.

Lemma snoc_cons_comm : forall rv cols rv', snoc_col (cons_row rv cols) rv' = cons_row rv (snoc_col cols rv').
Proof.
  induction rv as [|v vs IH]; intros [|c cs] [|v' vs']; cbn; try reflexivity.
  f_equal. apply IH.
Qed.

Lemma snoc_transpose : forall w pre rv, length rv = w ->
  snoc_col (transpose w pre) rv = transpose w (pre ++ [rv]).
Proof.
  intros w pre rv H; induction pre as [|p pre IH]; cbn.
  - apply snoc_empty; assumption.
  - fold (transpose w pre). fold (transpose w (pre ++ [rv])). rewrite snoc_cons_comm, IH. reflexivity.
Qed.

(* mapM project *)
Fixpoint project_all (names : list K) (data : list (row K V)) : option (list (list V)) :=
  match data with
  | [] => Some []
  | r :: rest => match project names r with
                 | None => None
                 | Some rv => match project_all names rest with None => None | Some rvs => Some (rv :: rvs) end
                 end
  end.

Lemma project_all_lengths : forall names data rvs, project_all names data = Some rvs ->
  Forall (fun rv => length rv = length names) rvs /\ length rvs = length data.
Proof.
  induction data as [|r rest IH]; cbn; intros rvs H.
  - inversion H; split; [constructor | reflexivity].
  - destruct (project names r) eqn:E; [|discriminate]. destruct (project_all names rest) eqn:E2; [|discriminate].
    inversion H; subst. destruct (IH _ eq_refl) as [F L]. split; [constructor; [eapply project_length; eauto | exact F] | cbn; lia].
Qed.

Lemma fold_none : forall names data, fold_left (create_step names) data None = None.
Proof. induction data; cbn; auto. Qed.

Lemma create_from : forall names data pre, Forall (fun rv => length rv = length names) pre ->
  fold_left (create_step names) data (Some (transpose (length names) pre)) =
  option_map (fun rvs => transpose (length names) (pre ++ rvs)) (project_all names data).
Proof.
  induction data as [|r rest IH]; intros pre Hpre; cbn.
  - rewrite app_nil_r. reflexivity.
  - rewrite append_fields_spec by (apply transpose_length; assumption).
    destruct (project names r) as [rv|] eqn:E; cbn.
    + rewrite snoc_transpose by (eapply project_length; eauto).
      rewrite IH by (apply Forall_app; split; [assumption | constructor; [eapply project_length; eauto | constructor]]).
      destruct (project_all names rest); cbn; [rewrite <- app_assoc; reflexivity | reflexivity].
    + apply fold_none.
Qed.

(* create_record = transposition of the projected rows; raises iff some row lacks a schema name *)
Theorem create_cols_spec : forall names data,
  create_cols names data = option_map (transpose (length names)) (project_all names data).
Proof.
  intros names data. unfold create_cols, ParquetCols.create_cols. rewrite empty_cols_map.
  change (empty_cols (length names)) with (transpose (length names) []).
  rewrite create_from by constructor. reflexivity.
Qed.

Lemma heads_tails_cons_row : forall rv cols, length rv = length cols ->
  heads_tails V (cons_row rv cols) = Some (rv, cols).
Proof.
  induction rv as [|v vs IH]; intros [|c cs] H; cbn in *; try discriminate; try reflexivity.
  rewrite IH by lia. reflexivity.
Qed.

Lemma zipn_transpose : forall w rvs, 1 <= w -> Forall (fun rv => length rv = w) rvs ->
  zipn V (transpose w rvs) = rvs.
Proof.
  intros w rvs Hw H; induction H as [|rv rvs Hrv Hall IH]; cbn.
  - destruct w; [lia|]. reflexivity.
  - fold (transpose w rvs). pose proof (transpose_length w rvs Hall) as HL.
    destruct rv as [|v vs]; [cbn in Hrv; lia|].
    destruct (transpose w rvs) as [|c cs] eqn:ET; [cbn in HL; lia|].
    cbn [cons_row zipn length zipn_f].
    change ((v :: c) :: cons_row vs cs) with (cons_row (v :: vs) (c :: cs)).
    rewrite heads_tails_cons_row by (cbn in *; lia).
    f_equal. exact IH.
Qed.

(* the columns have one entry per row, and there is one column per schema name *)
Lemma transpose_rect : forall w rvs, Forall (fun rv => length rv = w) rvs ->
  Forall (fun c => length c = length rvs) (transpose w rvs).
Proof.
  intros w rvs H; induction H as [|rv rvs Hrv Hall IH]; cbn.
  - unfold empty_cols. clear. induction w; cbn; constructor; auto.
  - fold (transpose w rvs). revert IH. generalize (transpose w rvs) as cols. clear.
    induction rv as [|v vs IHv]; intros [|c cs] F; cbn; constructor.
    + inversion F; subst. cbn. lia.
    + inversion F; subst. apply IHv. assumption.
Qed.

Theorem cols_round_trip : forall names data rvs, names <> [] -> project_all names data = Some rvs ->
  exists cols, create_cols names data = Some cols /\
               length cols = length names /\
               Forall (fun c => length c = length data) cols /\
               rows_of_cols K V names cols = map (combine names) rvs.
Proof.
  intros names data rvs Hne HP. destruct (project_all_lengths _ _ _ HP) as [HF HL].
  exists (transpose (length names) rvs). repeat split.
  - rewrite create_cols_spec, HP. reflexivity.
  - apply transpose_length; assumption.
  - rewrite <- HL. apply transpose_rect; assumption.
  - unfold rows_of_cols. rewrite zipn_transpose; [reflexivity | | assumption].
    destruct names; [congruence | cbn; lia].
Qed.

Theorem create_cols_missing_field : forall names data, project_all names data = None -> create_cols names data = None.
Proof. intros names data H. rewrite create_cols_spec, H. reflexivity. Qed.

(* the rebuilt row has exactly the schema names as keys, in schema order, and under each name the value the
   source row has under that name *)
Lemma combine_keys : forall (names : list K) (rv : list V), length rv = length names -> map fst (combine names rv) = names.
Proof. induction names as [|n ns IH]; intros [|v vs] H; cbn in *; try discriminate; [reflexivity|]. f_equal. apply IH. lia. Qed.

Lemma keq_refl : forall a, keq a a = true.
Proof. intro a. apply keq_spec. reflexivity. Qed.

Theorem rebuilt_row_fields : forall names r rv, NoDup names -> project names r = Some rv ->
  map fst (combine names rv) = names /\ forall n, In n names -> lookup (combine names rv) n = lookup r n.
Proof.
  intros names r rv ND HP. split; [apply combine_keys; eapply project_length; eauto|].
  revert rv ND HP. induction names as [|a ns IH]; intros rv ND HP n Hin; [destruct Hin|].
  cbn in HP. destruct (lookup r a) as [va|] eqn:Ea; [|discriminate].
  destruct (project ns r) as [vs|] eqn:Ep; [|discriminate]. inversion HP; subst rv. cbn.
  inversion ND as [|? ? Hnotin ND']; subst.
  destruct (keq a n) eqn:Ek.
  - apply keq_spec in Ek. subst. symmetry; assumption.
  - destruct Hin as [->|Hin]; [rewrite keq_refl in Ek; discriminate|]. apply IH; auto.
Qed.

(* extra keys of a source row, and the order of its keys, do not matter: only lookups are used *)
Theorem project_ext : forall names r r', (forall n, In n names -> lookup r n = lookup r' n) -> project names r = project names r'.
Proof.
  induction names as [|a ns IH]; intros r r' H; cbn; [reflexivity|].
  rewrite (H a) by (left; reflexivity). rewrite (IH r r') by (intros; apply H; right; assumption). reflexivity.
Qed.

(* ---- whole path: dump batches the rows, every batch becomes one record batch of columns; load rebuilds ---- *)
Definition row_ok (names : list K) (r : row K V) : Prop := project names r <> None.
Definition proj (names : list K) (r : row K V) : list V := match project names r with Some rv => rv | None => [] end.
(* the row load_from_file delivers for source row r: the schema names in schema order with r's values *)
Definition rebuild (names : list K) (r : row K V) : row K V := combine names (proj names r).

Lemma project_all_total : forall names data, Forall (row_ok names) data ->
  project_all names data = Some (map (proj names) data).
Proof.
  intros names data H; induction H as [|r rest Hr _ IH]; cbn; [reflexivity|].
  unfold row_ok in Hr. unfold proj at 1. destruct (project names r); [|congruence]. rewrite IH. reflexivity.
Qed.

Lemma record_batches_rebuild : forall names (bs : list (list (row K V))), names <> [] ->
  Forall (row_ok names) (concat bs) ->
  exists rbs, Forall2 (fun b rb => create_cols names b = Some rb) bs rbs /\
              concat (map (rows_of_cols K V names) rbs) = map (rebuild names) (concat bs).
Proof.
  intros names bs Hne; induction bs as [|b bs IH]; cbn; intro H.
  - exists []. split; [constructor | reflexivity].
  - apply Forall_app in H. destruct H as [Hb Hbs]. destruct (IH Hbs) as [rbs [F2 E]].
    destruct (cols_round_trip names b _ Hne (project_all_total names b Hb)) as [cols [HC [_ [_ HR]]]].
    exists (cols :: rbs). split; [constructor; assumption|].
    cbn. rewrite HR, E, map_app, map_map. reflexivity.
Qed.

Theorem cols_end_to_end : forall names n data, names <> [] -> Forall (row_ok names) data ->
  exists rbs, Forall2 (fun b rb => create_cols names b = Some rb) (batches (row K V) n data) rbs /\
              concat (map (rows_of_cols K V names) rbs) = map (rebuild names) data.
Proof.
  intros names n data Hne H.
  pose proof (batches_concat (row K V) n data) as HC.
  rewrite <- HC in H. destruct (record_batches_rebuild names _ Hne H) as [rbs [F E]].
  exists rbs. split; [assumption|]. rewrite E, HC. reflexivity.
Qed.

(* a source row whose keys are exactly the schema names in schema order is delivered unchanged *)
Theorem rebuild_id : forall names (r : row K V), NoDup names -> map fst r = names -> rebuild names r = r /\ row_ok names r.
Proof.
  intros names r ND HK.
  assert (HP : project names r = Some (map snd r)).
  { subst names. induction r as [|[k v] t IH].
    - reflexivity.
    - cbn in *. inversion ND as [|? ? Hnotin ND']; subst. rewrite keq_refl.
      assert (E : project (map fst t) ((k, v) :: t) = project (map fst t) t).
      { apply project_ext. intros n Hin. cbn. destruct (keq k n) eqn:Ek; [|reflexivity].
        apply keq_spec in Ek. subst. contradiction. }
      rewrite E, (IH ND'). reflexivity. }
  split.
  - unfold rebuild, proj. rewrite HP. subst names. clear. induction r as [|[k v] t IH]; cbn; [reflexivity|]. f_equal. exact IH.
  - unfold row_ok. rewrite HP. discriminate.
Qed.
End Proofs.

(* a schema without columns loses every row at the column layer (zip() of nothing) *)
Lemma empty_schema_loses_rows : exists data : list (row N N),
  data <> [] /\ option_map (rows_of_cols N N []) (create_cols N N N.eqb [] data) = Some [].
Proof. exists [[]]. split; [discriminate | reflexivity]. Qed.
