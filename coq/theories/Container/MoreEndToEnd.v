(* Further instances of the end-to-end theorems of C19EndToEnd.v and C18EndToEnd.v: compression='zstd' through the
   zstd frame model of Compress/ZstdFrameCodec.v (C16).
   zs_compress is the RAW-BLOCK encoder of the model (one valid zstd frame made of Raw blocks), NOT the compressor of
   the zstandard library; zs_decompress scans frames of Raw blocks: frames with Compressed blocks are OUTSIDE the
   model (refused).  The decoder is used as the repaired rxsci/data/zstd.py uses it: empty chunks are not handed to it
   (skip = true) and a call after the end of the frame raises (once = true). *)
From Coq Require Import List Arith Bool ZArith NArith Lia.
From RxVerif Require Import Compress.Wrapper Compress.WrapperProofs.
From RxVerif Require Import Compress.ZstdFrame Compress.ZstdFrameProofs Compress.ZstdFrameCodec.
From RxVerif Require Import Framing.Line Container.Parquet Container.ParquetProofs Container.JsonLines Container.JsonLinesProofs.
From RxVerif Require Import Container.FloatText Container.Json Container.JsonProofs.
From RxVerif Require Import Container.JsonFloat Container.JsonFloatProofs Container.JsonFloatC19.
From RxVerif Require Import Container.IntText Container.FloatTextProofs Container.Csv.
From RxVerif Require Import Codec.Utf8 Codec.Wrapper Codec.WrapperProofs.
From RxVerif Require Import Container.C19EndToEnd Container.C18EndToEnd.
Import ListNotations.
Local Open Scope Z_scope.

(* compression='zstd' of the model: the bytes delivered for each input chunk and at completion.
   None = the stream signals an error, or does not complete *)
Definition zs_comp (bs : list (list Z)) : list (list Z) := map payload (zs_compress bs).
Definition zs_decomp (r : list (list Z)) : option (list (list Z)) :=
  let g := zs_decompress true true r in
  if existsb ev_is_error (concat g) then None
  else if existsb ev_is_completed (concat g) then Some (map payload g)
  else None.

Theorem zs_compression_ok : forall bs r, concat r = concat (zs_comp bs) ->
  exists bs', zs_decomp r = Some bs' /\ concat bs' = concat bs.
Proof.
  intros bs r H. unfold zs_comp in H. rewrite concat_map_payload in H.
  destruct (zs_roundtrip_any_rechunking true true (fun _ => eq_refl) bs r H) as (_ & P & Cm & Ne).
  exists (map payload (zs_decompress true true r)). split.
  - unfold zs_decomp. rewrite (existsb_error_false _ Ne), (existsb_completed_true _ Cm). reflexivity.
  - rewrite concat_map_payload. exact P.
Qed.

(* the zstd model hands everything over at completion: every item before the last one is empty *)
Definition zs_drun (st : bool * list Z) (r : list (list Z)) : list (list (event (list Z))) :=
  d_run (list Z) (list Z) (list Z) (zs_dstep true) zs_deof zs_dflush b_empty true st r.

Lemma zs_drun_shape : forall r st, exists init last,
  zs_drun st r = init ++ [last] /\ Forall (fun g => payload g = []) init.
Proof.
  induction r as [|c r IH]; intros st.
  - exists [], (d_on_completed (list Z) (list Z) zs_deof zs_dflush st). split; [reflexivity | constructor].
  - unfold zs_drun. cbn [d_run]. fold (zs_drun).
    destruct (d_on_next (list Z) (list Z) (list Z) (zs_dstep true) b_empty true st c) as [st' ev] eqn:E.
    destruct (IH st') as (init & last & H1 & H2). exists (ev :: init), last. unfold zs_drun in H1. rewrite H1.
    split; [reflexivity|]. constructor; [|exact H2].
    unfold d_on_next in E. destruct st as [alive s]. destruct alive.
    + unfold skipped in E. cbn [andb] in E. destruct (b_empty c); [inversion E; reflexivity|].
      unfold zs_dstep in E. destruct (true && zs_deof s); [inversion E; reflexivity|].
      destruct (zstd_unraw (s ++ c)); inversion E; reflexivity.
    + inversion E. reflexivity.
Qed.

Theorem zs_compression_whole_ok : forall bs r, drop_empty r = drop_empty [concat (zs_comp bs)] ->
  exists bs', zs_decomp r = Some bs' /\ drop_empty bs' = drop_empty [concat bs].
Proof.
  intros bs r H.
  assert (Hc : concat r = payload (concat (zs_compress bs))).
  { rewrite <- (drop_empty_concat _ r), H, drop_empty_concat. cbn [concat]. rewrite app_nil_r.
    unfold zs_comp. apply concat_map_payload. }
  destruct (zs_roundtrip_any_rechunking true true (fun _ => eq_refl) bs r Hc) as (_ & P & Cm & Ne).
  exists (map payload (zs_decompress true true r)). split.
  - unfold zs_decomp. rewrite (existsb_error_false _ Ne), (existsb_completed_true _ Cm). reflexivity.
  - destruct (zs_drun_shape r (true, [])) as (init & last & H1 & H2).
    change (zs_drun (true, []) r) with (zs_decompress true true r) in H1. rewrite H1 in *.
    rewrite map_app. cbn [map]. rewrite drop_empty_app_nils.
    + rewrite concat_app, payload_app in P. cbn [concat] in P. rewrite app_nil_r in P.
      assert (Z0 : payload (concat init) = []).
      { clear - H2. induction H2 as [|g init Hg Hi IH]; [reflexivity|]. cbn [concat]. rewrite payload_app, Hg, IH. reflexivity. }
      rewrite Z0 in P. cbn [app] in P. rewrite P. reflexivity.
    + apply Forall_forall. intros g Hg. apply in_map_iff in Hg. destruct Hg as (e & <- & He).
      rewrite Forall_forall in H2. apply H2. exact He.
Qed.

(* ---------------------------------------------------------------------------------------------
   C19 (JSON lines) with the zstd model
   --------------------------------------------------------------------------------------------- *)
Theorem C19_e2e_load_any_rechunking_zstd : forall (objs : list wfjvf) (r : list (list Z)) (skip : nat) (ign : bool),
  concat r = dump_to_file wfjvf Z Z 10 wff_dumps u8_encode zs_comp objs ->
  JsonLines.load_chunks wfjvf Z Z zf_is_nl wff_loads wff_is_null u8_decode zs_decomp skip ign r
  = (filter (fun o => negb (wff_is_null o)) (skipn skip objs), true).
Proof.
  apply (load_rechunk_dump_ok wfjvf Z Z zf_is_nl 10 wff_dumps wff_loads wff_is_null u8_encode u8_decode
           zs_comp zs_decomp cp_ok).
  - reflexivity.
  - exact orjsonf_loads_dumps.
  - exact orjsonf_dumps_no_newline.
  - exact orjsonf_dumps_nonempty.
  - exact wff_dumps_ok.
  - exact nl_ok.
  - exact u8_codec_ok.
  - exact zs_compression_ok.
Qed.

Theorem C19_e2e_load_from_file_zstd : forall (objs : list wfjvf) (size skip : nat) (ign : bool),
  load_from_file wfjvf Z Z zf_is_nl wff_loads wff_is_null u8_decode zs_decomp size skip ign
    (dump_to_file wfjvf Z Z 10 wff_dumps u8_encode zs_comp objs)
  = (filter (fun o => negb (wff_is_null o)) (skipn skip objs), true).
Proof.
  intros. unfold load_from_file. apply C19_e2e_load_any_rechunking_zstd. unfold file_read. apply batches_concat.
Qed.

(* lines=False *)
Theorem C19_e2e_load_doc_from_file_zstd : forall (o : wfjvf) (ign : bool), wff_is_null o = false ->
  load_doc_from_file wfjvf Z Z wff_loads wff_is_null u8_decode zs_decomp 0 ign
    (dump_to_file wfjvf Z Z 10 wff_dumps u8_encode zs_comp [o]) = ([o], true).
Proof.
  apply (load_doc_from_file_dump_one_ok wfjvf Z Z 10 wff_dumps wff_loads wff_is_null u8_encode u8_decode
           zs_comp zs_decomp cp_ok).
  - exact orjsonf_loads_dumps_nl.
  - exact wff_dumps_ok.
  - exact nl_ok.
  - exact u8_codec_whole_ok.
  - exact zs_compression_whole_ok.
Qed.

(* ---------------------------------------------------------------------------------------------
   C18 (CSV) with the zstd model
   --------------------------------------------------------------------------------------------- *)
Theorem C18_e2e_bytes_any_rechunking_zstd : forall (p esc : Z),
  p <> quote -> p <> esc -> esc <> quote ->
  ~ float_char p ->
  (forall b, ~ In p (str_bool b)) ->
  p <> newline -> esc <> newline ->
  cp_ok p -> cp_ok esc ->
  forall (types : list ty) (names : list (list Z)) (rows : list (list (value okfl))) (r : list (list Z)),
  Forall text_no_nl names ->
  Forall (fun row => Forall2 field_ok types row /\ row <> [] /\ Forall value_no_nl row) rows ->
  Forall (Forall cp_ok) names -> Forall (Forall value_cp_ok) rows ->
  concat r = dump_bytes zs_comp p esc names rows ->
  load_byte_chunks zs_decomp p esc types r = (rows, true).
Proof. exact (load_bytes_any_rechunking zs_comp zs_decomp zs_compression_ok). Qed.

Theorem C18_e2e_bytes_file_read_zstd : forall (p esc : Z),
  p <> quote -> p <> esc -> esc <> quote ->
  ~ float_char p ->
  (forall b, ~ In p (str_bool b)) ->
  p <> newline -> esc <> newline ->
  cp_ok p -> cp_ok esc ->
  forall (types : list ty) (names : list (list Z)) (rows : list (list (value okfl))) (n : nat),
  Forall text_no_nl names ->
  Forall (fun row => Forall2 field_ok types row /\ row <> [] /\ Forall value_no_nl row) rows ->
  Forall (Forall cp_ok) names -> Forall (Forall value_cp_ok) rows ->
  load_byte_chunks zs_decomp p esc types (JsonLines.file_read Z n (dump_bytes zs_comp p esc names rows)) = (rows, true).
Proof. exact (load_bytes_file_read zs_comp zs_decomp zs_compression_ok). Qed.

(* ---------------------------------------------------------------------------------------------
   evaluated: the example data of C19EndToEnd.v and C18EndToEnd.v through the zstd model, files read in pieces of
   1 and 7 bytes; a zstd file with its last byte cut off is refused
   --------------------------------------------------------------------------------------------- *)
Example C19_e2e_zstd_example :
  map (fun size => let r := load_from_file wfjvf Z Z zf_is_nl wff_loads wff_is_null u8_decode zs_decomp size 0 false
                              (dump_to_file wfjvf Z Z 10 wff_dumps u8_encode zs_comp ex_objs) in
                   (map wff_val (fst r), snd r)) [1; 7]%nat
  = [(ex_values, true); (ex_values, true)].
Proof. vm_compute. reflexivity. Qed.
Example C18_e2e_zstd_example :
  map (fun n => show (load_byte_chunks zs_decomp 44 92 ex_types
                        (JsonLines.file_read Z n (dump_bytes zs_comp 44 92 ex_names ex_rows)))) [1; 7]%nat
  = [show (ex_rows, true); show (ex_rows, true)].
Proof. vm_compute. reflexivity. Qed.
Example C19_e2e_zstd_truncated_example :
  zs_decomp [removelast (dump_to_file wfjvf Z Z 10 wff_dumps u8_encode zs_comp ex_objs)] = None.
Proof. vm_compute. reflexivity. Qed.

(* ---------------------------------------------------------------------------------------------
   (b) another text encoding: the codec law for every encoding of Codec/Wrapper.v whose admissible characters are the
   Unicode scalar values (utf-8, utf-16 with its byte order mark, utf-32), and the C19 instance for utf-16.
   latin-1 (characters below 256 only) does not fit: the dumped texts may hold any scalar value.
   --------------------------------------------------------------------------------------------- *)
Definition txt_encode (e : encoding) (cs : list (list Z)) : list (list Z) := n2z (fst (Codec.Wrapper.encode e (z2n cs))).
Definition txt_decode (e : encoding) (r : list (list Z)) : option (list (list Z)) :=
  match Codec.Wrapper.decode e (z2n r) with
  | (outs, NoErr) => Some (n2z outs)
  | (_, _) => None
  end.

Theorem txt_codec_ok : forall e, (forall c, scalar c -> valid_cp e c) ->
  forall cs r, Forall (Forall cp_ok) cs -> concat r = concat (txt_encode e cs) ->
  exists cs', txt_decode e r = Some cs' /\ concat cs' = concat cs.
Proof.
  intros e He cs r Hok H.
  assert (V : Forall (Forall (valid_cp e)) (z2n cs)).
  { unfold z2n. apply Forall_forall. intros x Hx. apply in_map_iff in Hx. destruct Hx as (s & <- & Hs).
    rewrite Forall_forall in Hok. specialize (Hok s Hs). apply Forall_forall. intros c Hc.
    apply in_map_iff in Hc. destruct Hc as (z & <- & Hz). rewrite Forall_forall in Hok.
    apply He. apply cp_ok_scalar. apply Hok. exact Hz. }
  assert (C : concat (z2n r) = concat (fst (Codec.Wrapper.encode e (z2n cs)))).
  { rewrite concat_z2n, H. unfold txt_encode. rewrite <- concat_z2n, z2n_n2z. reflexivity. }
  destruct (roundtrip e (z2n cs) (z2n r) V C) as (outs & D & E & _).
  exists (n2z outs). split; [unfold txt_decode; rewrite D; reflexivity|].
  rewrite concat_n2z, E, concat_z2n. apply of_to_nonneg.
  apply Forall_forall. intros c Hc. apply in_concat in Hc. destruct Hc as (s & Hs & Hc).
  rewrite Forall_forall in Hok. specialize (Hok s Hs). rewrite Forall_forall in Hok. destruct (Hok c Hc) as [[G _] _]. exact G.
Qed.

Theorem utf16_codec_ok : forall cs r, Forall (Forall cp_ok) cs -> concat r = concat (txt_encode EUtf16 cs) ->
  exists cs', txt_decode EUtf16 r = Some cs' /\ concat cs' = concat cs.
Proof. apply txt_codec_ok. intros c H. exact H. Qed.

(* C19 with encoding='utf-16', for a compression stage that satisfies the re-chunking law *)
Section Utf16.
Variable comp : list (list Z) -> list (list Z).
Variable decomp : list (list Z) -> option (list (list Z)).
Hypothesis H_compression : forall bs r, concat r = concat (comp bs) ->
  exists bs', decomp r = Some bs' /\ concat bs' = concat bs.

Theorem load_any_rechunking_utf16 : forall (objs : list wfjvf) (r : list (list Z)) (skip : nat) (ign : bool),
  concat r = dump_to_file wfjvf Z Z 10 wff_dumps (txt_encode EUtf16) comp objs ->
  JsonLines.load_chunks wfjvf Z Z zf_is_nl wff_loads wff_is_null (txt_decode EUtf16) decomp skip ign r
  = (filter (fun o => negb (wff_is_null o)) (skipn skip objs), true).
Proof.
  apply (load_rechunk_dump_ok wfjvf Z Z zf_is_nl 10 wff_dumps wff_loads wff_is_null (txt_encode EUtf16) (txt_decode EUtf16)
           comp decomp cp_ok).
  - reflexivity.
  - exact orjsonf_loads_dumps.
  - exact orjsonf_dumps_no_newline.
  - exact orjsonf_dumps_nonempty.
  - exact wff_dumps_ok.
  - exact nl_ok.
  - exact utf16_codec_ok.
  - exact H_compression.
Qed.
End Utf16.

Theorem C19_e2e_load_any_rechunking_utf16_plain : forall (objs : list wfjvf) (r : list (list Z)) (skip : nat) (ign : bool),
  concat r = dump_to_file wfjvf Z Z 10 wff_dumps (txt_encode EUtf16) id_compress objs ->
  JsonLines.load_chunks wfjvf Z Z zf_is_nl wff_loads wff_is_null (txt_decode EUtf16) id_decompress skip ign r
  = (filter (fun o => negb (wff_is_null o)) (skipn skip objs), true).
Proof. exact (load_any_rechunking_utf16 id_compress id_decompress id_compression_ok). Qed.
Theorem C19_e2e_load_any_rechunking_utf16_gzip : forall (objs : list wfjvf) (r : list (list Z)) (skip : nat) (ign : bool),
  concat r = dump_to_file wfjvf Z Z 10 wff_dumps (txt_encode EUtf16) gz_comp objs ->
  JsonLines.load_chunks wfjvf Z Z zf_is_nl wff_loads wff_is_null (txt_decode EUtf16) gz_decomp skip ign r
  = (filter (fun o => negb (wff_is_null o)) (skipn skip objs), true).
Proof. exact (load_any_rechunking_utf16 gz_comp gz_decomp gz_compression_ok). Qed.
Theorem C19_e2e_load_any_rechunking_utf16_zstd : forall (objs : list wfjvf) (r : list (list Z)) (skip : nat) (ign : bool),
  concat r = dump_to_file wfjvf Z Z 10 wff_dumps (txt_encode EUtf16) zs_comp objs ->
  JsonLines.load_chunks wfjvf Z Z zf_is_nl wff_loads wff_is_null (txt_decode EUtf16) zs_decomp skip ign r
  = (filter (fun o => negb (wff_is_null o)) (skipn skip objs), true).
Proof. exact (load_any_rechunking_utf16 zs_comp zs_decomp zs_compression_ok). Qed.

(* the example values as a utf-16 file (byte order mark first), read back in pieces of 1 and 7 bytes *)
Example C19_e2e_utf16_example :
  firstn 10 (dump_to_file wfjvf Z Z 10 wff_dumps (txt_encode EUtf16) id_compress ex_objs) = [255; 254; 48; 0; 46; 0; 49; 0; 10; 0]
  /\ map (fun size => let r := load_from_file wfjvf Z Z zf_is_nl wff_loads wff_is_null (txt_decode EUtf16) id_decompress size 0 false
                                 (dump_to_file wfjvf Z Z 10 wff_dumps (txt_encode EUtf16) id_compress ex_objs) in
                      (map wff_val (fst r), snd r)) [1; 7]%nat
      = [(ex_values, true); (ex_values, true)].
Proof. vm_compute. split; reflexivity. Qed.

Print Assumptions C19_e2e_load_any_rechunking_zstd.
Print Assumptions C19_e2e_load_from_file_zstd.
Print Assumptions C19_e2e_load_doc_from_file_zstd.
Print Assumptions C18_e2e_bytes_any_rechunking_zstd.
Print Assumptions C18_e2e_bytes_file_read_zstd.
Print Assumptions txt_codec_ok.
Print Assumptions C19_e2e_load_any_rechunking_utf16_plain.
Print Assumptions C19_e2e_load_any_rechunking_utf16_gzip.
Print Assumptions C19_e2e_load_any_rechunking_utf16_zstd.
