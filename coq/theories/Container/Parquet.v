(* Model of rxsci/container/parquet.py dump_to_file / load_from_file (as repaired) over the repaired
   rxsci/data/batch.py.  Rows are abstract; pyarrow is NOT modelled: a record batch is the list of its
   rows, the parquet file is the list of the record batches appended to the writer, reading gives the
   rows of the batches in order.  Executable; no proofs in this file.

   batch.py (repaired):
     _batch(acc, i):   b = [i] if acc[1] is True else acc[0] + [i];  return (b, len(b) == batch_size)
     _terminate(acc):  return (acc[0], acc[1] is False and len(acc[0]) > 0)
     scan(_batch, seed=([], False), terminator=_terminate) | filter(i[1] == True) | map(i[0])
   parquet.py (repaired): _create_record(data): columns_data = fresh lists; for v in data: append v's
     fields; RecordBatch.from_arrays(columns_data)
   dump_to_file: batch(batch_size) | map(create_record) | writer.write(record_batch, row_group_size)
   load_from_file: for batch in ParquetFile.iter_batches(batch_size): emit its rows one by one *)
From Coq Require Import List Arith Bool NArith.
Import ListNotations.

Section Parquet.
Variable R : Type.

(* ---- rs.data.batch(n): scan state (b, full) ---- *)
Definition batch_step (n : nat) (st : list R * bool) (i : R) : (list R * bool) * list (list R) :=
  let '(b, full) := st in
  let b' := if full then [i] else b ++ [i] in
  let full' := length b' =? n in
  ((b', full'), if full' then [b'] else []).
Definition batch_finish (st : list R * bool) : list (list R) :=
  let '(b, full) := st in if negb full && (0 <? length b) then [b] else [].
(* what is emitted while each row is pushed, then (last element) at completion *)
Fixpoint batch_run (n : nat) (st : list R * bool) (rows : list R) : list (list (list R)) :=
  match rows with
  | [] => [batch_finish st]
  | r :: rs => let '(st', out) := batch_step n st r in out :: batch_run n st' rs
  end.
Definition batch_timed (n : nat) (rows : list R) : list (list (list R)) := batch_run n ([], false) rows.
Definition batches (n : nat) (rows : list R) : list (list R) := concat (batch_timed n rows).

(* ---- create_record, repaired: the column buffers are created per call ---- *)
Definition fill (buf data : list R) : list R := fold_left (fun b v => b ++ [v]) data buf.
Definition create_record (data : list R) : list R := fill [] data.
(* the unrepaired closure: one set of buffers for all calls *)
Fixpoint to_record_shared (buf : list R) (bs : list (list R)) : list (list R) :=
  match bs with
  | [] => []
  | b :: r => let buf' := fill buf b in buf' :: to_record_shared buf' r
  end.

(* ---- writer / file / reader ---- *)
Definition dump (n : nat) (rows : list R) : list (list R) := map create_record (batches n rows).
Definition file_rows (f : list (list R)) : list R := concat f.
(* every write(record_batch, row_group_size) makes row groups of at most row_group_size rows
   (None: one row group per write) *)
Definition row_groups (rg : option nat) (f : list (list R)) : list nat :=
  match rg with
  | None => map (@length R) f
  | Some k => concat (map (fun b => map (@length R) (batches k b)) f)
  end.
(* iter_batches(batch_size = m) re-batches the file rows; load emits the rows of each batch in order *)
Definition load (m : nat) (f : list (list R)) : list R := concat (batches m (file_rows f)).
End Parquet.

(* closed form of the batch sizes for k rows *)
Definition batch_sizes (n k : nat) : list nat :=
  repeat n (k / n) ++ (if k mod n =? 0 then [] else [k mod n]).

(* executable instance: rows are represented by their index *)
Fixpoint nseq (start : N) (len : nat) : list N :=
  match len with O => [] | S l => start :: nseq (N.succ start) l end.
Definition idx_rows (k : N) : list N := nseq 0 (N.to_nat k).
