(* The orjson model of Container/Json.v extended with FINITE binary64 floats (Container/FloatText.v).  Json.v is
   left untouched; everything that does not depend on the value type (UTF-8, strings, integers, whitespace) is
   reused from it.  Executable; no proofs in this file (JsonFloatProofs.v).

   orjson.dumps of a float: the shortest digits that convert back (the same digits as repr: FloatText.shortest_dec),
   in the layout of the Rust ryu crate.  With DIGITS the n digits, k the decimal exponent (value = DIGITS * 10^k)
   and kk = n + k the position of the decimal point:
     -5 < kk <= 16 : fixed notation   DIGITS 0..0 .0   |   DIG.ITS   |   0.0..0DIGITS   (FloatText.fixed_text)
     otherwise     : D[.IGITS] e SIGN EXP   with EXP = |kk - 1| without padding and SIGN always written: e+16, e-7
   Checked against orjson 3.12 on 400000 random bit patterns, every power of ten and of two with their neighbours,
   short decimals and integers: no difference.  -0.0 is written -0.0.
   nan, inf, -inf: orjson.dumps writes null for them.  They are NOT values of this model (fl holds finite values
   only); a harness must not feed them.  float_text answers null on an fl that is not canonical (not fl_ok), which
   never happens for a triple computed from a finite float.

   orjson.loads of a number: JSON syntax: optional minus, then 0 or a non-zero digit and digits, then optionally a point and one or more
   digits, then optionally e or E, an optional sign and one or more digits; without fraction
   and exponent it is an int when it fits -2^63 .. 2^64-1 (as in Json.v; -0 is the int 0), otherwise - too large, or
   with a fraction or an exponent - it is the correctly rounded (ties to even) binary64 value (FloatText.float_of_dec:
   -0.0, -0e0 give -0.0; 1e-400 gives 0.0); a value that rounds to infinity (1e400, an integer of 400 digits) is an
   ERROR for orjson (number is infinity when parsed as double): None here, in agreement.
   NaN, Infinity, -Infinity are rejected by orjson.loads: None here, in agreement. *)
From Coq Require Import List ZArith Bool Lia.
From RxVerif Require Import Container.IntText Container.FloatText Container.Json.
Import ListNotations.
Local Open Scope Z_scope.

Inductive jvf : Type :=
| FNull : jvf
| FBool : bool -> jvf
| FInt : Z -> jvf
| FFloat : fl -> jvf                        (* finite binary64 value, canonical triple *)
| FStr : list Z -> jvf
| FArr : list jvf -> jvf
| FObj : list (list Z * jvf) -> jvf.

Inductive jvf_wf : jvf -> Prop :=
| wff_null : jvf_wf FNull
| wff_bool : forall b, jvf_wf (FBool b)
| wff_int : forall z, int_ok z -> jvf_wf (FInt z)
| wff_float : forall x, fl_ok x -> jvf_wf (FFloat x)
| wff_str : forall s, str_ok s -> jvf_wf (FStr s)
| wff_arr : forall l, Forall jvf_wf l -> jvf_wf (FArr l)
| wff_obj : forall m, NoDup (map fst m) ->
                      Forall (fun kv => str_ok (fst kv) /\ jvf_wf (snd kv)) m -> jvf_wf (FObj m).

(* floats are compared bit for bit: -0.0 and 0.0 differ *)
Fixpoint jvf_eqb (v w : jvf) : bool :=
  match v, w with
  | FNull, FNull => true
  | FBool a, FBool b => Bool.eqb a b
  | FInt a, FInt b => a =? b
  | FFloat a, FFloat b => fl_eqb a b
  | FStr a, FStr b => str_eqb a b
  | FArr a, FArr b =>
      (fix go (a b : list jvf) : bool :=
         match a, b with
         | [], [] => true
         | x :: a', y :: b' => jvf_eqb x y && go a' b'
         | _, _ => false
         end) a b
  | FObj a, FObj b =>
      (fix go (a b : list (list Z * jvf)) : bool :=
         match a, b with
         | [], [] => true
         | (k, x) :: a', (k', y) :: b' => str_eqb k k' && jvf_eqb x y && go a' b'
         | _, _ => false
         end) a b
  | _, _ => false
  end.

Fixpoint jvf_wfb (v : jvf) : bool :=
  match v with
  | FNull => true
  | FBool _ => true
  | FInt z => int_okb z
  | FFloat x => fl_okb x
  | FStr s => forallb cp_okb s
  | FArr l => forallb jvf_wfb l
  | FObj m => nodupb (map fst m) &&
              forallb (fun kv => match kv with (k, x) => forallb cp_okb k && jvf_wfb x end) m
  end.

(* ---------- printing ---------- *)
(* exponent: sign always, no padding *)
Definition exp_text_j (ex : Z) : list Z := (if ex <? 0 then 45 else 43) :: digits_of (Z.abs ex).
Definition sci_text_j (ds : list Z) (kk : Z) : list Z :=
  match ds with
  | [] => []
  | c :: r => (c :: match r with [] => [] | _ :: _ => 46 :: r end) ++ 101 :: exp_text_j (kk - 1)
  end.
(* the text of (-1)^s * d * 10^k *)
Definition ryu_text (s : bool) (d k : Z) : list Z :=
  let ds := digits_of d in
  let kk := Z.of_nat (length ds) + k in
  (if s then [45] else []) ++ (if (-5 <? kk) && (kk <=? 16) then fixed_text ds kk else sci_text_j ds kk).
Definition float_text (x : fl) : list Z :=
  match shortest_dec x with
  | Some (d, k) => ryu_text (fsign x) d k
  | None => [110; 117; 108; 108]
  end.

Fixpoint jsonf_text (v : jvf) : list Z :=
  match v with
  | FNull => [110; 117; 108; 108]
  | FBool true => [116; 114; 117; 101]
  | FBool false => [102; 97; 108; 115; 101]
  | FInt z => print_int z
  | FFloat x => float_text x
  | FStr s => print_string s
  | FArr l => 91 :: join_comma (map jsonf_text l) ++ [93]
  | FObj m => 123 :: join_comma (map (fun kv => match kv with
                                                | (k, x) => print_string k ++ 58 :: jsonf_text x
                                                end) m) ++ [125]
  end.
Definition jsonf_print (v : jvf) : list Z := utf8_encode (jsonf_text v).

(* ---------- parsing ---------- *)
Definition float_value (s : bool) (d k : Z) (rest : list Z) : option (jvf * list Z) :=
  match float_of_dec s d k with
  | Some x => Some (FFloat x, rest)
  | None => None                                   (* rounds to infinity: an error for orjson *)
  end.
Definition parse_number_f (s : list Z) : option (jvf * list Z) :=
  let '(neg, t) := match s with
                   | c :: r => if c =? 45 then (true, r) else (false, s)
                   | [] => (false, s)
                   end in
  match Json.parse_nat t with
  | None => None
  | Some (n, r1) =>
      (* fraction: a point and at least one digit *)
      let '(d, nf, r2) := match r1 with
                          | c :: r => if c =? 46 then read_digits n 0 r else (n, -1, r1)
                          | [] => (n, -1, r1)
                          end in
      if nf =? 0 then None
      else
        let nf' := Z.max nf 0 in
        match r2 with
        | c :: r =>
            if (c =? 101) || (c =? 69) then
              let '(es, r3) := match r with
                               | c2 :: r' => if c2 =? 45 then (true, r') else if c2 =? 43 then (false, r') else (false, r)
                               | [] => (false, r)
                               end in
              let '(ex, ne, r4) := read_digits 0 0 r3 in
              if ne =? 0 then None
              else float_value neg d ((if es then - ex else ex) - nf') r4
            else if nf <? 0 then
              (if neg then (if n <=? 2 ^ 63 then Some (FInt (- n), r2) else float_value neg n 0 r2)
               else (if n <? 2 ^ 64 then Some (FInt n, r2) else float_value neg n 0 r2))
            else float_value neg d (- nf') r2
        | [] =>
            if nf <? 0 then
              (if neg then (if n <=? 2 ^ 63 then Some (FInt (- n), r2) else float_value neg n 0 r2)
               else (if n <? 2 ^ 64 then Some (FInt n, r2) else float_value neg n 0 r2))
            else float_value neg d (- nf') r2
        end
  end.

(* Python dict: d[k] = v keeps the position of an existing key *)
Fixpoint dict_set_f (k : list Z) (v : jvf) (m : list (list Z * jvf)) : list (list Z * jvf) :=
  match m with
  | [] => [(k, v)]
  | (k', v') :: t => if str_eqb k k' then (k', v) :: t else (k', v') :: dict_set_f k v t
  end.
Definition dict_norm_f (ms : list (list Z * jvf)) : list (list Z * jvf) :=
  fold_left (fun d kv => dict_set_f (fst kv) (snd kv) d) ms [].

(* value, then rest.  parse_elems_f: after `[` when the array is not empty: v , v , ... ]
   parse_members_f: after `{` when the object is not empty: "k" : v , "k2" : v2 }   Every call uses one unit of
   fuel; the length of the text (+1) is enough (JsonProofs.jsize_le_length) *)
Fixpoint parse_value_f (fuel : nat) (s : list Z) {struct fuel} : option (jvf * list Z) :=
  match fuel with
  | O => None
  | S f =>
      match skip_ws s with
      | [] => None
      | c :: r =>
          if c =? 110 then
            match r with
            | a :: b :: d :: r' => if (a =? 117) && (b =? 108) && (d =? 108) then Some (FNull, r') else None
            | _ => None
            end
          else if c =? 116 then
            match r with
            | a :: b :: d :: r' => if (a =? 114) && (b =? 117) && (d =? 101) then Some (FBool true, r') else None
            | _ => None
            end
          else if c =? 102 then
            match r with
            | a :: b :: d :: e :: r' =>
                if (a =? 97) && (b =? 108) && (d =? 115) && (e =? 101) then Some (FBool false, r') else None
            | _ => None
            end
          else if c =? 34 then
            match parse_chars r with
            | Some (cs, r') => Some (FStr cs, r')
            | None => None
            end
          else if c =? 91 then
            match skip_ws r with
            | [] => None
            | d :: r' =>
                if d =? 93 then Some (FArr [], r')
                else match parse_elems_f f (d :: r') with
                     | Some (vs, r'') => Some (FArr vs, r'')
                     | None => None
                     end
            end
          else if c =? 123 then
            match skip_ws r with
            | [] => None
            | d :: r' =>
                if d =? 125 then Some (FObj [], r')
                else match parse_members_f f (d :: r') with
                     | Some (ms, r'') => Some (FObj (dict_norm_f ms), r'')
                     | None => None
                     end
            end
          else parse_number_f (c :: r)
      end
  end
with parse_elems_f (fuel : nat) (s : list Z) {struct fuel} : option (list jvf * list Z) :=
  match fuel with
  | O => None
  | S f =>
      match parse_value_f f s with
      | None => None
      | Some (v, r) =>
          match skip_ws r with
          | [] => None
          | c :: r' =>
              if c =? 44 then
                match parse_elems_f f r' with
                | Some (vs, r'') => Some (v :: vs, r'')
                | None => None
                end
              else if c =? 93 then Some ([v], r')
              else None
          end
      end
  end
with parse_members_f (fuel : nat) (s : list Z) {struct fuel} : option (list (list Z * jvf) * list Z) :=
  match fuel with
  | O => None
  | S f =>
      match skip_ws s with
      | [] => None
      | c :: r =>
          if c =? 34 then
            match parse_chars r with
            | None => None
            | Some (k, r1) =>
                match skip_ws r1 with
                | [] => None
                | c2 :: r2 =>
                    if c2 =? 58 then
                      match parse_value_f f r2 with
                      | None => None
                      | Some (v, r3) =>
                          match skip_ws r3 with
                          | [] => None
                          | c3 :: r4 =>
                              if c3 =? 44 then
                                match parse_members_f f r4 with
                                | Some (ms, r5) => Some ((k, v) :: ms, r5)
                                | None => None
                                end
                              else if c3 =? 125 then Some ([(k, v)], r4)
                              else None
                          end
                      end
                    else None
                end
            end
          else None
      end
  end.

(* orjson.loads of a str: a Python str may hold lone surrogates, which orjson refuses *)
Definition jsonf_parse_text (s : list Z) : option jvf :=
  if forallb cp_okb s then
    match parse_value_f (S (length s)) s with
    | Some (v, r) => match skip_ws r with [] => Some v | _ => None end
    | None => None
    end
  else None.

(* orjson.loads of bytes *)
Definition jsonf_parse (b : list Z) : option jvf :=
  match utf8_decode b with
  | Some s => jsonf_parse_text s
  | None => None
  end.

(* ---------- entry point for a correspondence check (same shape as C19Corr.CJsonModel) ----------
   dumps = (value, the bytes orjson.dumps(value) gave), loads = (text, what orjson.loads answers on it: None = it
   raises).  A float travels as the triple (sign, m, e) of its canonical form, x = (-1)^sign * m * 2^e. *)
Definition ffloat (t : bool * Z * Z) : jvf := let '(s, m, e) := t in FFloat (mkfl s m e).
Definition jsonf_model_check (dumps : list (jvf * list Z)) (loads : list (list Z * option jvf)) : bool :=
  forallb (fun c => jvf_wfb (fst c) && list_eqb Z.eqb (jsonf_print (fst c)) (snd c)
                    && match jsonf_parse (snd c) with Some v => jvf_eqb v (fst c) | None => false end) dumps
  && forallb (fun c => match jsonf_parse (fst c), snd c with
                       | Some v, Some w => jvf_eqb v w
                       | None, None => true
                       | _, _ => false
                       end) loads.
