(* The digit search of repr ALWAYS succeeds on a binary64 value (shortest_found x for every fl_ok x): 17 significant
   digits identify a binary64 value, because 10^16 > 2^53.  With it the hypothesis shortest_found disappears from
   the round trip float(repr(x)) = x and from the CSV corollaries.
   Ingredients: (1) float_of_dec is complete: a decimal inside the rounding interval of x converts to x
   (float_of_ratio_spec, float_of_dec_spec); (2) scan is sound and complete: dlo .. dhi are exactly the multiples of
   10^k inside the interval (scan_spec); (3) the estimate of log10 is at most one too large (a finite check over the
   2098 binary exponents, by computation), so that |x| / 10^k17 >= 10^16 (scan17_spec); (4) then the interval, at
   least 3/4 of a unit in the last place wide, is wider than 10^k17 and holds a multiple of it. *)
From Coq Require Import List Arith ZArith NArith Bool Lia.
From RxVerif Require Import Container.IntText Container.IntTextProofs.
From RxVerif Require Import Container.FloatText Container.FloatTextProofs.
Import ListNotations.
Local Open Scope Z_scope.

(* ---------------------------------------------------------------------------------------------
   integer facts
   --------------------------------------------------------------------------------------------- *)
Lemma div_eucl_div_mod : forall a b, Z.div_eucl a b = (a / b, a mod b).
Proof. intros a b. unfold Z.div, Z.modulo. destruct (Z.div_eucl a b). reflexivity. Qed.

Lemma mul_le_cancel_r : forall a b c, 0 < c -> a * c <= b * c -> a <= b.
Proof. intros a b c Hc H. apply Z.mul_le_mono_pos_r in H; assumption. Qed.
Lemma mul_lt_cancel_r : forall a b c, 0 < c -> a * c < b * c -> a < b.
Proof. intros a b c Hc H. apply Z.mul_lt_mono_pos_r in H; assumption. Qed.

(* q + rem/den rounds to m when it lies within 1/2 of m (a tie only when m is even) *)
Lemma round_even_spec : forall q rem den m, 0 < den -> 0 <= rem < den ->
  (2 * m - 1) * den <= 2 * (q * den + rem) <= (2 * m + 1) * den ->
  (Z.even m = false -> (2 * m - 1) * den < 2 * (q * den + rem) < (2 * m + 1) * den) ->
  round_even q rem den = m.
Proof.
  intros q rem den m Hden Hrem [H1 H2] Hodd.
  assert (Hq : q = m \/ q = m - 1).
  { assert (A : (2 * m - 1) * den < (2 * q + 2) * den) by nia.
    apply mul_lt_cancel_r in A; [|exact Hden].
    assert (B : (2 * q) * den < (2 * m + 2) * den) by nia.
    apply mul_lt_cancel_r in B; [|exact Hden]. lia. }
  unfold round_even. destruct Hq as [-> | ->].
  - (* q = m: the fraction is at most 1/2 *)
    assert (R : 2 * rem <= den) by nia.
    destruct (2 * rem <? den) eqn:E1; [reflexivity|]. apply Z.ltb_ge in E1.
    replace (den <? 2 * rem) with false by (symmetry; apply Z.ltb_ge; lia).
    destruct (Z.even m) eqn:Em; [reflexivity|]. specialize (Hodd eq_refl). nia.
  - (* q = m - 1: the fraction is at least 1/2 *)
    assert (R : den <= 2 * rem) by nia.
    replace (2 * rem <? den) with false by (symmetry; apply Z.ltb_ge; lia).
    destruct (den <? 2 * rem) eqn:E1; [lia|]. apply Z.ltb_ge in E1.
    destruct (Z.even (m - 1)) eqn:Em; [|lia].
    assert (Em' : Z.even m = false).
    { replace m with (Z.succ (m - 1)) by lia. rewrite Z.even_succ. rewrite <- Z.negb_even, Em. reflexivity. }
    specialize (Hodd Em'). nia.
Qed.

(* ---------------------------------------------------------------------------------------------
   (1) float_of_ratio is complete
   --------------------------------------------------------------------------------------------- *)
(* W/dn lies in the rounding interval of m * 2^j (unit 2^-1074): at most half a unit 2^j above, at most half a unit
   below - a quarter when m = 2^52 is the first of its binade and j > 0 -, the ends only when m is even *)
Definition near (m j W dn : Z) : Prop :=
  2 * W <= (2 * m + 1) * 2 ^ j * dn /\
  (if (m =? 2 ^ 52) && (0 <? j) then (4 * m - 1) * 2 ^ j * dn <= 4 * W else (2 * m - 1) * 2 ^ j * dn <= 2 * W) /\
  (Z.even m = false -> 2 * W < (2 * m + 1) * 2 ^ j * dn /\ (2 * m - 1) * 2 ^ j * dn < 2 * W).

Lemma ratio_tail : forall W dn q0 r0 sh, W = dn * q0 + r0 -> 0 <= r0 < dn -> 0 <= sh -> 0 <= q0 ->
  W = Z.shiftr q0 sh * (dn * 2 ^ sh) + (Z.land q0 (Z.ones sh) * dn + r0) /\
  0 <= Z.land q0 (Z.ones sh) * dn + r0 < dn * 2 ^ sh.
Proof.
  intros W dn q0 r0 sh HW Hr Hsh Hq0. rewrite Z.shiftr_div_pow2, Z.land_ones by exact Hsh.
  assert (HP : 0 < 2 ^ sh) by (apply Z.pow_pos_nonneg; lia).
  pose proof (Z.div_mod q0 (2 ^ sh) ltac:(lia)) as D. pose proof (Z.mod_pos_bound q0 (2 ^ sh) HP) as B.
  set (q := q0 / 2 ^ sh) in *. set (lo := q0 mod 2 ^ sh) in *. set (P := 2 ^ sh) in *. clearbody q lo P.
  split; [subst W q0; ring|]. split; [nia|]. nia.
Qed.

Lemma log2_between : forall a b, 0 <= b -> 2 ^ b <= a < 2 ^ b * 2 -> Z.log2 a = b.
Proof.
  intros a b Hb H. apply Z.log2_unique; [exact Hb|]. rewrite Z.pow_succ_r by exact Hb. lia.
Qed.

Lemma float_of_ratio_spec : forall s n dn m j, 0 < n -> 0 < dn -> 0 <= j <= 2045 ->
  ((0 < m < 2 ^ 52 /\ j = 0) \/ 2 ^ 52 <= m < 2 ^ 53) ->
  near m j (n * 2 ^ 1074) dn ->
  float_of_ratio s n dn = Some (mkfl s m (j - 1074)).
Proof.
  intros s n dn m j Hn Hdn Hj Hm (Hhi & Hlo & Hodd).
  unfold float_of_ratio. rewrite div_eucl_div_mod.
  set (W := n * 2 ^ 1074) in *.
  assert (HW0 : 0 < W) by (unfold W; apply Z.mul_pos_pos; [exact Hn | apply Z.pow_pos_nonneg; lia]).
  pose proof (Z.div_mod W dn ltac:(lia)) as D. pose proof (Z.mod_pos_bound W dn Hdn) as B.
  assert (Hq0 : 0 <= W / dn) by (apply Z.div_pos; lia).
  set (q0 := W / dn) in *. set (r0 := W mod dn) in *. clearbody q0 r0.
  assert (HP : 0 < 2 ^ j) by (apply Z.pow_pos_nonneg; lia).
  assert (Hm0 : 0 < m) by lia.
  (* the plain lower bound holds in every case *)
  assert (Hlo2 : (2 * m - 1) * 2 ^ j * dn <= 2 * W).
  { destruct ((m =? 2 ^ 52) && (0 <? j)); [|exact Hlo]. nia. }
  destruct (Z.eq_dec j 0) as [->|Hj0].
  - (* unit 2^-1074: subnormal numbers and the first binade; no shift *)
    change (2 ^ 0) with 1 in *. rewrite !Z.mul_1_r in *.
    assert (Hq0m : q0 <= m) by nia.
    assert (Hsh : Z.max 0 (Z.log2 q0 - 52) = 0).
    { destruct (Z.eq_dec q0 0) as [->|N0]; [reflexivity|].
      assert (Z.log2 q0 < 53) by (apply Z.log2_lt_pow2; lia). lia. }
    rewrite Hsh. change (Z.ones 0) with 0. rewrite Z.land_0_r, Z.shiftr_0_r. change (2 ^ 0) with 1.
    rewrite Z.mul_1_r, Z.mul_0_l, Z.add_0_l.
    rewrite (round_even_spec q0 r0 dn m); [| lia | lia | nia | intros E; specialize (Hodd E); nia].
    replace (m =? 0) with false by (symmetry; apply Z.eqb_neq; lia).
    replace (m =? 2 ^ 53) with false by (symmetry; apply Z.eqb_neq; lia).
    reflexivity.
  - assert (Hj1 : 0 < j) by lia. assert (Hmn : 2 ^ 52 <= m < 2 ^ 53) by lia.
    destruct (Z_le_gt_dec (2 ^ 52 * 2 ^ j * dn) W) as [Hbig | Hsmall].
    + (* the quotient has 53 + j bits: shift by j *)
      assert (Hq0lo : 2 ^ 52 * 2 ^ j <= q0) by nia.
      assert (Hq0hi : q0 < 2 ^ 53 * 2 ^ j) by nia.
      assert (Hlog : Z.log2 q0 = 52 + j).
      { apply log2_between; [lia|]. rewrite Z.pow_add_r by lia. lia. }
      rewrite Hlog. replace (Z.max 0 (52 + j - 52)) with j by lia.
      destruct (ratio_tail W dn q0 r0 j D B ltac:(lia) Hq0) as (T1 & T2).
      rewrite (round_even_spec (Z.shiftr q0 j) (Z.land q0 (Z.ones j) * dn + r0) (dn * 2 ^ j) m);
        [| nia | exact T2 | rewrite <- T1; nia | intros E; specialize (Hodd E); rewrite <- T1; nia].
      replace (m =? 0) with false by (symmetry; apply Z.eqb_neq; lia).
      replace (m =? 2 ^ 53) with false by (symmetry; apply Z.eqb_neq; lia).
      replace (j - 1074 <=? 971) with true by (symmetry; apply Z.leb_le; lia). reflexivity.
    + (* just below the power of two 2^52 * 2^j: one bit less, the rounding carries *)
      assert (Em : m = 2 ^ 52).
      { destruct (Z.eq_dec m (2 ^ 52)) as [E|E]; [exact E|]. exfalso. nia. }
      subst m. replace ((2 ^ 52 =? 2 ^ 52) && (0 <? j)) with true in Hlo
        by (symmetry; apply andb_true_intro; split; [reflexivity | apply Z.ltb_lt; lia]).
      assert (HP' : 2 ^ j = 2 * 2 ^ (j - 1)).
      { replace j with (Z.succ (j - 1)) at 1 by lia. rewrite Z.pow_succ_r by lia. reflexivity. }
      assert (HPp : 0 < 2 ^ (j - 1)) by (apply Z.pow_pos_nonneg; lia).
      remember (2 ^ (j - 1)) as P' eqn:EP'. rewrite HP' in *.
      assert (Hq0lo : 2 ^ 52 * P' <= q0) by nia.
      assert (Hq0hi : q0 < 2 ^ 52 * P' * 2) by nia.
      assert (Hlog : Z.log2 q0 = 52 + (j - 1)).
      { apply log2_between; [lia|]. rewrite Z.pow_add_r by lia. rewrite <- EP'. lia. }
      rewrite Hlog. replace (Z.max 0 (52 + (j - 1) - 52)) with (j - 1) by lia.
      destruct (ratio_tail W dn q0 r0 (j - 1) D B ltac:(lia) Hq0) as (T1 & T2). rewrite <- EP' in T1, T2 |- *.
      rewrite (round_even_spec (Z.shiftr q0 (j - 1)) (Z.land q0 (Z.ones (j - 1)) * dn + r0) (dn * P') (2 ^ 53));
        [| nia | exact T2 | rewrite <- T1; nia | intros E; discriminate E].
      replace (2 ^ 53 =? 0) with false by reflexivity. replace (2 ^ 53 =? 2 ^ 53) with true by reflexivity.
      replace (j - 1 - 1074 + 1 <=? 971) with true by (symmetry; apply Z.leb_le; lia).
      replace (j - 1 - 1074 + 1) with (j - 1074) by lia. reflexivity.
Qed.

(* ---------------------------------------------------------------------------------------------
   the rounding interval of x, as scan computes it (in quarters of the unit 1 / 2^fl_sh x)
   --------------------------------------------------------------------------------------------- *)
Definition lo4 (x : fl) : Z :=
  if (fm x =? 2 ^ 52) && (-1074 <? fe x) then 4 * fl_num x - fl_ulp x else 4 * fl_num x - 2 * fl_ulp x.
Definition hi4 (x : fl) : Z := 4 * fl_num x + 2 * fl_ulp x.
(* n/dn lies in the rounding interval of |x| *)
Definition in_interval (x : fl) (n dn : Z) : Prop :=
  lo4 x * dn <= 4 * n * 2 ^ fl_sh x <= hi4 x * dn /\
  (Z.even (fm x) = false -> lo4 x * dn < 4 * n * 2 ^ fl_sh x < hi4 x * dn).
(* d * 10^k lies in it *)
Definition in_dec (x : fl) (d k : Z) : Prop :=
  if 0 <=? k then in_interval x (d * 10 ^ k) 1 else in_interval x d (10 ^ (- k)).

Definition fl_pos (x : fl) : Prop :=
  (2 ^ 52 <= fm x < 2 ^ 53 /\ -1074 <= fe x <= 971) \/ (0 < fm x < 2 ^ 52 /\ fe x = -1074).

Lemma fl_units : forall x, -1074 <= fe x ->
  fl_num x * 2 ^ 1074 = fm x * 2 ^ (fe x + 1074) * 2 ^ fl_sh x /\
  fl_ulp x * 2 ^ 1074 = 2 ^ (fe x + 1074) * 2 ^ fl_sh x /\
  fl_num x = fm x * fl_ulp x /\ 0 < fl_ulp x /\ 0 < 2 ^ fl_sh x.
Proof.
  intros x He. unfold fl_num, fl_ulp, fl_sh. destruct (0 <=? fe x) eqn:E; [apply Z.leb_le in E | apply Z.leb_gt in E].
  - rewrite !Z.shiftl_mul_pow2 by exact E. change (2 ^ 0) with 1. rewrite Z.pow_add_r by lia.
    assert (0 < 2 ^ fe x) by (apply Z.pow_pos_nonneg; lia). repeat split; try ring; lia.
  - replace (2 ^ 1074) with (2 ^ (fe x + 1074) * 2 ^ (- fe x)) at 1 2
      by (rewrite <- Z.pow_add_r by lia; f_equal; lia).
    assert (0 < 2 ^ (- fe x)) by (apply Z.pow_pos_nonneg; lia). repeat split; try ring; lia.
Qed.

Lemma in_interval_near : forall x n dn, fl_pos x -> 0 < dn -> in_interval x n dn ->
  near (fm x) (fe x + 1074) (n * 2 ^ 1074) dn.
Proof.
  intros x n dn Hx Hdn ((H1 & H2) & Hodd).
  assert (He : -1074 <= fe x) by (unfold fl_pos in Hx; lia).
  destruct (fl_units x He) as (FA & FU & _ & _ & HS).
  assert (HK : 0 < 2 ^ 1074) by (apply Z.pow_pos_nonneg; lia).
  assert (HP : 0 < 2 ^ (fe x + 1074)) by (apply Z.pow_pos_nonneg; lia).
  unfold lo4, hi4 in *. unfold near.
  set (S := 2 ^ fl_sh x) in *. set (K := 2 ^ 1074) in *. set (P := 2 ^ (fe x + 1074)) in *.
  set (A := fl_num x) in *. set (U := fl_ulp x) in *. set (m := fm x) in *.
  replace (0 <? fe x + 1074) with (-1074 <? fe x)
    by (destruct (Z.ltb_spec (-1074) (fe x)); symmetry; [apply Z.ltb_lt | apply Z.ltb_ge]; lia).
  assert (AK : 4 * A * K = 4 * (m * P * S)) by (rewrite <- FA; ring).
  assert (UK : 2 * U * K = 2 * (P * S)) by (rewrite <- FU; ring).
  assert (UK1 : U * K = P * S) by (rewrite <- FU; ring).
  clearbody S K P A U m.
  split; [|split].
  - apply (mul_le_cancel_r _ _ (2 * S)); [lia|].
    replace ((2 * m + 1) * P * dn * (2 * S)) with ((4 * (m * P * S) + 2 * (P * S)) * dn) by ring.
    rewrite <- AK, <- UK. replace (2 * (n * K) * (2 * S)) with (4 * n * S * K) by ring.
    replace ((4 * A * K + 2 * U * K) * dn) with ((4 * A + 2 * U) * dn * K) by ring. nia.
  - destruct ((m =? 2 ^ 52) && (-1074 <? fe x)).
    + apply (mul_le_cancel_r _ _ S); [lia|].
      replace ((4 * m - 1) * P * dn * S) with ((4 * (m * P * S) - P * S) * dn) by ring.
      rewrite <- AK, <- UK1. replace (4 * (n * K) * S) with (4 * n * S * K) by ring.
      replace ((4 * A * K - U * K) * dn) with ((4 * A - U) * dn * K) by ring. nia.
    + apply (mul_le_cancel_r _ _ (2 * S)); [lia|].
      replace ((2 * m - 1) * P * dn * (2 * S)) with ((4 * (m * P * S) - 2 * (P * S)) * dn) by ring.
      rewrite <- AK, <- UK. replace (2 * (n * K) * (2 * S)) with (4 * n * S * K) by ring.
      replace ((4 * A * K - 2 * U * K) * dn) with ((4 * A - 2 * U) * dn * K) by ring. nia.
  - intros E. specialize (Hodd E). destruct Hodd as [O1 O2].
    assert (Em : (m =? 2 ^ 52) = false).
    { apply Z.eqb_neq. intros ->. discriminate E. }
    rewrite Em in O1. cbn [andb] in O1. split.
    + apply (mul_lt_cancel_r _ _ (2 * S)); [lia|].
      replace ((2 * m + 1) * P * dn * (2 * S)) with ((4 * (m * P * S) + 2 * (P * S)) * dn) by ring.
      rewrite <- AK, <- UK. replace (2 * (n * K) * (2 * S)) with (4 * n * S * K) by ring.
      replace ((4 * A * K + 2 * U * K) * dn) with ((4 * A + 2 * U) * dn * K) by ring. nia.
    + apply (mul_lt_cancel_r _ _ (2 * S)); [lia|].
      replace ((2 * m - 1) * P * dn * (2 * S)) with ((4 * (m * P * S) - 2 * (P * S)) * dn) by ring.
      rewrite <- AK, <- UK. replace (2 * (n * K) * (2 * S)) with (4 * n * S * K) by ring.
      replace ((4 * A * K - 2 * U * K) * dn) with ((4 * A - 2 * U) * dn * K) by ring. nia.
Qed.

(* ---------------------------------------------------------------------------------------------
   float_of_dec is complete; the two tests on k never cut a decimal of the interval
   --------------------------------------------------------------------------------------------- *)
Lemma pow10_pos : forall k, 0 < 10 ^ k \/ k < 0.
Proof. intros k. destruct (Z_lt_le_dec k 0); [right; assumption | left; apply Z.pow_pos_nonneg; lia]. Qed.

(* d < 10^(log2 d / 3 + 1) *)
Lemma lt_pow10_log2 : forall d, 0 < d -> d < 10 ^ (Z.log2 d / 3 + 1).
Proof.
  intros d Hd. pose proof (Z.log2_spec d Hd) as [_ H]. pose proof (Z.log2_nonneg d) as Hn.
  pose proof (Z.div_mod (Z.log2 d) 3 ltac:(lia)) as D. pose proof (Z.mod_pos_bound (Z.log2 d) 3 ltac:(lia)) as B.
  set (q := Z.log2 d / 3) in *. assert (Hq : 0 <= q) by (apply Z.div_pos; lia).
  assert (H1 : 2 ^ Z.succ (Z.log2 d) <= 2 ^ (3 * (q + 1))) by (apply Z.pow_le_mono_r; lia).
  rewrite Z.pow_mul_r in H1 by lia. change (2 ^ 3) with 8 in H1.
  assert (H2 : 8 ^ (q + 1) <= 10 ^ (q + 1)) by (apply Z.pow_le_mono_l; lia). lia.
Qed.

Theorem float_of_dec_spec : forall s x d k, fl_pos x -> 0 < d -> in_dec x d k ->
  float_of_dec s d k = Some (mkfl s (fm x) (fe x)).
Proof.
  intros s x d k Hx Hd H. unfold float_of_dec.
  replace (d <=? 0) with false by (symmetry; apply Z.leb_gt; exact Hd).
  assert (Hj : 0 <= fe x + 1074 <= 2045) by (unfold fl_pos in Hx; lia).
  assert (Hm : (0 < fm x < 2 ^ 52 /\ fe x + 1074 = 0) \/ 2 ^ 52 <= fm x < 2 ^ 53) by (unfold fl_pos in Hx; lia).
  assert (HP : 0 < 2 ^ (fe x + 1074)) by (apply Z.pow_pos_nonneg; lia).
  assert (HPu : 2 ^ (fe x + 1074) <= 2 ^ 2045) by (apply Z.pow_le_mono_r; lia).
  assert (Hm53 : 0 < fm x < 2 ^ 53) by lia.
  unfold in_dec in H. destruct (0 <=? k) eqn:K; [apply Z.leb_le in K | apply Z.leb_gt in K].
  - (* k >= 0 *)
    assert (H10 : 0 < 10 ^ k) by (apply Z.pow_pos_nonneg; lia).
    pose proof (in_interval_near x _ 1 Hx ltac:(lia) H) as N.
    destruct (310 <? k) eqn:G1.
    { (* impossible: 10^311 is above every float *)
      exfalso. apply Z.ltb_lt in G1. destruct N as (N1 & _).
      assert (B : 10 ^ 311 <= 10 ^ k) by (apply Z.pow_le_mono_r; lia).
      assert (C : 2 ^ 1024 < 10 ^ 311) by reflexivity.
      assert (E : 2 ^ 1024 * 2 ^ 1074 = 2 ^ 53 * 2 ^ 2045) by reflexivity.
      set (P := 2 ^ (fe x + 1074)) in *. set (m := fm x) in *. set (T := 10 ^ k) in *. clearbody P m T.
      assert (2 * (d * T * 2 ^ 1074) < 2 * (2 ^ 53 * 2 ^ 2045)) by nia. nia. }
    replace (k + Z.log2 d / 3 + 1 <? -330) with false
      by (symmetry; apply Z.ltb_ge; pose proof (Z.log2_nonneg d); assert (0 <= Z.log2 d / 3) by (apply Z.div_pos; lia); lia).
    replace (mkfl s (fm x) (fe x)) with (mkfl s (fm x) (fe x + 1074 - 1074)) by (f_equal; lia).
    apply float_of_ratio_spec; try assumption; try lia; try (apply Z.mul_pos_pos; assumption).
  - (* k < 0 *)
    assert (H10 : 0 < 10 ^ (- k)) by (apply Z.pow_pos_nonneg; lia).
    pose proof (in_interval_near x _ _ Hx H10 H) as N.
    replace (310 <? k) with false by (symmetry; apply Z.ltb_ge; lia).
    destruct (k + Z.log2 d / 3 + 1 <? -330) eqn:G2.
    { (* impossible: below 10^-330 there is only the interval of zero *)
      exfalso. apply Z.ltb_lt in G2. destruct N as (_ & N2 & _).
      assert (N2' : (2 * fm x - 1) * 2 ^ (fe x + 1074) * 10 ^ (- k) <= 2 * (d * 2 ^ 1074)).
      { destruct ((fm x =? 2 ^ 52) && (0 <? fe x + 1074)); [|exact N2].
        set (P := 2 ^ (fe x + 1074)) in *. set (T := 10 ^ (- k)) in *. clearbody P T. nia. }
      pose proof (lt_pow10_log2 d Hd) as L. pose proof (Z.log2_nonneg d) as Ln.
      assert (Lq : 0 <= Z.log2 d / 3) by (apply Z.div_pos; lia).
      set (t := Z.log2 d / 3 + 1) in *.
      assert (E : 10 ^ (- k) = 10 ^ (- k - t) * 10 ^ t) by (rewrite <- Z.pow_add_r by lia; f_equal; lia).
      assert (B : 10 ^ 331 <= 10 ^ (- k - t)) by (apply Z.pow_le_mono_r; lia).
      assert (C : 2 * 2 ^ 1074 < 10 ^ 331) by reflexivity.
      assert (Ht : 0 < 10 ^ t) by (apply Z.pow_pos_nonneg; lia).
      rewrite E in N2'. set (P := 2 ^ (fe x + 1074)) in *. set (m := fm x) in *.
      set (T1 := 10 ^ (- k - t)) in *. set (T2 := 10 ^ t) in *. clearbody P m T1 T2.
      assert (F : T1 * T2 <= (2 * m - 1) * P * (T1 * T2)) by nia.
      assert (F2 : 10 ^ 331 * T2 <= T1 * T2) by nia.
      assert (F3 : 2 * (d * 2 ^ 1074) < 10 ^ 331 * T2) by nia. lia. }
    replace (mkfl s (fm x) (fe x)) with (mkfl s (fm x) (fe x + 1074 - 1074)) by (f_equal; lia).
    apply float_of_ratio_spec; try assumption; lia.
Qed.

(* ---------------------------------------------------------------------------------------------
   (2) scan: dlo .. dhi are exactly the multiples of 10^k in the interval
   --------------------------------------------------------------------------------------------- *)
Section Floor.
Variables N D q r : Z.
Hypothesis HD : 0 < D.
Hypothesis HN : N = D * q + r.
Hypothesis Hr : 0 <= r < D.

Lemma floor_le : forall c, c <= q <-> c * D <= N.
Proof. intros c. split; intros H; [nia|]. assert (c * D < (q + 1) * D) by nia. apply mul_lt_cancel_r in H0; lia. Qed.
Lemma floor_lt : forall c, c <= (if r =? 0 then q - 1 else q) <-> c * D < N.
Proof.
  intros c. destruct (r =? 0) eqn:E; [apply Z.eqb_eq in E | apply Z.eqb_neq in E].
  - split; intros H; [nia|]. assert (c * D < q * D) by nia. apply mul_lt_cancel_r in H0; lia.
  - split; intros H; [nia|]. assert (c * D < (q + 1) * D) by nia. apply mul_lt_cancel_r in H0; lia.
Qed.
Lemma ceil_le : forall c, (if r =? 0 then q else q + 1) <= c <-> N <= c * D.
Proof.
  intros c. destruct (r =? 0) eqn:E; [apply Z.eqb_eq in E | apply Z.eqb_neq in E].
  - split; intros H; [nia|]. assert (q * D <= c * D) by nia. apply mul_le_cancel_r in H0; lia.
  - split; intros H; [nia|]. assert (q * D < c * D) by nia. apply mul_lt_cancel_r in H0; lia.
Qed.
Lemma ceil_lt : forall c, q + 1 <= c <-> N < c * D.
Proof. intros c. split; intros H; [nia|]. assert (q * D < c * D) by nia. apply mul_lt_cancel_r in H0; lia. Qed.
End Floor.

(* numerator and denominator of  num / 2^sh / 10^k *)
Definition sc_num (num k pw : Z) : Z := if 0 <=? k then num else num * pw.
Definition sc_den (sh k pw : Z) : Z := if 0 <=? k then pw * 2 ^ sh else 2 ^ sh.

Lemma scaled_div_spec : forall num sh k pw, 0 <= sh -> 0 < pw ->
  scaled_div num sh k pw = (sc_num num k pw / sc_den sh k pw, sc_num num k pw mod sc_den sh k pw =? 0).
Proof.
  intros num sh k pw Hsh Hpw. unfold scaled_div, sc_num, sc_den.
  assert (HP : 0 < 2 ^ sh) by (apply Z.pow_pos_nonneg; lia).
  destruct (0 <=? k).
  - rewrite div_eucl_div_mod. rewrite Z.shiftr_div_pow2, Z.land_ones by exact Hsh.
    rewrite Z.div_div by lia. f_equal. rewrite Z.rem_mul_r by lia.
    pose proof (Z.mod_pos_bound num pw Hpw) as B1. pose proof (Z.mod_pos_bound (num / pw) (2 ^ sh) HP) as B2.
    set (a := num mod pw) in *. set (b := (num / pw) mod 2 ^ sh) in *. clearbody a b.
    destruct (a =? 0) eqn:Ea; [apply Z.eqb_eq in Ea | apply Z.eqb_neq in Ea].
    + subst a. cbn [andb]. rewrite Z.add_0_l.
      destruct (b =? 0) eqn:Eb; [apply Z.eqb_eq in Eb; subst b; rewrite Z.mul_0_r; reflexivity|].
      apply Z.eqb_neq in Eb. symmetry. apply Z.eqb_neq. nia.
    + cbn [andb]. symmetry. apply Z.eqb_neq. nia.
  - rewrite Z.shiftr_div_pow2, Z.land_ones by exact Hsh. reflexivity.
Qed.

Lemma in_dec_units : forall x c k, fl_pos x ->
  let pw := 10 ^ Z.abs k in let sh := fl_sh x + 2 in
  in_dec x c k <->
  (sc_num (lo4 x) k pw <= c * sc_den sh k pw <= sc_num (hi4 x) k pw /\
   (Z.even (fm x) = false -> sc_num (lo4 x) k pw < c * sc_den sh k pw < sc_num (hi4 x) k pw)).
Proof.
  intros x c k Hx pw sh. unfold in_dec, in_interval, sc_num, sc_den, pw, sh.
  assert (Hsh : 0 <= fl_sh x) by (unfold fl_sh; destruct (0 <=? fe x) eqn:E; [lia | apply Z.leb_gt in E; lia]).
  rewrite Z.pow_add_r by lia. change (2 ^ 2) with 4.
  destruct (0 <=? k) eqn:K; [apply Z.leb_le in K | apply Z.leb_gt in K].
  - rewrite Z.abs_eq by exact K. rewrite !Z.mul_1_r.
    replace (c * (10 ^ k * (2 ^ fl_sh x * 4))) with (4 * (c * 10 ^ k) * 2 ^ fl_sh x) by ring. reflexivity.
  - rewrite Z.abs_neq by lia.
    replace (c * (2 ^ fl_sh x * 4)) with (4 * c * 2 ^ fl_sh x) by ring. reflexivity.
Qed.

Lemma scan_spec : forall x k qx dlo dhi, fl_pos x -> scan x k = (qx, dlo, dhi) ->
  let pw := 10 ^ Z.abs k in let sh := fl_sh x + 2 in
  qx = sc_num (4 * fl_num x) k pw / sc_den sh k pw /\
  (forall c, dlo <= c <= dhi <-> in_dec x c k).
Proof.
  intros x k qx dlo dhi Hx H pw sh.
  assert (Hsh : 0 <= sh) by (unfold sh, fl_sh; destruct (0 <=? fe x) eqn:E; [lia | apply Z.leb_gt in E; lia]).
  assert (Hpw : 0 < pw) by (unfold pw; apply Z.pow_pos_nonneg; [lia | apply Z.abs_nonneg]).
  unfold scan in H. fold pw in H. fold sh in H.
  rewrite !scaled_div_spec in H by assumption. cbv beta iota zeta in H.
  fold (hi4 x) in H. fold (lo4 x) in H.
  assert (HD : 0 < sc_den sh k pw).
  { unfold sc_den. assert (0 < 2 ^ sh) by (apply Z.pow_pos_nonneg; lia). destruct (0 <=? k); nia. }
  set (D := sc_den sh k pw) in *.
  set (hN := sc_num (hi4 x) k pw) in *. set (lN := sc_num (lo4 x) k pw) in *.
  pose proof (Z.div_mod hN D ltac:(lia)) as Dh. pose proof (Z.mod_pos_bound hN D HD) as Bh.
  pose proof (Z.div_mod lN D ltac:(lia)) as Dl. pose proof (Z.mod_pos_bound lN D HD) as Bl.
  inversion H as [[Hq Hl Hh]]. clear H. split; [reflexivity|].
  intros c. rewrite (in_dec_units x c k Hx). fold pw sh D hN lN.
  pose proof (floor_le hN D (hN / D) (hN mod D) HD Dh Bh c) as F1.
  pose proof (floor_lt hN D (hN / D) (hN mod D) HD Dh Bh c) as F2.
  pose proof (ceil_le lN D (lN / D) (lN mod D) HD Dl Bl c) as C1.
  pose proof (ceil_lt lN D (lN / D) (lN mod D) HD Dl Bl c) as C2.
  destruct (Z.even (fm x)) eqn:Ev; cbn [negb andb] in *.
  - (* closed interval *)
    rewrite andb_false_r. rewrite andb_true_r.
    destruct (lN mod D =? 0); split; intros G; (split; [lia | intros; discriminate]) || lia.
  - (* open interval *)
    rewrite andb_true_r, andb_false_r.
    destruct (hN mod D =? 0); split; intros G; (split; [lia | intros; lia]) || (destruct G as [_ G]; specialize (G eq_refl); lia).
Qed.

(* ---------------------------------------------------------------------------------------------
   (3) scan17: |x| / 10^k17 >= 10^16
   --------------------------------------------------------------------------------------------- *)
(* 10^t <= |x| *)
Definition pow10_le_x (x : fl) (t : Z) : Prop :=
  if 0 <=? t then 10 ^ t * 2 ^ fl_sh x <= fl_num x else 2 ^ fl_sh x <= fl_num x * 10 ^ (- t).

Lemma fl_sh_nonneg : forall x, 0 <= fl_sh x.
Proof. intros x. unfold fl_sh. destruct (0 <=? fe x) eqn:E; [lia | apply Z.leb_gt in E; lia]. Qed.

(* 10^a <= qx(k)  <->  10^(a+k) <= |x| *)
Lemma qx_ge_pow10 : forall x k a, 0 <= a ->
  let pw := 10 ^ Z.abs k in let sh := fl_sh x + 2 in
  10 ^ a <= sc_num (4 * fl_num x) k pw / sc_den sh k pw <-> pow10_le_x x (a + k).
Proof.
  intros x k a Ha pw sh. pose proof (fl_sh_nonneg x) as Hs.
  assert (HS : 0 < 2 ^ fl_sh x) by (apply Z.pow_pos_nonneg; lia).
  assert (Hpw : 0 < pw) by (unfold pw; apply Z.pow_pos_nonneg; [lia | apply Z.abs_nonneg]).
  assert (H10a : 0 < 10 ^ a) by (apply Z.pow_pos_nonneg; lia).
  assert (HD : 0 < sc_den sh k pw).
  { unfold sc_den, sh. assert (0 < 2 ^ (fl_sh x + 2)) by (apply Z.pow_pos_nonneg; lia). destruct (0 <=? k); nia. }
  pose proof (Z.div_mod (sc_num (4 * fl_num x) k pw) (sc_den sh k pw) ltac:(lia)) as Dm.
  pose proof (Z.mod_pos_bound (sc_num (4 * fl_num x) k pw) (sc_den sh k pw) HD) as Bm.
  rewrite (floor_le _ _ _ _ HD Dm Bm (10 ^ a)).
  unfold sc_num, sc_den, sh, pw, pow10_le_x. rewrite Z.pow_add_r by lia. change (2 ^ 2) with 4.
  set (S := 2 ^ fl_sh x) in *. set (A := fl_num x). clearbody S A.
  destruct (0 <=? k) eqn:K; [apply Z.leb_le in K | apply Z.leb_gt in K].
  - rewrite Z.abs_eq by exact K. replace (0 <=? a + k) with true by (symmetry; apply Z.leb_le; lia).
    rewrite Z.pow_add_r by lia. assert (0 < 10 ^ k) by (apply Z.pow_pos_nonneg; lia).
    set (T := 10 ^ k) in *. set (Ta := 10 ^ a) in *. clearbody T Ta. split; intros G; nia.
  - rewrite Z.abs_neq by lia. assert (H10k : 0 < 10 ^ (- k)) by (apply Z.pow_pos_nonneg; lia).
    destruct (0 <=? a + k) eqn:AK; [apply Z.leb_le in AK | apply Z.leb_gt in AK].
    + assert (E : 10 ^ a = 10 ^ (a + k) * 10 ^ (- k)) by (rewrite <- Z.pow_add_r by lia; f_equal; lia).
      rewrite E. assert (0 < 10 ^ (a + k)) by (apply Z.pow_pos_nonneg; lia).
      set (T := 10 ^ (- k)) in *. set (Tb := 10 ^ (a + k)) in *. clearbody T Tb.
      split; intros G.
      * apply (mul_le_cancel_r _ _ (4 * T)); [lia|]. nia.
      * nia.
    + assert (E : 10 ^ (- k) = 10 ^ a * 10 ^ (- (a + k))) by (rewrite <- Z.pow_add_r by lia; f_equal; lia).
      rewrite E. assert (0 < 10 ^ (- (a + k))) by (apply Z.pow_pos_nonneg; lia).
      set (Ta := 10 ^ a) in *. set (Tb := 10 ^ (- (a + k))) in *. clearbody Ta Tb.
      split; intros G.
      * apply (mul_le_cancel_r _ _ (4 * Ta)); [lia|]. nia.
      * nia.
Qed.

(* the estimate of log10 is at most one too large: 10^(est-1) <= 2^bits for every binary exponent of a binary64 value *)
Definition est_check (bits : Z) : bool :=
  let t := bits * 1233 / 4096 - 1 in
  10 ^ Z.max t 0 * 2 ^ Z.max (- bits) 0 <=? 2 ^ Z.max bits 0 * 10 ^ Z.max (- t) 0.
Lemma est_check_all : forallb est_check (map (fun i => Z.of_nat i - 1074) (seq 0 2098)) = true.
Proof. vm_compute. reflexivity. Qed.
Lemma est_check_range : forall bits, -1074 <= bits <= 1023 -> est_check bits = true.
Proof.
  intros bits H. pose proof est_check_all as A. rewrite forallb_forall in A. apply A.
  apply in_map_iff. exists (Z.to_nat (bits + 1074)). split; [lia|]. apply in_seq. lia.
Qed.

(* 2^bits <= |x|, bits = log2 m + e *)
Lemma pow2_le_x : forall x, fl_pos x ->
  let bits := Z.log2 (fm x) + fe x in
  2 ^ Z.max bits 0 * 2 ^ fl_sh x <= fl_num x * 2 ^ Z.max (- bits) 0.
Proof.
  intros x Hx bits. assert (Hm : 0 < fm x) by (unfold fl_pos in Hx; lia).
  pose proof (Z.log2_spec (fm x) Hm) as [L _]. pose proof (Z.log2_nonneg (fm x)) as Ln.
  unfold bits, fl_num, fl_sh. set (l := Z.log2 (fm x)) in *. set (m := fm x) in *. clearbody l m.
  destruct (0 <=? fe x) eqn:E; [apply Z.leb_le in E | apply Z.leb_gt in E].
  - rewrite Z.shiftl_mul_pow2 by exact E. rewrite Z.max_l, Z.max_r by lia. change (2 ^ 0) with 1.
    rewrite Z.pow_add_r by lia. assert (0 < 2 ^ fe x) by (apply Z.pow_pos_nonneg; lia). nia.
  - destruct (Z_le_gt_dec 0 (l + fe x)) as [G | G].
    + rewrite Z.max_l, Z.max_r by lia. change (2 ^ 0) with 1. rewrite <- Z.pow_add_r by lia.
      replace (l + fe x + - fe x) with l by lia. lia.
    + rewrite Z.max_r, Z.max_l by lia. change (2 ^ 0) with 1.
      assert (Ee : 2 ^ (- fe x) = 2 ^ l * 2 ^ (- (l + fe x))) by (rewrite <- Z.pow_add_r by lia; f_equal; lia).
      rewrite Ee. assert (0 < 2 ^ (- (l + fe x))) by (apply Z.pow_pos_nonneg; lia). nia.
Qed.

Lemma estimate_ok : forall x, fl_pos x -> pow10_le_x x (log10_estimate x - 1).
Proof.
  intros x Hx. unfold log10_estimate. pose proof (pow2_le_x x Hx) as P. cbv zeta in P.
  assert (Hm : 0 < fm x < 2 ^ 53) by (unfold fl_pos in Hx; lia).
  assert (Hl : 0 <= Z.log2 (fm x) < 53).
  { split; [apply Z.log2_nonneg|]. apply Z.log2_lt_pow2; lia. }
  assert (Hb : -1074 <= Z.log2 (fm x) + fe x <= 1023).
  { destruct Hx as [[H1 H2] | [H1 H2]]; [|lia].
    assert (Z.log2 (fm x) = 52) by (apply Z.log2_unique; [lia | change (2 ^ Z.succ 52) with (2 ^ 53); lia]). lia. }
  pose proof (est_check_range _ Hb) as C. unfold est_check in C. apply Z.leb_le in C.
  set (bits := Z.log2 (fm x) + fe x) in *. set (t := bits * 1233 / 4096 - 1) in *.
  pose proof (fl_sh_nonneg x) as Hs. assert (HS : 0 < 2 ^ fl_sh x) by (apply Z.pow_pos_nonneg; lia).
  assert (Hnb : 0 < 2 ^ Z.max (- bits) 0) by (apply Z.pow_pos_nonneg; lia).
  assert (Hpb : 0 < 2 ^ Z.max bits 0) by (apply Z.pow_pos_nonneg; lia).
  unfold pow10_le_x. set (S := 2 ^ fl_sh x) in *. set (A := fl_num x) in *.
  set (nb := 2 ^ Z.max (- bits) 0) in *. set (pb := 2 ^ Z.max bits 0) in *.
  destruct (0 <=? t) eqn:T; [apply Z.leb_le in T | apply Z.leb_gt in T].
  - rewrite Z.max_l in C by lia. rewrite (Z.max_r (- t) 0) in C by lia. change (10 ^ 0) with 1 in C.
    set (Tt := 10 ^ t) in *. clearbody S A nb pb Tt.
    apply (mul_le_cancel_r _ _ nb); [lia|]. nia.
  - rewrite (Z.max_r t 0) in C by lia. rewrite (Z.max_l (- t) 0) in C by lia. change (10 ^ 0) with 1 in C.
    assert (0 < 10 ^ (- t)) by (apply Z.pow_pos_nonneg; lia).
    set (Tt := 10 ^ (- t)) in *. clearbody S A nb pb Tt.
    apply (mul_le_cancel_r _ _ nb); [lia|]. nia.
Qed.

Lemma scan17_spec : forall x k17 qx dlo dhi, fl_pos x -> scan17 x = (k17, (qx, dlo, dhi)) ->
  scan x k17 = (qx, dlo, dhi) /\ 10 ^ 16 <= qx.
Proof.
  intros x k17 qx dlo dhi Hx H. unfold scan17 in H.
  set (k0 := log10_estimate x - 16) in *.
  destruct (scan x k0) as [[qx0 dlo0] dhi0] eqn:S0.
  destruct (scan_spec x k0 qx0 dlo0 dhi0 Hx S0) as [Q0 _]. cbv zeta in Q0.
  destruct (10 ^ 17 <=? qx0) eqn:E1.
  - apply Z.leb_le in E1. inversion H as [[Hk Hs]]. split; [reflexivity|].
    destruct (scan_spec x (k0 + 1) qx dlo dhi Hx Hs) as [Q1 _]. cbv zeta in Q1.
    rewrite Q1. apply (qx_ge_pow10 x (k0 + 1) 16); [lia|].
    replace (16 + (k0 + 1)) with (17 + k0) by lia. apply (qx_ge_pow10 x k0 17); [lia|]. rewrite <- Q0. exact E1.
  - destruct (qx0 <? 10 ^ 16) eqn:E2.
    + inversion H as [[Hk Hs]]. split; [reflexivity|].
      destruct (scan_spec x (k0 - 1) qx dlo dhi Hx Hs) as [Q1 _]. cbv zeta in Q1.
      rewrite Q1. apply (qx_ge_pow10 x (k0 - 1) 16); [lia|].
      replace (16 + (k0 - 1)) with (log10_estimate x - 1) by (unfold k0; lia). apply estimate_ok; exact Hx.
    + apply Z.ltb_ge in E2. inversion H; subst. split; [exact S0 | exact E2].
Qed.

(* ---------------------------------------------------------------------------------------------
   (4) with 17 digits one of the two neighbours is in the interval; the search succeeds
   --------------------------------------------------------------------------------------------- *)
Lemma sc_num_mul : forall num k pw, sc_num num k pw = num * (if 0 <=? k then 1 else pw).
Proof. intros. unfold sc_num. destruct (0 <=? k); ring. Qed.

Lemma exists_17 : forall x k qx dlo dhi, fl_pos x -> scan x k = (qx, dlo, dhi) -> 10 ^ 16 <= qx ->
  dlo <= qx <= dhi \/ dlo <= qx + 1 <= dhi.
Proof.
  intros x k qx dlo dhi Hx Hs Hq. destruct (scan_spec x k qx dlo dhi Hx Hs) as [Q R]. cbv zeta in Q, R.
  rewrite !R, !(in_dec_units x _ k Hx). cbv zeta.
  assert (He : -1074 <= fe x) by (unfold fl_pos in Hx; lia).
  destruct (fl_units x He) as (_ & _ & FA & HU & _).
  assert (Hm : 0 < fm x < 2 ^ 53) by (unfold fl_pos in Hx; lia).
  set (pw := 10 ^ Z.abs k) in *. set (sh := fl_sh x + 2) in *.
  assert (Hsh : 0 <= sh) by (unfold sh; pose proof (fl_sh_nonneg x); lia).
  assert (Hpw : 0 < pw) by (unfold pw; apply Z.pow_pos_nonneg; [lia | apply Z.abs_nonneg]).
  assert (HD : 0 < sc_den sh k pw).
  { unfold sc_den. assert (0 < 2 ^ sh) by (apply Z.pow_pos_nonneg; lia). destruct (0 <=? k); nia. }
  pose proof (Z.div_mod (sc_num (4 * fl_num x) k pw) (sc_den sh k pw) ltac:(lia)) as Dm.
  pose proof (Z.mod_pos_bound (sc_num (4 * fl_num x) k pw) (sc_den sh k pw) HD) as Bm.
  rewrite <- Q in Dm. rewrite !sc_num_mul in *. unfold lo4, hi4.
  assert (Hsf : 0 < (if 0 <=? k then 1 else pw)) by (destruct (0 <=? k); lia).
  set (sf := if 0 <=? k then 1 else pw) in *. set (D := sc_den sh k pw) in *.
  set (r := (4 * fl_num x * sf) mod D) in *. rewrite FA in *.
  set (U := fl_ulp x) in *. set (m := fm x) in *.
  assert (HUs : 0 < U * sf) by (apply Z.mul_pos_pos; assumption).
  assert (E16 : 2 ^ 53 < 10 ^ 16) by reflexivity.
  destruct ((m =? 2 ^ 52) && (-1074 <? fe x)) eqn:Qt.
  - apply andb_prop in Qt. destruct Qt as [Qm _]. apply Z.eqb_eq in Qm.
    clearbody sf D r U m pw sh. subst m.
    assert (HDs : D < 3 * (U * sf)) by nia.
    destruct (Z_lt_le_dec ((4 * (2 ^ 52 * U) - U) * sf) (qx * D)) as [G | G].
    + left. split; [nia | intros _; nia].
    + right. split; [nia | intros _; nia].
  - clearbody sf D r U m pw sh.
    assert (HDs : D < 4 * (U * sf)) by nia.
    destruct (Z_lt_le_dec ((4 * (m * U) - 2 * U) * sf) (qx * D)) as [G | G].
    + left. split; [nia | intros _; nia].
    + right. split; [nia | intros _; nia].
Qed.

Lemma pick_range : forall x k17 qx dlo dhi h c, pick x k17 qx dlo dhi h = Some c -> dlo <= c <= dhi.
Proof.
  intros x k17 qx dlo dhi h c H. unfold pick in H.
  set (c1 := qx / h * h) in *. set (c2 := c1 + h) in *.
  destruct ((dlo <=? c1) && (c1 <=? dhi)) eqn:O1; destruct ((dlo <=? c2) && (c2 <=? dhi)) eqn:O2; cbn [andb] in H;
    try discriminate H;
    try (apply andb_prop in O1; destruct O1 as [A1 B1]; apply Z.leb_le in A1; apply Z.leb_le in B1);
    try (apply andb_prop in O2; destruct O2 as [A2 B2]; apply Z.leb_le in A2; apply Z.leb_le in B2).
  - destruct (lower_is_nearer x k17 c1 h); inversion H; subst; lia.
  - inversion H; subst; lia.
  - inversion H; subst; lia.
Qed.

Lemma pick_one : forall x k17 qx dlo dhi, dlo <= qx <= dhi \/ dlo <= qx + 1 <= dhi ->
  pick x k17 qx dlo dhi 1 <> None.
Proof.
  intros x k17 qx dlo dhi H. unfold pick. rewrite Z.div_1_r, Z.mul_1_r.
  destruct ((dlo <=? qx) && (qx <=? dhi)) eqn:O1; destruct ((dlo <=? qx + 1) && (qx + 1 <=? dhi)) eqn:O2;
    cbn [andb]; try discriminate.
  exfalso. apply andb_false_iff in O1. apply andb_false_iff in O2.
  rewrite !Z.leb_gt in O1, O2. lia.
Qed.

Lemma search_digits_found : forall x k17 qx dlo dhi hs, In 1 hs -> pick x k17 qx dlo dhi 1 <> None ->
  exists c, search_digits x k17 qx dlo dhi hs = Some c.
Proof.
  induction hs as [|h hs IH]; intros Hin Hp; [destruct Hin|]. cbn [search_digits].
  destruct (pick x k17 qx dlo dhi h) as [c|] eqn:P; [exists c; reflexivity|].
  destruct Hin as [->|Hin]; [congruence|]. apply IH; assumption.
Qed.

Lemma search_digits_range : forall x k17 qx dlo dhi hs c,
  search_digits x k17 qx dlo dhi hs = Some c -> dlo <= c <= dhi.
Proof.
  induction hs as [|h hs IH]; intros c H; [discriminate H|]. cbn [search_digits] in H.
  destruct (pick x k17 qx dlo dhi h) as [c'|] eqn:P; [|apply IH; exact H].
  inversion H; subst. exact (pick_range _ _ _ _ _ _ _ P).
Qed.

(* ---- the value of a decimal does not depend on how it is written ---- *)
Lemma in_interval_scale : forall x n dn c, 0 < c -> (in_interval x (c * n) (c * dn) <-> in_interval x n dn).
Proof.
  intros x n dn c Hc. unfold in_interval.
  set (L := lo4 x). set (H := hi4 x). set (S := 2 ^ fl_sh x). clearbody L H S.
  replace (L * (c * dn)) with (L * dn * c) by ring. replace (H * (c * dn)) with (H * dn * c) by ring.
  replace (4 * (c * n) * S) with (4 * n * S * c) by ring.
  split; intros ((A & B) & C).
  - split; [split; [apply (mul_le_cancel_r _ _ c); assumption | apply (mul_le_cancel_r _ _ c); assumption]|].
    intros E. destruct (C E) as [C1 C2]. split; apply (mul_lt_cancel_r _ _ c); assumption.
  - split; [split; nia|]. intros E. destruct (C E) as [C1 C2]. split; nia.
Qed.

Lemma in_dec_shift : forall x d k, in_dec x (10 * d) k <-> in_dec x d (k + 1).
Proof.
  intros x d k. unfold in_dec.
  destruct (0 <=? k) eqn:K; [apply Z.leb_le in K | apply Z.leb_gt in K].
  - replace (0 <=? k + 1) with true by (symmetry; apply Z.leb_le; lia).
    replace (d * 10 ^ (k + 1)) with (10 * d * 10 ^ k); [reflexivity|].
    rewrite Z.pow_add_r by lia. change (10 ^ 1) with 10. ring.
  - destruct (0 <=? k + 1) eqn:K1; [apply Z.leb_le in K1 | apply Z.leb_gt in K1].
    + assert (k = -1) by lia. subst k. change (10 ^ (- -1)) with 10. change (-1 + 1) with 0.
      change (10 ^ 0) with 1. rewrite Z.mul_1_r.
      pose proof (in_interval_scale x d 1 10 ltac:(lia)) as E. rewrite Z.mul_1_r in E. exact E.
    + replace (10 ^ (- k)) with (10 * 10 ^ (- (k + 1))).
      * apply in_interval_scale. lia.
      * replace (- k) with (Z.succ (- (k + 1))) by lia. rewrite Z.pow_succ_r by lia. reflexivity.
Qed.

Lemma strip_zeros_in_dec : forall x fuel d k, 0 < d -> in_dec x d k ->
  0 < fst (strip_zeros fuel d k) /\ in_dec x (fst (strip_zeros fuel d k)) (snd (strip_zeros fuel d k)).
Proof.
  induction fuel as [|f IH]; intros d k Hd H; cbn [strip_zeros]; [split; assumption|].
  destruct ((0 <? d) && (d mod 10 =? 0)) eqn:E; [|split; assumption].
  apply andb_prop in E. destruct E as [_ E]. apply Z.eqb_eq in E.
  pose proof (Z.div_mod d 10 ltac:(lia)) as D. rewrite E, Z.add_0_r in D.
  apply IH; [lia|]. apply in_dec_shift. rewrite <- D. exact H.
Qed.

Lemma as_parsed_in_dec : forall x d k, 0 < d -> in_dec x d k ->
  0 < fst (as_parsed d k) /\ in_dec x (fst (as_parsed d k)) (snd (as_parsed d k)).
Proof.
  intros x d k Hd H. unfold as_parsed.
  destruct (negb (use_exp (decpt_of d k)) && (0 <=? k)) eqn:E; cbn [fst snd]; [|split; assumption].
  apply andb_prop in E. destruct E as [_ K]. apply Z.leb_le in K.
  assert (0 < 10 ^ (k + 1)) by (apply Z.pow_pos_nonneg; lia). split; [nia|].
  unfold in_dec in *. replace (0 <=? k) with true in H by (symmetry; apply Z.leb_le; exact K).
  change (0 <=? -1) with false. cbv iota. change (10 ^ (- -1)) with 10.
  replace (d * 10 ^ (k + 1)) with (10 * (d * 10 ^ k)).
  - pose proof (in_interval_scale x (d * 10 ^ k) 1 10 ltac:(lia)) as E. rewrite Z.mul_1_r in E. apply E. exact H.
  - rewrite Z.pow_add_r by lia. change (10 ^ 1) with 10. ring.
Qed.

Lemma in_dec_pos : forall x c k, fl_pos x -> in_dec x c k -> 0 < c.
Proof.
  intros x c k Hx H. assert (He : -1074 <= fe x) by (unfold fl_pos in Hx; lia).
  destruct (fl_units x He) as (_ & _ & FA & HU & HS).
  assert (Hm : 0 < fm x) by (unfold fl_pos in Hx; lia).
  assert (HL : 0 < lo4 x).
  { unfold lo4. rewrite FA. destruct ((fm x =? 2 ^ 52) && (-1074 <? fe x)); nia. }
  unfold in_dec, in_interval in H. set (S := 2 ^ fl_sh x) in *. set (L := lo4 x) in *. clearbody S L.
  destruct (0 <=? k) eqn:K; [apply Z.leb_le in K | apply Z.leb_gt in K]; destruct H as ((H & _) & _).
  - assert (0 < 10 ^ k) by (apply Z.pow_pos_nonneg; lia). nia.
  - assert (0 < 10 ^ (- k)) by (apply Z.pow_pos_nonneg; lia). nia.
Qed.

(* ---------------------------------------------------------------------------------------------
   the theorem: the search succeeds on every binary64 value
   --------------------------------------------------------------------------------------------- *)
Theorem shortest_found_all : forall x, fl_ok x -> shortest_found x.
Proof.
  intros x Hok. unfold shortest_found, shortest_foundb, shortest_dec.
  destruct (fm x =? 0) eqn:E0; [reflexivity|]. apply Z.eqb_neq in E0.
  assert (Hx : fl_pos x) by (unfold fl_ok in Hok; unfold fl_pos; lia).
  destruct (scan17 x) as [k17 [[qx dlo] dhi]] eqn:S17.
  destruct (scan17_spec x k17 qx dlo dhi Hx S17) as [Hs Hq].
  pose proof (exists_17 x k17 qx dlo dhi Hx Hs Hq) as Hex.
  destruct (search_digits_found x k17 qx dlo dhi steps) as [c Hc].
  { unfold steps. repeat (try (left; reflexivity); right). }
  { apply pick_one; exact Hex. }
  rewrite Hc. pose proof (search_digits_range _ _ _ _ _ _ _ Hc) as Hr.
  destruct (scan_spec x k17 qx dlo dhi Hx Hs) as [_ R]. cbv zeta in R. apply R in Hr.
  pose proof (in_dec_pos x c k17 Hx Hr) as Hc0.
  destruct (strip_zeros_in_dec x 17 c k17 Hc0 Hr) as [Hd Hin].
  destruct (strip_zeros 17 c k17) as [d k]. cbn [fst snd] in Hd, Hin.
  destruct (as_parsed_in_dec x d k Hd Hin) as [Hd' Hin'].
  unfold converts_back. destruct (as_parsed d k) as [d' k']. cbn [fst snd] in Hd', Hin'.
  replace (0 <? d) with true by (symmetry; apply Z.ltb_lt; exact Hd). cbn [andb].
  rewrite (float_of_dec_spec (fsign x) x d' k' Hx Hd' Hin').
  replace (mkfl (fsign x) (fm x) (fe x)) with x by (destruct x; reflexivity).
  rewrite fl_eqb_refl. reflexivity.
Qed.

(* float(repr(x)) = x for EVERY binary64 value *)
Theorem py_float_roundtrip_all : forall x, fl_ok x -> py_float_of (py_str_float x) = Some x.
Proof. intros x H. apply py_float_roundtrip; [exact H | apply shortest_found_all; exact H]. Qed.

(* hence okfl, the float type of the CSV corollaries csv_*_float_concrete of FloatTextProofs.v, holds EVERY canonical
   binary64 value: the test shortest_foundb in okflb is always passed *)
Theorem okflb_all : forall x, fl_okb x = true -> okflb x = true.
Proof.
  intros x H. unfold okflb. rewrite H. cbn [andb]. apply shortest_found_all. apply fl_okb_ok. exact H.
Qed.
Definition okfl_make (x : fl) (H : fl_okb x = true) : okfl := exist _ x (okflb_all x H).
Lemma okfl_make_val : forall x H, okfl_val (okfl_make x H) = x.
Proof. reflexivity. Qed.
(* float(text) of the model, when it gives a canonical value, is what okfl_of gives *)
Theorem okfl_of_spec : forall t y, py_float_of t = Some y -> fl_okb y = true ->
  exists o, okfl_of t = Some o /\ okfl_val o = y.
Proof.
  intros t y Ht Hy. exists (okfl_make y Hy). split; [|reflexivity].
  unfold okfl_of. rewrite Ht. exact (okfl_check_val (okfl_make y Hy)).
Qed.

Print Assumptions shortest_found_all.
Print Assumptions py_float_roundtrip_all.
Print Assumptions float_of_dec_spec.
Print Assumptions okflb_all.
