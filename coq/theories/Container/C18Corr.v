(* Correspondence checker for C18: does the model (Container/Csv.v) reproduce the lines csv.dump emitted,
   the file dump_to_file wrote, the chunks file.read delivered and the rows csv.load / load_from_file
   returned (or the point at which it errored)?  Executable only.

   Numbers: a float value is carried as its float.hex() text; str(n), str(x), int(text), float(text)
   are tables computed by CPython for the numbers of the case (the oracle).  The checker also
   validates on those numbers the laws that props/C18.v assumes (round trip, printed form). *)
From Coq Require Import List ZArith NArith Bool.
From RxVerif Require Import Base.Corr Framing.Line Container.Csv Container.IntText Container.FloatText.
Import ListNotations.

Definition fl := list Z.                       (* float.hex() *)
Definition val := value fl.

Record tabs := mkTabs {
  t_istr : list (Z * list Z);                  (* n        , str(n)            *)
  t_ipar : list (list Z * Z);                  (* text     , int(text)         *)
  t_fstr : list (fl * list Z);                 (* hex(x)   , str(x)            *)
  t_fpar : list (list Z * fl);                 (* text     , hex(float(text))  *)
  t_ftri : list ((bool * Z * Z) * list Z)      (* (sign, mantissa, exponent) of x, str(x): the float layer of FloatText.v *)
}.

Definition tab_str_int (tb : tabs) (n : Z) : list Z :=
  match find (fun e => Z.eqb (fst e) n) (t_istr tb) with Some e => snd e | None => [] end.
Definition tab_int_of (tb : tabs) (t : list Z) : option Z :=
  option_map snd (find (fun e => zs_eqb (fst e) t) (t_ipar tb)).
Definition tab_str_float (tb : tabs) (x : fl) : list Z :=
  match find (fun e => zs_eqb (fst e) x) (t_fstr tb) with Some e => snd e | None => [] end.
Definition tab_float_of (tb : tabs) (t : list Z) : option fl :=
  option_map snd (find (fun e => zs_eqb (fst e) t) (t_fpar tb)).

(* the laws assumed by the theorems, checked on the numbers of the case *)
Fixpoint contains (sep t : list Z) : bool :=
  is_prefix sep t || match t with [] => false | _ :: r => contains sep r end.
Definition printed_okb (sep t : list Z) : bool :=
  negb (is_empty t) && negb (contains sep t) && negb (first_is_quote t) && negb (contains [newline] t).
(* the int half of the number layer is concrete (Container/IntText.v, laws proved in IntTextProofs.v): CPython's
   str(n) must be py_str_int n, and int(text) must be what py_int_of says wherever py_int_of is defined *)
Definition int_layer_ok (tb : tabs) : bool :=
  forallb (fun e => zs_eqb (py_str_int (fst e)) (snd e)) (t_istr tb)
  && forallb (fun e => match py_int_of (fst e) with Some z => Z.eqb z (snd e) | None => true end) (t_ipar tb).
(* the float half is concrete too (Container/FloatText.v, laws proved in FloatTextProofs.v / FloatTextShortest.v):
   CPython's str(x) must be py_str_float x and float(str(x)) must be what py_float_of says, for every float of the case *)
Definition float_layer_ok (tb : tabs) : bool :=
  forallb (fun e => let '(s, m, ex) := fst e in
                    let x := mkfl s m ex in
                    fl_okb x && zs_eqb (py_str_float x) (snd e)
                    && match py_float_of (snd e) with Some y => fl_eqb y x | None => false end) (t_ftri tb).
Definition laws_ok (sep : list Z) (tb : tabs) : bool :=
  int_layer_ok tb && float_layer_ok tb &&
  forallb (fun e => printed_okb sep (snd e) && option_eqb Z.eqb (tab_int_of tb (snd e)) (Some (fst e))) (t_istr tb)
  && forallb (fun e => printed_okb sep (snd e) && option_eqb zs_eqb (tab_float_of tb (snd e)) (Some (fst e))) (t_fstr tb).

Definition val_eqb (a b : val) : bool :=
  match a, b with
  | VNone, VNone => true
  | VInt x, VInt y => Z.eqb x y
  | VFloat x, VFloat y => zs_eqb x y
  | VBool x, VBool y => Bool.eqb x y
  | VStr x, VStr y => zs_eqb x y
  | _, _ => false
  end.
Definition rows_eqb := list_eqb (list_eqb val_eqb).
Definition result_eqb (a b : list (list val) * bool) : bool :=
  rows_eqb (fst a) (fst b) && Bool.eqb (snd a) (snd b).

(* run-length segments: long periodic files and row lists are passed as (block, repetitions) *)
Definition expand {A} (segs : list (list A * N)) : list A :=
  flat_map (fun s => concat (repeat (fst s) (N.to_nat (snd s)))) segs.

Inductive c18case :=
| CRaised
  (* rows -> csv.dump -> lines -> line.unframe -> csv.load -> rows *)
| CMem (sep : list Z) (esc : Z) (types : list ty) (names : list (list Z)) (tb : tabs)
       (rows : list (list val)) (impl_lines : list (list Z)) (impl_rows : list (list val)) (completed : bool)
  (* rows -> dump_to_file -> file content -> file.read(64 KiB) chunk lengths -> load_from_file -> rows *)
| CFile (sep : list Z) (esc : Z) (types : list ty) (names : list (list Z)) (tb : tabs)
        (rows : list (list (list val) * N)) (content : list (list Z * N)) (lens : list N)
        (impl_rows : list (list (list val) * N)) (completed : bool)
  (* arbitrary lines (first one = header) -> csv.load *)
| CParse (sep : list Z) (esc : Z) (types : list ty) (tb : tabs) (lines : list (list Z))
         (impl_rows : list (list val)) (completed : bool)
  (* rows -> csv.dump -> text cut again into the given chunks -> line.unframe -> csv.load -> rows *)
| CChunk (sep : list Z) (esc : Z) (types : list ty) (names : list (list Z)) (tb : tabs)
         (rows : list (list (list val) * N)) (chunks : list (list Z))
         (impl_rows : list (list (list val) * N)) (completed : bool)
  (* scale case (a line of several read chunks, a file of several MiB): judged by the round-trip oracle alone,
     the list-based model is quadratic in the length of a line *)
| CSkip.

Definition c18_check (c : c18case) : bool :=
  match c with
  | CRaised => false                       (* errors are delivered through on_error, never raised *)
  | CMem sep esc types names tb rows impl_lines impl_rows completed =>
      laws_ok sep tb
      && zss_eqb (dump_lines fl (tab_str_int tb) (tab_str_float tb) sep esc [newline] names rows) impl_lines
      && result_eqb (load fl (tab_int_of tb) (tab_float_of tb) sep esc types (Line.run Z z_is_nl [] impl_lines))
                    (impl_rows, completed)
  | CFile sep esc types names tb rows content lens impl_rows completed =>
      let text := expand content in
      laws_ok sep tb
      && zs_eqb (concat (dump_lines fl (tab_str_int tb) (tab_str_float tb) sep esc [newline] names (expand rows))) text
      && list_eqb N.eqb (map (fun ch => N.of_nat (length ch)) (chunks_of 65536 text)) lens
      && result_eqb (load_file fl (tab_int_of tb) (tab_float_of tb) sep esc types text)
                    (expand impl_rows, completed)
  | CParse sep esc types tb lines impl_rows completed =>
      result_eqb (load fl (tab_int_of tb) (tab_float_of tb) sep esc types lines) (impl_rows, completed)
  | CChunk sep esc types names tb rows chunks impl_rows completed =>
      laws_ok sep tb
      && zs_eqb (concat (dump_lines fl (tab_str_int tb) (tab_str_float tb) sep esc [newline] names (expand rows)))
                (concat chunks)
      && result_eqb (load_chunks fl (tab_int_of tb) (tab_float_of tb) sep esc types chunks)
                    (expand impl_rows, completed)
  | CSkip => true
  end.

(* what the model says for a case (printed into replay files) *)
Definition c18_model (c : c18case) : list (list Z) * (list (list val) * bool) :=
  match c with
  | CRaised => ([], ([], false))
  | CMem sep esc types names tb rows _ _ _ =>
      let ls := dump_lines fl (tab_str_int tb) (tab_str_float tb) sep esc [newline] names rows in
      (ls, load fl (tab_int_of tb) (tab_float_of tb) sep esc types (Line.run Z z_is_nl [] ls))
  | CFile sep esc types names tb rows _ _ _ _ =>
      let ls := dump_lines fl (tab_str_int tb) (tab_str_float tb) sep esc [newline] names (firstn 3 (expand rows)) in
      (ls, load_file fl (tab_int_of tb) (tab_float_of tb) sep esc types (concat ls))
  | CParse sep esc types tb lines _ _ =>
      ([], load fl (tab_int_of tb) (tab_float_of tb) sep esc types lines)
  | CChunk sep esc types names tb rows chunks _ _ =>
      let ls := dump_lines fl (tab_str_int tb) (tab_str_float tb) sep esc [newline] names (firstn 3 (expand rows)) in
      (ls, load_chunks fl (tab_int_of tb) (tab_float_of tb) sep esc types
                       (chunks_of (N.of_nat (length (hd [] chunks))) (concat ls)))
  | CSkip => ([], ([], true))
  end.
