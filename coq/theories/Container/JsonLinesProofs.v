(* Proofs about the JSON-lines dump/load model (JsonLines.v): the composition theorem, for all object
   lists and all chunkings of the file, from the named hypotheses on the abstract stages; reuses
   Framing.LineProofs.unframe_frame (C15) and ParquetProofs.batches_concat (the file.read cutting). *)
From Coq Require Import List Arith Bool ZArith NArith Lia.
From RxVerif Require Import Framing.Line Framing.LineProofs Container.Parquet Container.ParquetProofs
  Container.JsonLines.
Import ListNotations.

Section JsonLinesProofs.
Variable Obj : Type.
Variable Ch : Type.
Variable Byte : Type.
Variable is_nl : Ch -> bool.
Variable nl : Ch.
Variable dumps : Obj -> list Ch.
Variable loads : list Ch -> option Obj.
Variable is_null : Obj -> bool.
Variable encode : list (list Ch) -> list (list Byte).
Variable decode : list (list Byte) -> option (list (list Ch)).
Variable compress : list (list Byte) -> list (list Byte).
Variable decompress : list (list Byte) -> option (list (list Byte)).

(* the newline dump appends is the character unframe splits on *)
Hypothesis H_newline : is_nl nl = true.
(* JSON oracle laws (orjson): *)
Hypothesis H_loads_dumps : forall o, loads (dumps o) = Some o.
Hypothesis H_dumps_no_newline : forall o, no_nl Ch is_nl (dumps o).
Hypothesis H_dumps_nonempty : forall o, dumps o <> [].
(* text codec stage (C17): decoding ANY re-chunking of the encoded bytes gives text chunks with the same
   concatenation *)
Hypothesis H_text_codec : forall cs r, concat r = concat (encode cs) ->
  exists cs', decode r = Some cs' /\ concat cs' = concat cs.
(* compression stage (C16; trivially true for compression=None): the same for decompress/compress *)
Hypothesis H_compression : forall bs r, concat r = concat (compress bs) ->
  exists bs', decompress r = Some bs' /\ concat bs' = concat bs.

Notation json_dump := (json_dump Obj Ch nl dumps).
Notation load_items := (load_items Obj Ch loads is_null).
Notation dump_to_file := (dump_to_file Obj Ch Byte nl dumps encode compress).
Notation load_chunks := (load_chunks Obj Ch Byte is_nl loads is_null decode decompress).
Notation load_from_file := (load_from_file Obj Ch Byte is_nl loads is_null decode decompress).

Lemma json_dump_frame : forall objs, concat (json_dump objs) = Line.frame Ch nl (map dumps objs).
Proof. intros. unfold JsonLines.json_dump, Line.frame, frame1. now rewrite map_map. Qed.

Lemma load_items_dumps : forall ign objs,
  load_items ign (map dumps objs) = (filter (fun o => negb (is_null o)) objs, true).
Proof.
  intros ign. induction objs as [|o objs IH]; cbn [map JsonLines.load_items filter]; [reflexivity|].
  destruct (length (dumps o) =? 0) eqn:E.
  - apply Nat.eqb_eq in E. apply length_zero_iff_nil in E. now apply H_dumps_nonempty in E.
  - rewrite H_loads_dumps, IH. now destruct (is_null o).
Qed.

(* composition: loading ANY re-chunking of the dumped file gives back the objects (after skip, minus
   top-level nulls), in order, and completes *)
Theorem load_rechunk_dump : forall objs r skip ign, concat r = dump_to_file objs ->
  load_chunks skip ign r = (filter (fun o => negb (is_null o)) (skipn skip objs), true).
Proof.
  intros objs r skip ign H. unfold JsonLines.dump_to_file, file_write in H.
  destruct (H_compression _ r H) as (bs & Hd & Hb).
  destruct (H_text_codec _ bs Hb) as (cs & Hc & Hcc).
  unfold JsonLines.load_chunks. rewrite Hd, Hc.
  rewrite (unframe_frame Ch is_nl nl H_newline (map dumps objs) cs []).
  - cbn [Line.finish length Nat.eqb]. rewrite app_nil_r. unfold json_load. rewrite skipn_map. apply load_items_dumps.
  - apply Forall_forall. intros x Hx. apply in_map_iff in Hx. destruct Hx as (o & <- & _). apply H_dumps_no_newline.
  - reflexivity.
  - now rewrite app_nil_r, Hcc, json_dump_frame.
Qed.

Theorem load_from_file_dump_to_file : forall objs size skip ign,
  load_from_file size skip ign (dump_to_file objs) = (filter (fun o => negb (is_null o)) (skipn skip objs), true).
Proof.
  intros. unfold JsonLines.load_from_file. apply load_rechunk_dump. unfold file_read. apply batches_concat.
Qed.

Corollary load_from_file_dump_to_file_objects : forall objs size ign,
  (forall o, In o objs -> is_null o = false) ->
  load_from_file size 0 ign (dump_to_file objs) = (objs, true).
Proof.
  intros objs size ign H. rewrite load_from_file_dump_to_file. cbn [skipn]. f_equal.
  induction objs as [|o objs IH]; cbn; [reflexivity|]. rewrite (H o) by (left; reflexivity). cbn.
  f_equal. apply IH. intros o' Ho'. apply H. now right.
Qed.

(* ---- file.read over a raw stream (short reads): whatever the stream delivers per call, the chunks are a
   prefix of the file; they are the whole file as soon as the loop ran to the empty read; and a stream that
   delivers at least one byte per call cannot starve the loop ---- *)
Notation raw_read := (raw_read Byte).

Lemma raw_read_prefix : forall size caps f, exists rest, concat (raw_read size caps f) ++ rest = f.
Proof.
  intros size. induction caps as [|c cs IH]; intros f; cbn [JsonLines.raw_read].
  - exists f. reflexivity.
  - destruct (Nat.min (Nat.min size c) (length f) =? 0).
    + exists f. reflexivity.
    + destruct (IH (skipn (Nat.min (Nat.min size c) (length f)) f)) as [rest H]. exists rest.
      cbn [concat]. rewrite <- app_assoc, H. apply firstn_skipn.
Qed.

Theorem raw_read_whole : forall size caps f,
  length (concat (raw_read size caps f)) = length f -> concat (raw_read size caps f) = f.
Proof.
  intros size caps f L. destruct (raw_read_prefix size caps f) as [rest H].
  assert (L2 : length (concat (raw_read size caps f) ++ rest) = length f) by now rewrite H.
  rewrite app_length in L2. destruct rest as [|b rest]; [|cbn in L2; lia].
  now rewrite app_nil_r in H.
Qed.

Theorem raw_read_enough : forall size caps f,
  0 < size -> Forall (fun c => 0 < c) caps -> length f <= length caps -> concat (raw_read size caps f) = f.
Proof.
  intros size. induction caps as [|c cs IH]; intros f Hs HF HL.
  - destruct f; [reflexivity|cbn in HL; lia].
  - cbn [JsonLines.raw_read]. inversion HF as [|c' cs' Hc HF']; subst.
    destruct (Nat.min (Nat.min size c) (length f) =? 0) eqn:E.
    + apply Nat.eqb_eq in E. destruct f; [reflexivity|cbn in E; lia].
    + apply Nat.eqb_neq in E. cbn [concat]. rewrite IH; [apply firstn_skipn|assumption|assumption|].
      rewrite skipn_length. cbn [length] in HL. lia.
Qed.

(* every chunk delivered is non-empty and at most `size` bytes long *)
Lemma raw_read_chunks : forall size caps f, Forall (fun ch => 0 < length ch <= size) (raw_read size caps f).
Proof.
  intros size. induction caps as [|c cs IH]; intros f; cbn [JsonLines.raw_read]; [constructor|].
  destruct (Nat.min (Nat.min size c) (length f) =? 0) eqn:E; [constructor|].
  apply Nat.eqb_neq in E. constructor; [|apply IH]. rewrite firstn_length. lia.
Qed.

(* the sizes of the chunks, as computed by the size-level function of the correspondence check *)
Theorem raw_read_sizes : forall size caps f,
  map (fun ch => N.of_nat (length ch)) (raw_read size caps f) =
  raw_sizes (N.of_nat size) (map N.of_nat caps) (N.of_nat (length f)).
Proof.
  intros size. induction caps as [|c cs IH]; intros f; cbn [JsonLines.raw_read raw_sizes map]; [reflexivity|].
  rewrite <- !Nat2N.inj_min.
  remember (Nat.min (Nat.min size c) (length f)) as n eqn:En.
  destruct n as [|n'].
  - reflexivity.
  - cbn [Nat.eqb]. change (N.of_nat (S n') =? 0)%N with false. cbn [map]. f_equal.
    + rewrite firstn_length. f_equal. lia.
    + rewrite IH, skipn_length, Nat2N.inj_sub. reflexivity.
Qed.

(* composition with a raw stream: the round trip holds whenever the read loop ran to the end of the file,
   whatever the sizes of the short reads ... *)
Theorem load_raw_read_dump : forall objs size caps skip ign,
  length (concat (raw_read size caps (dump_to_file objs))) = length (dump_to_file objs) ->
  load_chunks skip ign (raw_read size caps (dump_to_file objs)) =
  (filter (fun o => negb (is_null o)) (skipn skip objs), true).
Proof. intros. apply load_rechunk_dump. now apply raw_read_whole. Qed.

(* ... which it does when every call delivers at least one byte until the end of the data *)
Theorem load_raw_stream_dump : forall objs size caps skip ign,
  0 < size -> Forall (fun c => 0 < c) caps -> length (dump_to_file objs) <= length caps ->
  load_chunks skip ign (raw_read size caps (dump_to_file objs)) =
  (filter (fun o => negb (is_null o)) (skipn skip objs), true).
Proof. intros. apply load_rechunk_dump. now apply raw_read_enough. Qed.
End JsonLinesProofs.

(* compression=None: the compression stage is the identity and satisfies H_compression *)
Lemma no_compression_ok : forall (Byte : Type) (bs r : list (list Byte)),
  concat r = concat ((fun x => x) bs) -> exists bs', (fun x => Some x) r = Some bs' /\ concat bs' = concat bs.
Proof. intros Byte bs r H. exists r. auto. Qed.

(* ---- lines=False: a file holding ONE document.  file.read(size=-1) hands the whole file over in one chunk,
   the stages deliver it in one non-empty piece (plus empty flush items), load parses that piece. ---- *)
Section JsonDocProofs.
Variable Obj : Type.
Variable Ch : Type.
Variable Byte : Type.
Variable nl : Ch.
Variable dumps : Obj -> list Ch.
Variable loads : list Ch -> option Obj.
Variable is_null : Obj -> bool.
Variable encode : list (list Ch) -> list (list Byte).
Variable decode : list (list Byte) -> option (list (list Ch)).
Variable compress : list (list Byte) -> list (list Byte).
Variable decompress : list (list Byte) -> option (list (list Byte)).

(* orjson accepts the newline dump appended after the document *)
Hypothesis H_loads_dumps_nl : forall o, loads (dumps o ++ [nl]) = Some o.
(* text codec: fed the whole encoded text in ONE non-empty item (and any number of empty ones), the decoder
   delivers the whole text in ONE non-empty item (and any number of empty ones) *)
Hypothesis H_text_codec_whole : forall cs r, drop_empty r = drop_empty [concat (encode cs)] ->
  exists cs', decode r = Some cs' /\ drop_empty cs' = drop_empty [concat cs].
(* compression stage: the same (trivially true for compression=None) *)
Hypothesis H_compression_whole : forall bs r, drop_empty r = drop_empty [concat (compress bs)] ->
  exists bs', decompress r = Some bs' /\ drop_empty bs' = drop_empty [concat bs].

Notation load_items := (load_items Obj Ch loads is_null).
Notation dump_to_file := (dump_to_file Obj Ch Byte nl dumps encode compress).
Notation load_doc_chunks := (load_doc_chunks Obj Ch Byte loads is_null decode decompress).
Notation load_doc_from_file := (load_doc_from_file Obj Ch Byte loads is_null decode decompress).

(* load does not see empty items *)
Lemma load_items_drop_empty : forall ign cs, load_items ign cs = load_items ign (drop_empty cs).
Proof.
  intros ign. induction cs as [|c cs IH]; [reflexivity|].
  unfold drop_empty. cbn [filter JsonLines.load_items]. destruct (length c =? 0) eqn:E; cbn [negb].
  - exact IH.
  - cbn [JsonLines.load_items]. rewrite E. fold (drop_empty cs). rewrite <- IH. reflexivity.
Qed.

Lemma file_read_all_drop_empty : forall f : list Byte, drop_empty (file_read_all Byte f) = drop_empty [f].
Proof. intros [|b f]; reflexivity. Qed.

Lemma file_read_all_concat : forall f : list Byte, concat (file_read_all Byte f) = f.
Proof. intros [|b f]; cbn; [reflexivity|]. now rewrite app_nil_r. Qed.

Lemma file_read_all_sizes : forall f : list Byte,
  map (fun ch => N.of_nat (length ch)) (file_read_all Byte f) = doc_read_sizes (N.of_nat (length f)).
Proof. intros [|b f]; reflexivity. Qed.

(* any chunk sequence whose only non-empty item is the whole dumped file loads to the document *)
Theorem load_doc_chunks_dump_one : forall o r ign, is_null o = false ->
  drop_empty r = drop_empty [dump_to_file [o]] ->
  load_doc_chunks 0 ign r = ([o], true).
Proof.
  intros o r ign Hn H. unfold JsonLines.dump_to_file, file_write in H.
  destruct (H_compression_whole _ r H) as (bs & Hd & Hb).
  destruct (H_text_codec_whole _ bs Hb) as (cs & Hc & Hcc).
  unfold JsonLines.load_doc_chunks. rewrite Hd, Hc. unfold json_load. cbn [skipn].
  rewrite load_items_drop_empty, Hcc.
  unfold JsonLines.json_dump. cbn [map concat]. rewrite app_nil_r.
  unfold drop_empty. cbn [filter]. rewrite app_length. cbn [length].
  replace (length (dumps o) + 1 =? 0) with false by (symmetry; apply Nat.eqb_neq; lia).
  cbn [negb JsonLines.load_items]. rewrite app_length. cbn [length].
  replace (length (dumps o) + 1 =? 0) with false by (symmetry; apply Nat.eqb_neq; lia).
  now rewrite H_loads_dumps_nl, Hn.
Qed.

Theorem load_doc_from_file_dump_one : forall o ign, is_null o = false ->
  load_doc_from_file 0 ign (dump_to_file [o]) = ([o], true).
Proof.
  intros o ign Hn. unfold JsonLines.load_doc_from_file. apply load_doc_chunks_dump_one; [assumption|].
  apply file_read_all_drop_empty.
Qed.

(* through a raw stream: readall() joins the short reads; when every read call delivers at least one byte
   until the end of the data the result is the file, so the round trip is the same *)
Theorem load_doc_raw_stream_dump_one : forall o buf caps ign, is_null o = false ->
  0 < buf -> Forall (fun c => 0 < c) caps -> length (dump_to_file [o]) <= length caps ->
  load_doc_chunks 0 ign (file_read_all Byte (raw_readall Byte buf caps (dump_to_file [o]))) = ([o], true).
Proof.
  intros o buf caps ign Hn Hb HF HL. unfold raw_readall.
  rewrite (raw_read_enough Byte buf caps _ Hb HF HL). now apply load_doc_from_file_dump_one.
Qed.
End JsonDocProofs.

(* compression=None satisfies the whole-item premise *)
Lemma no_compression_whole_ok : forall (Byte : Type) (bs r : list (list Byte)),
  drop_empty r = drop_empty [concat ((fun x => x) bs)] ->
  exists bs', (fun x => Some x) r = Some bs' /\ drop_empty bs' = drop_empty [concat bs].
Proof. intros Byte bs r H. exists r. auto. Qed.

(* ---- the length-level abstraction agrees with Framing.Line ---- *)
Section Lengths.
Variable C : Type.
Variable is_nl : C -> bool.
Definition lenN (l : list C) : N := N.of_nat (length l).
Definition seglens (chunk : list C) : list N := map lenN (py_split C is_nl chunk).

Lemma last_map_len : forall (l : list (list C)), last (map lenN l) 0%N = lenN (last l []).
Proof. induction l as [|x [|y l] IH]; cbn in *; auto. Qed.
Lemma removelast_map_len : forall (l : list (list C)), removelast (map lenN l) = map lenN (removelast l).
Proof. induction l as [|x [|y l] IH]; cbn in *; auto. now rewrite IH. Qed.

Lemma len_step_spec : forall acc chunk,
  len_step (lenN acc) (seglens chunk) =
  (lenN (fst (Line.step C is_nl acc chunk)), map lenN (snd (Line.step C is_nl acc chunk))).
Proof.
  intros acc chunk. unfold seglens, Line.step. destruct (py_split C is_nl chunk) as [|l0 rest]; [reflexivity|].
  cbn [map len_step fst snd].
  replace (lenN acc + lenN l0)%N with (lenN (acc ++ l0)) by (unfold lenN; rewrite app_length; lia).
  change (lenN (acc ++ l0) :: map lenN rest) with (map lenN ((acc ++ l0) :: rest)).
  now rewrite last_map_len, removelast_map_len.
Qed.

Theorem len_run_timed_spec : forall chunks acc,
  len_run_timed (lenN acc) (map seglens chunks) = map (map lenN) (Line.run_timed C is_nl acc chunks).
Proof.
  induction chunks as [|c cs IH]; intros acc; cbn [map len_run_timed Line.run_timed].
  - unfold len_finish, Line.finish, lenN. destruct acc; reflexivity.
  - rewrite len_step_spec. destruct (Line.step C is_nl acc c) as [acc' out]. cbn [fst snd map]. now rewrite IH.
Qed.
End Lengths.
