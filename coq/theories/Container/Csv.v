(* Model of rxsci/container/csv.py: dump (field rendering, quoting, escaping), create_line_parser.parse_line,
   merge_escape_parts (six branches, closing-quote test by parity of the preceding escape run),
   quote stripping + the two un-escaping replaces, type_parser / parse_int / parse_decimal, load,
   dump_to_file / load_from_file (through rxsci/io/file.py read(size) and rxsci/framing/line.py unframe).
   Strings are lists of code points.  Executable; no proofs in this file.

   Numbers are carried through an abstract layer: str(n), int(text), str(x), float(text) are Section
   variables (CPython is the oracle for them; see props/C18.v for the laws the theorems assume). *)
From Coq Require Import List Arith Bool ZArith NArith.
From RxVerif Require Import Framing.Line.
Import ListNotations.

Definition quote : Z := 34%Z.     (* the double quote, chr 34, is hard-wired in csv.py *)
Definition newline : Z := 10%Z.

(* ---------------------------------------------------------------------------------------------
   Python str primitives
   --------------------------------------------------------------------------------------------- *)
Fixpoint is_prefix (p s : list Z) : bool :=
  match p, s with
  | [], _ => true
  | a :: p', b :: s' => Z.eqb a b && is_prefix p' s'
  | _ :: _, [] => false
  end.

Definition cons_head (c : Z) (l : list (list Z)) : list (list Z) :=
  match l with h :: r => (c :: h) :: r | [] => [[c]] end.

(* s.split(sep) for a non-empty separator: leftmost, non-overlapping occurrences.
   `skip` = characters of the separator just matched that are still to be consumed. *)
Fixpoint split_from (sep : list Z) (skip : nat) (s : list Z) : list (list Z) :=
  match s with
  | [] => [[]]
  | c :: t =>
      match skip with
      | S k => split_from sep k t
      | O => if is_prefix sep s then [] :: split_from sep (length sep - 1) t
             else cons_head c (split_from sep 0 t)
      end
  end.
Definition str_split (sep s : list Z) : list (list Z) := split_from sep 0 s.

(* sep.join(l) *)
Fixpoint join (sep : list Z) (l : list (list Z)) : list Z :=
  match l with
  | [] => []
  | x :: r => match r with [] => x | _ :: _ => x ++ sep ++ join sep r end
  end.

(* s.replace(a, r) for a one-character pattern *)
Definition replace1 (a : Z) (r : list Z) (s : list Z) : list Z :=
  flat_map (fun c => if Z.eq_dec c a then r else [c]) s.
(* s.replace(a+b, r) for a two-character pattern: leftmost, non-overlapping *)
Fixpoint replace2 (a b : Z) (r : list Z) (s : list Z) : list Z :=
  match s with
  | x :: t => match t with
              | y :: s' => if Z.eq_dec x a
                           then (if Z.eq_dec y b then r ++ replace2 a b r s' else x :: replace2 a b r t)
                           else x :: replace2 a b r t
              | [] => [x]
              end
  | [] => []
  end.

(* rxsci/io/file.py read(size=n) in text mode: f.read(n) until it returns ''
   (cur = current chunk, reversed; rev_append because List.rev is quadratic) *)
Fixpoint chunk_go (size n : N) (cur : list Z) (s : list Z) : list (list Z) :=
  match s with
  | [] => match cur with [] => [] | _ :: _ => [rev_append cur []] end
  | c :: t => if N.eqb (n + 1) size then rev_append (c :: cur) [] :: chunk_go size 0 [] t
              else chunk_go size (n + 1) (c :: cur) t
  end.
Definition chunks_of (size : N) (s : list Z) : list (list Z) := chunk_go size 0 [] s.

Inductive ty := TInt | TFloat | TBool | TStr.

Definition str_bool (b : bool) : list Z :=         (* str(True) / str(False) *)
  (if b then [84; 114; 117; 101] else [70; 97; 108; 115; 101])%Z.

Section Csv.
Variable F : Type.                        (* float values *)
Variable str_int : Z -> list Z.           (* str(n)      for type(n) is int   *)
Variable int_of : list Z -> option Z.     (* int(text);   None = ValueError   *)
Variable str_float : F -> list Z.         (* str(x)      for type(x) is float *)
Variable float_of : list Z -> option F.   (* float(text); None = ValueError   *)
Variable sep : list Z.                    (* separator *)
Variable esc : Z.                         (* escapechar (one character) *)

Inductive value := VNone | VInt (n : Z) | VFloat (x : F) | VBool (b : bool) | VStr (s : list Z).

(* ---------------------------------------------------------------------------------------------
   dump
   --------------------------------------------------------------------------------------------- *)
(* f.replace(escapechar, escapechar+escapechar).replace(DQ, escapechar+DQ)   where DQ = chr 34 *)
Definition escape (s : list Z) : list Z := replace1 quote [esc; quote] (replace1 esc [esc; esc] s).

Definition render (v : value) : list Z :=
  match v with
  | VStr s => [quote] ++ escape s ++ [quote]      (* DQ + f + DQ *)
  | VNone => []
  | VInt n => str_int n
  | VFloat x => str_float x
  | VBool b => str_bool b
  end.

(* separator.join(ii)  (the line without the newline) *)
Definition dump_line (row : list value) : list Z := join sep (map render row).
(* what dump() emits with header=True: the header, then one item per row, each + newline *)
Definition dump_lines (nl : list Z) (names : list (list Z)) (rows : list (list value)) : list (list Z) :=
  match rows with
  | [] => []                                       (* the header is written with the first row *)
  | _ :: _ => (join sep names ++ nl) :: map (fun r => dump_line r ++ nl) rows
  end.

(* ---------------------------------------------------------------------------------------------
   load
   --------------------------------------------------------------------------------------------- *)
Definition first_is_quote (t : list Z) : bool := match t with c :: _ => Z.eqb c quote | [] => false end.
Definition last_is_quote (t : list Z) : bool := match rev t with c :: _ => Z.eqb c quote | [] => false end.
Definition is_quote (t : list Z) : bool := match t with [c] => Z.eqb c quote | _ => false end.

(* number of escape characters at the head of a (reversed) string *)
Fixpoint esc_run (l : list Z) : nat :=
  match l with c :: r => if Z.eqb c esc then S (esc_run r) else 0 | [] => 0 end.
(* _ends_with_closing_quote(t, escapechar): last character is DQ and it is preceded by an even
   number of escape characters *)
Definition closing (t : list Z) : bool :=
  match rev t with c :: r => Z.eqb c quote && Nat.even (esc_run r) | [] => false end.

(* merge_escape_parts: agg = None | Some (parts being aggregated) *)
Fixpoint merge (agg : option (list (list Z))) (parts : list (list Z)) : list (list Z) :=
  match parts with
  | [] => []                                        (* a dangling agg is dropped *)
  | t :: ps =>
      if is_quote t then
        match agg with
        | None => merge (Some [t]) ps
        | Some a => join sep (a ++ [t]) :: merge None ps
        end
      else match agg with
      | None =>
          if (1 <? length t) && first_is_quote t && closing t then t :: merge None ps   (* branch 2 *)
          else if (0 <? length t) && first_is_quote t then merge (Some [t]) ps          (* branch 4 *)
          else t :: merge None ps                                                       (* branch 6 *)
      | Some a =>
          if closing t then join sep (a ++ [t]) :: merge None ps                        (* branch 3 *)
          else merge (Some (a ++ [t])) ps                                               (* branch 5 *)
      end
  end.
Definition merge_escape_parts (parts : list (list Z)) : list (list Z) := merge None parts.

(* i.replace(escapechar+escapechar, escapechar).replace(escapechar+DQ, DQ) *)
Definition unescape (s : list Z) : list Z := replace2 esc quote [quote] (replace2 esc esc [esc] s).
(* if len(i) > 0 and i[0] == DQ and i[-1] == DQ: i = i[1:-1]; un-escape *)
Definition unquote (i : list Z) : list Z :=
  if first_is_quote i && last_is_quote i then unescape (removelast (tl i)) else i.

Definition is_empty (t : list Z) : bool := match t with [] => true | _ :: _ => false end.
(* type_parser: parse_int, parse_decimal (= float(ii) for non-empty input), bool, str *)
Definition parse_field (t : ty) (i : list Z) : option value :=
  match t with
  | TInt => if is_empty i then Some VNone else option_map VInt (int_of i)
  | TFloat => if is_empty i then Some VNone else option_map VFloat (float_of i)
  | TBool => Some (VBool (if list_eq_dec Z.eq_dec i (str_bool true) then true else false))
  | TStr => Some (VStr i)
  end.

Fixpoint parse_fields (types : list ty) (parts : list (list Z)) : option (list value) :=
  match types, parts with
  | [], [] => Some []
  | t :: ts, p :: ps =>
      match parse_field t (unquote p), parse_fields ts ps with
      | Some v, Some vs => Some (v :: vs)
      | _, _ => None
      end
  | _, _ => None
  end.

(* create_line_parser.parse_line; None = raises (ValueError) *)
Definition parse_line (types : list ty) (line : list Z) : option (list value) :=
  let parts := str_split sep line in
  let parts' :=
    if length parts =? length types then Some parts
    else let m := merge_escape_parts parts in
         if length m =? length types then Some m else None in
  match parts' with Some ps => parse_fields types ps | None => None end.

(* load(parse_line) with a dtype: the first item (header) only instantiates the schema; every other
   item is parsed; the first failing line ends the stream with on_error.
   Result: rows emitted, and whether the stream completed (true) or errored (false). *)
Fixpoint load_rows (types : list ty) (lines : list (list Z)) : list (list value) * bool :=
  match lines with
  | [] => ([], true)
  | l :: r => match parse_line types l with
              | Some row => let '(rs, ok) := load_rows types r in (row :: rs, ok)
              | None => ([], false)
              end
  end.
Definition load (types : list ty) (lines : list (list Z)) : list (list value) * bool :=
  load_rows types (tl lines).

(* load_from_file: file.read(64 KiB chunks) |> line.unframe() |> load *)
Definition load_chunks (types : list ty) (chunks : list (list Z)) : list (list value) * bool :=
  load types (Line.run Z z_is_nl [] chunks).
Definition load_file (types : list ty) (content : list Z) : list (list value) * bool :=
  load_chunks types (chunks_of 65536 content).
End Csv.

Arguments VNone {F}.
Arguments VInt {F} n.
Arguments VFloat {F} x.
Arguments VBool {F} b.
Arguments VStr {F} s.

(* ---------------------------------------------------------------------------------------------
   Predicates used in the statements of props/C18.v (definitions only)
   --------------------------------------------------------------------------------------------- *)
(* a field that fits its column type; None is what dump writes as the empty text and what
   parse_int / parse_decimal return for it *)
Inductive field_ok {F : Type} : ty -> value F -> Prop :=
| ok_int n : field_ok TInt (VInt n)
| ok_float x : field_ok TFloat (VFloat x)
| ok_bool b : field_ok TBool (VBool b)
| ok_str s : field_ok TStr (VStr s)
| ok_none_int : field_ok TInt VNone
| ok_none_float : field_ok TFloat VNone.

(* what the theorems assume about the printed form of a number, for separator character p *)
Definition printed_ok (p : Z) (t : list Z) : Prop :=
  t <> [] /\ ~ In p t /\ first_is_quote t = false.

(* no newline inside the strings of a row / in a text *)
Definition text_no_nl (t : list Z) : Prop := ~ In newline t.
Definition value_no_nl {F : Type} (v : value F) : Prop :=
  match v with VStr s => text_no_nl s | _ => True end.
